#!/bin/sh
# Entry point registered in MANIFEST.json: ./check.sh <property-id> [quick|thorough]
# Static analysis of /repo's current working tree; nothing of the repository is built or run.
cd "$(dirname "$0")" || exit 2
export GOFLAGS=-mod=mod GOPROXY=off GOSUMDB=off GOTOOLCHAIN=local
unset GOWORK
ID=$1
TIER=${2:-${VERIF_TIER:-quick}}
if [ ! -x bin/fvcheck ] || [ -n "$(find tools -newer bin/fvcheck -name '*.go' 2>/dev/null | head -1)" ]; then
  mkdir -p bin
  (cd tools && go build -o ../bin/fvcheck ./cmd/fvcheck) || { echo "cannot build fvcheck"; exit 2; }
fi
exec bin/fvcheck -p "$ID" -tier "$TIER" -repo "${VERIF_REPO:-/repo}" -verif "$(pwd)"
