#!/usr/bin/env python3
"""Creates hand-made selftest variants: each breaks one instance of one rule and still type-checks.
Usage: mkmuts.py   (writes /verif/selftest/<prop>/<name>.diff; skips a variant whose anchor text is not unique)"""
import os,subprocess,tempfile,shutil
R='/repo'
V=[
 ("C12","sort-without-copy","pkg/slice/slice.go","	res := append(s[:0:0], s...)\n	slices.SortFunc(res, cmp.Compare)","	res := s\n	slices.SortFunc(res, cmp.Compare)"),
 ("C12","filter-reuses-argument","pkg/slice/slice.go","func Filter[T any](pred func(T) bool, s []T) []T {\n	var res []T","func Filter[T any](pred func(T) bool, s []T) []T {\n	res := s[:0]"),
 ("C12","append-onto-s1","pkg/slice/slice.go","	var res []T\n	res = append(res, s1...)\n	res = append(res, s2...)\n	return res","	res := append(s1, s2...)\n	return res"),
 ("C14","hassuffix-args-swapped","pkg/strings/strings.go","return sysstr.HasSuffix(s, suffix)","return sysstr.HasSuffix(suffix, s)"),
 ("C14","split-args-swapped","pkg/strings/strings.go","return sysstr.Split(cont, sep)","return sysstr.Split(sep, cont)"),
 ("C14","ifelse-thunks-swapped","pkg/frt/frt.go","	if cond {\n		return tbody()\n	} else {\n		return fbody()\n	}","	if cond {\n		return fbody()\n	} else {\n		return tbody()\n	}"),
 ("C14","ifonly-negated","pkg/frt/frt.go","func IfOnly(cond bool, tbody func()) {\n	if cond {","func IfOnly(cond bool, tbody func()) {\n	if !cond {"),
 ("C14","todict-first-wins","pkg/dict/dict.go","		k, v := frt.Destr2(tp)\n		Add(dic, k, v)","		k, v := frt.Destr2(tp)\n		if !ContainsKey(dic, k) {\n			Add(dic, k, v)\n		}"),
 ("C13","take-off-by-one","pkg/slice/slice.go","	for i := 0; i < num; i++ {","	for i := 0; i <= num; i++ {"),
 ("C13","skip-starts-late","pkg/slice/slice.go","	for i := count; i < len(s); i++ {","	for i := count + 1; i < len(s); i++ {"),
 ("C13","forall-inverted","pkg/slice/slice.go","		if !pred(e) {\n			return false\n		}\n	}\n	return true","		if pred(e) {\n			return false\n		}\n	}\n	return true"),
 ("C13","last-is-first","pkg/slice/slice.go","	return s[len(s)-1]","	return s[0]"),
 ("C10","exporter-rejects","pkg/frt/frt.go","gcmp.Exporter(func(reflect.Type) bool { return true }),","gcmp.Exporter(func(reflect.Type) bool { return false }),"),
 ("C10","notequal-not-negated","pkg/frt/frt.go","	return !OpEqual(e1, e2)","	return OpEqual(e1, e2)"),
 ("C11","percent-not-doubled","fc/wrapper.go","			res.WriteString(\"%%\")","			res.WriteByte(c)"),
 ("C11","raw-quote-unescaped","fc/wrapper.go","		} else if c == '\"' {\n			bb.WriteString(\"\\\\\\\"\")\n		} else if c == '\\n' {","		} else if c == '\\n' {"),
 ("C05","time-in-wrapper","fc/wrapper.go",["func uniqueTmpVarName() string {\n	uniqueId++","import (\n	\"bytes\"\n	\"fmt\"\n	\"os\"\n"],["func uniqueTmpVarName() string {\n	uniqueId += int(time.Now().UnixNano() % 2)","import (\n	\"bytes\"\n	\"fmt\"\n	\"os\"\n	\"time\"\n"]),
 ("C15","float-prints-float32","fc/gen_ftype.go","		return \"float64\"","		return \"float32\""),
 ("C17","tinyfo-plus-rank","tinyfo/parser.go","	PLUS:    {4, \"+\"},","	PLUS:    {2, \"+\"},"),
 ("C17","tinyfo-right-operand-same-rank","tinyfo/parser.go","rhs := p.parseExprWithPrecedence(binInfo.precedence + 1)","rhs := p.parseExprWithPrecedence(binInfo.precedence)"),
 ("C18","title-uses-head","cmd/build_sample_md/gen_build_sample_md.go","slice.Head(cols), slice.Last(cols)","slice.Head(cols), slice.Head(cols)"),
 ("C18","read-failure-continues","cmd/build_sample_md/gen_build_sample_md.go","		frt.Panicf1(\"Can't open file %s\", foFname)","		frt.Printf1(\"Can't open file %s\", foFname)"),
 ("C01","lazy-block-invoked","fc/gen_expr_to_go.go","	return wrapFunc(FTypeToGo, rtype, returnBody)\n}","	return wrapFunCall(FTypeToGo, rtype, returnBody)\n}"),
 ("C01","ampamp-not-shortcircuit","fc/wrapper.go","	New_TokenType_AMPAMP:  {2, \"&&\", true},","	New_TokenType_AMPAMP:  {2, \"&\", true},"),
 ("C05","head-of-dict-values","fc/gen_parse_state.go","	return frt.Pipe(frt.Pipe(frt.Pipe(dict.Keys(sdic.RecFacMap), slice.Sort), (func(_r0 []string) []RecordFactory {\n		return slice.Map((func(_r0 string) RecordFactory { return dict.Item(sdic.RecFacMap, _r0) }), _r0)\n	})), (func(_r0 []RecordFactory)","	return frt.Pipe(dict.Values(sdic.RecFacMap), (func(_r0 []RecordFactory)"),
]
V+=[
 ("C06","block-end-uses-le","fc/gen_parser.go","\tisOffside := (psCurCol(ps) < psCurOffside(ps))","\tisOffside := (psCurCol(ps) <= psCurOffside(ps))"),
 ("C06","column-compared-with-literal","fc/gen_parser.go","\tcurCol := psCurCol(ps)\n\tcurOff := psCurOffside(ps)\n\treturn (curCol >= curOff)","\tcurCol := psCurCol(ps)\n\tcurOff := psCurOffside(ps)\n\treturn ((curCol >= curOff) || (curCol > 40))"),
 ("C15","slice-binds-looser2","fc/gen_parser.go","\tpTerm := (func(_r0 ParseState) frt.Tuple2[ParseState, FType] { return parseTermType(pType, _r0) })\n\tps2, fts := frt.Destr2(ParseSepList(pTerm, New_TokenType_ASTER, ps))","\tpTerm := (func(_r0 ParseState) frt.Tuple2[ParseState, FType] { return parseAtomType(pType, _r0) })\n\tps2, fts := frt.Destr2(ParseSepList(pTerm, New_TokenType_ASTER, ps))"),
 ("C02","substitution-skips-slices2","fc/gen_ast_util.go","\tcase FType_FSlice:\n\t\tts := _v17.Value\n\t\tet := recurse(ts.ElemType)\n\t\treturn New_FType_FSlice(SliceType{ElemType: et})\n",""),
 ("C02","tvar-names-from-one","fc/gen_infer.go","\treturn frt.Sprintf1(\"T%d\", i)","\treturn frt.Sprintf1(\"T%d\", (i + 1))"),
]
made=0
for prop,name,f,old,new in V:
    src=open(os.path.join(R,f)).read()
    olds=old if isinstance(old,list) else [old]
    news=new if isinstance(new,list) else [new]
    bad=[o for o in olds if src.count(o)!=1]
    if bad:
        print("SKIP %s/%s: anchor not unique"%(prop,name)); continue
    mutated=src
    for o,nw in zip(olds,news): mutated=mutated.replace(o,nw)
    d=tempfile.mkdtemp()
    os.makedirs(os.path.join(d,'a',os.path.dirname(f)),exist_ok=True); os.makedirs(os.path.join(d,'b',os.path.dirname(f)),exist_ok=True)
    open(os.path.join(d,'a',f),'w').write(src); open(os.path.join(d,'b',f),'w').write(mutated)
    out=subprocess.run(['diff','-u','a/'+f,'b/'+f],cwd=d,capture_output=True,text=True).stdout
    os.makedirs('/verif/selftest/'+prop,exist_ok=True)
    open('/verif/selftest/%s/%s.diff'%(prop,name),'w').write(out)
    shutil.rmtree(d); made+=1
print("made",made)
