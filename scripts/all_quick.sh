#!/bin/sh
# all_quick.sh: every property's quick check on /repo's working tree, one summary line each
cd /verif
for p in C01 C02 C03 C04 C05 C06 C07 C08 C09 C10 C11 C12 C13 C14 C15 C16 C17 C18; do ./check.sh $p quick 2>&1 | grep -E "^FAIL|VIOLATION|^OK|^panic" | head -${1:-3}; done
