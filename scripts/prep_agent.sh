#!/bin/sh
# prepares a scratch worktree and prompt for a seeding sub-agent: prep_agent.sh <id> [suffix]
ID=$1; SUF=$2
cd /repo && git worktree add -q --detach /tmp/wt_$ID$SUF HEAD && mkdir -p /tmp/seed/$ID$SUF
python3 - $ID "$SUF" <<'PY'
import json,sys
id=sys.argv[1]; suf=sys.argv[2]
for l in open('/verif/properties.jsonl'):
    p=json.loads(l)
    if p['id']==id:
        prop="Property %s: %s\n\nStatement: %s\n\nQuantified over: %s\n\nWhy the existing tests cannot settle it: %s\n"%(p['id'],p['title'],p['statement'],p['quantifier']['text'],p['why_tests_cant'])
        t=open('/tmp/seed/PROMPT_TEMPLATE.txt').read()
        t=t.replace('__WT__','/tmp/wt_'+id+suf).replace('__OUT__','/tmp/seed/'+id+suf).replace('__PROPERTY__',prop)
        open('/tmp/seed/%s%s/prompt.txt'%(id,suf),'w').write(t)
PY
echo /tmp/seed/$ID$SUF/prompt.txt
