#!/usr/bin/env python3
"""Regenerates /verif/MANIFEST.json from the table below (kept here so the
claimed set, the not_applicable list and the texts stay in one place)."""
import json, os

HERE = os.path.dirname(os.path.dirname(os.path.abspath(__file__)))
props = [json.loads(l) for l in open(os.path.join(HERE, "properties.jsonl"))]

# id -> (technique, level text, level note, design ref)
CLAIMED = {
    "C12": (
        "go/ssa ownership (freshness) analysis of every write site of pkg/slice",
        "Sound invariant decided for every function of pkg/slice on every run: no instruction writes into memory reachable from a pre-existing slice "
        "(append only onto FRESH/CLIP, stores/copy/in-place sort only on FRESH, no package state). Holds for all call histories, lengths and capacities at once, "
        "which is exactly the quantifier the tests cannot sample.",
        "Trusts the Go spec of append/slicing, the mutator/read-only table of stdlib callees, and that callbacks do not mutate their arguments.",
        "DESIGN.md §3 C12",
    ),
}

CLAIMED.update({
    "C08": (
        "constant evaluation of the operator table + closed-form (TERM) comparison of the precedence-climbing functions + scanner lexeme table",
        "Decides, for chains of any length, the three facts from which grouping follows (table = published ranks; stop iff rank<minPrec; right operand at rank+1, continuation keeps minPrec and routes cur/rhs in order), "
        "the lexeme->token->Go-operator chain, operand layering (application > not > binary, parentheses re-enter at 1) and that emission always parenthesises. A structural necessary-and-sufficient condition relative to the standard precedence-climbing theorem.",
        "Trusts the precedence-climbing theorem; a behaviour-preserving rewrite of the analysed functions into a different closed form is reported as undecided (fails).",
        "DESIGN.md §3 C08",
    ),
    "C10": (
        "closed-form (TERM) analysis of frt.OpEqual's go-cmp configuration and of the compiler's routing of = and <>",
        "Totality of equality on all first-order values is a matter of go-cmp configuration visible in the code: accept-all Exporter (no panic on lower-case record fields), EquateEmpty (nil = empty slice), "
        "no option that can break equivalence, OpNotEqual = not OpEqual, = / <> routed to them with both operands typed alike. Decided for all values at once.",
        "Trusts go-cmp v0.6.0's Equal (reflexive/symmetric/transitive structural equality under these options).",
        "DESIGN.md §3 C10",
    ),
    "C14": (
        "closed-form (TERM) comparison of every thin wrapper with its specification term; loop normal forms for the six loops; reflect kind/accessor compatibility in toS",
        "Each helper is a thin wrapper, so its canonical closed form over its parameters is its behaviour relative to the Go standard library, for all inputs and histories: argument routing of the curried strings wrappers, "
        "comma-ok dict lookups on the same map/key, one append per map entry in Keys/Values/KVs, in-order ToDict, tuple field routing, branch polarity and exactly-once thunk calls of IfElse*, formatting argument order, toS accessor/kind compatibility.",
        "Trusts Go maps, strings, bytes.Buffer, fmt and reflect. A rewritten wrapper with a different closed form is undecided (fails).",
        "DESIGN.md §3 C14",
    ),
})

CLAIMED.update({
    "C11": (
        "go/ssa forward byte-class dataflow over the three literal scanners (escaping discipline per target layer) + closed-form anchors of the emitting functions and of the path from the file to the scanner",
        "For every one of the 256 byte values and each literal form at once: no metacharacter of a target layer (Go string literal, fmt format, hole syntax) is copied raw, every metacharacter has a branch writing exactly that layer's escape, "
        "escape pairs are passed in input order, brace escapes are separated, the hole name is an untransformed sub-string, bytes >= 0x80 are only raw-copied. The buffers are tied to their layers by the emission templates, and the tokenizer is given the file content as read.",
        "Trusts Go's string-literal and fmt syntax. Does not decide bounds arithmetic of hole names nor undocumented escapes.",
        "DESIGN.md §3 C11",
    ),
})

CLAIMED.update({
    "C16": (
        "closed-form / must-check analysis of the driver on FoIR, who-may-call inventory of file APIs, cursor state-machine analysis of every hand-written loop, belief rules on guarded unfolding, abstract interpretation of parser productivity (ADV)",
        "Termination as a whole is NOT decided. Decided for all inputs and faults: I/O results are tested and failures reach a diagnostic; the single write receives the complete translation; one recover/exit site with non-zero status; "
        "each of the 38 hand-written loops exits at end of input and makes progress; unfolding of named/cyclic data is guarded (the two record arms this rule reported were repaired); "
        "the parser's recursion is productive — no cycle of the call/callback graph without consuming a token, every ParseList step and grammar callback consumes a token or panics — so parsing terminates on every finite token sequence.",
        "Assumes run-time panics inside the deferred region become diagnostics and that every non-EOF token has positive length. The resolver fixpoint, inference recursion other than the guarded unfoldings, stack depth and memory are not decided.",
        "DESIGN.md §3 C16",
    ),
})

CLAIMED.update({
    "C05": (
        "source inventory (who-may-call) + enumeration of map ranges + interprocedural bag/order taint analysis on FoIR with a commutative-action table + closed diagnostic sink (consumers of recover(), single file-write path)",
        "Source-to-sink argument for all programs and all map orders at once: no nondeterminism source (goroutines, time, randomness, environment, addresses, reflect map iteration) is referenced in fc or the pkg/* it imports; "
        "the only map ranges are dict.Keys/Values/KVs; their results (bags) reach only order-insensitive consumers (sort, size, effect-free predicates/maps, Iter with a commutative action whose closed form is pinned); "
        "a value that observes a bag's order may flow only into a diagnostic message, and the diagnostic sink is closed: the recovered panic value is only compared, formatted and printed, and files have one write path.",
        "Trusts the allow-listed Go standard library functions to be deterministic; wording of diagnostics is not fixed by the statement.",
        "DESIGN.md §3 C05",
    ),
})

CLAIMED.update({
    "C09": (
        "must-pass-through check on FoIR (construction of default-less matches dominated by the exhaustiveness check on the same arms/target), closed forms of the set computation and default detection, panic-default exhaustiveness (EXH) over all checked-in generated Go",
        "For every union, arm subset and order at once: a default-less union match can only be built after exaustiveCheck on the same arms and target (or as a pattern-preserving rebuild); the check rejects iff names(Cases) is not covered by the arms' case ids; "
        "default arms are detected as BAR UNDER_SCORE inside the offside line; the emitted never-reached panic is exhaustive in every checked-in generated file and is emitted only for default-less matches.",
        "Relies on dict/slice library specifications (C13/C14) and on inference giving the target its union type (C02). A rewritten exaustiveCheck with another closed form is undecided.",
        "DESIGN.md §3 C09",
    ),
})

CLAIMED.update({
    "C18": (
        "closed-form (TERM) comparison of the straight-line tool on FoIR with buffer identity kept, must-check rule for read results, closed forms of the library wrappers it uses",
        "The tool is loop-free Folang over library calls, so its closed form decides the statement for all list files and contents relative to the library specifications: pipeline Split/Filter/Map/Concat/AppendHead/WriteFile in list order, "
        "section template (title = text after the first space or the name, verbatim fenced content, gen_<base>.go link) written in order into one buffer, read failures reach a panic before any write, constant output name.",
        "Relies on slice.Map/Filter/Head/Last/Tail (C13) and on Go's strings/filepath/os. The dropped WriteFile result is outside the statement.",
        "DESIGN.md §3 C18",
    ),
})

CLAIMED.update({
    "C07": (
        "abstract interpretation of the ParseState stack discipline on FoIR (PAIR: relative summaries, plus a top-down pass for the absolute scope depth at binder-registration sites), closed forms of the reset/driver functions, who-may-write inventories for global and per-scope state, construction/registration pairing for type-instance keys",
        "Bounds, for every history of definitions and files at once, what can survive between definitions: root scope/offside/type-def mode are restored at every top-level statement (all ~130 state-threading functions, callbacks discharged at binding sites); "
        "each top-level let is parsed from a reset temp/inference context; one state is folded over the files; output naming closed form and single write path; written globals and per-scope tables have frozen writer sets (declaration registration only); "
        "type-instance keys are registered where they are built; pattern and parameter binders never land in the root scope (minimum scope depth >= 1 on every call path, callbacks bound); no parse state produced by a call is dropped; package-level variables holding shared mutable storage are the five inventoried ones and never escape into a value.",
        "Invariance of the emitted text itself is not decided (collisions in the info dictionaries, inference-state leakage through keyed entries). Rules (f), (g), (e2) and PAIR.depth were added after seeded variants showed state paths the first design did not cover.",
        "DESIGN.md §3 C07",
    ),
})

CLAIMED.update({
    "C03": (
        "closed-form (TERM) and emission-template (SHAPE) comparison of the naming/declaration/call emitters on FoIR; name-flow rule for package_info registration; order-preservation rule for every list rebuilt by an AST/type transformer; the C15 conditions imported; structural comparison of every shipped package_info signature with go/types (FOI)",
        "The documented Go representation is produced by ~30 straight-line emitter functions; their canonical closed forms / piece sequences (literals, dynamic pieces, joins, in buffer order) are compared with the documented shapes, so the contract holds for every declaration shape and application arity at once. "
        "All 103 shipped package_info declarations are parsed by the checker's own reading of the type grammar and agree with the Go signatures. External functions and types enter the enclosing scope only under their package-qualified names, so a user declaration is never replaced by an external one of the same short name. Fields, cases, parameters, arguments and statements keep their order through every pass (a rebuilt list is an element-wise image of the old one).",
        "Does not decide that emitted declarations compile with arbitrary client code. A rewritten emitter with another canonical form is undecided.",
        "DESIGN.md §3 C03",
    ),
    "C06": (
        "frozen who-may-reference tables on resolved symbols (confinement of SPACE tokens, offsets, columns), closed forms of the offside comparisons and the affine column tracker, PAIR for the offside stack, interprocedural no-line-end-at-offside-push analysis",
        "Byte equality across re-layouts is not decided. Decided for all programs and layouts: layout reaches parsing only through the token sequence, column comparisons and one adjacency test; the comparison table and column tracking have their documented closed forms; every offside push is popped; "
        "a block column is never taken from a line-end token (33 sites, interprocedurally through the block-parser callbacks); psNextNOL has a frozen set of users; a continuation token found after skipping line ends is accepted only inside the offside line (2 known findings: the dangling else/elif of multi-line ifs).",
        "Rules (g), (h), (i) were added after seeded variants. Tabs and multi-line comments before a token on the same line are not covered.",
        "DESIGN.md §3 C06",
    ),
    "C15": (
        "closed-form (TERM) comparison of the 4-level type parser and constructors, emission templates (SHAPE) of the type printer, base-type table composed from parser name tests and printer arms, who-calls for the five syntactic positions, name-flow rule for external type registration, lexer token inventory vs. type syntax, sibling agreement of base-type name tables",
        "The precedence of the type sub-language is entirely in which parser each level calls and how each level builds its node, so the closed forms decide the mapping for type expressions of any depth in every position: flat arrow lists, flat tuples of []-level terms, parentheses only group, "
        "base-type table, Name[T, U], frt.TupleN[...], func (A,B) C. External types are registered package-qualified only; no operator token fuses the '>' closing a type-argument list with what may follow it; every copy of the base-type name table knows all five base types.",
        "Per-expression enumeration is not performed; it follows from the grammar for a correct recursive-descent reading.",
        "DESIGN.md §3 C15",
    ),
})

CLAIMED.update({
    "C01": (
        "PAIR abstract interpretation (lexical scoping), panic-default exhaustiveness of every compiler pass, closed forms / emission templates (conditionals, operand order, match dispatch), who-may-call for reordering primitives, strictness scan of emitter templates, go/types check of all shipped generated files, the conditions of C08 (grouping), C10 (equality), C11 (literal emission), C15 (type mapping), C12/C13/C14 (library) and the declaration/typing/instantiation closed forms imported as necessary conditions of this umbrella property",
        "Behavioural equality over all programs is NOT decided. Decided, each for all programs at once, are structural necessary conditions whose violation changes behaviour for some program: scopes are pushed/popped exactly around binders; all 44 never-reached type switches are exhaustive; "
        "conditionals become frt.IfElse*/IfOnly over un-invoked function literals in order; operands are emitted once in source order and never reordered; case labels and constructors share one naming function; every shipped generated file type-checks (the four samples that did not were repaired); `=`/`<>`, string interpolation, operator grouping, type mapping and the standard library satisfy the conditions of their own properties; lists keep their order through every pass; no parse state is dropped. "
        "3 known findings (partial application re-evaluates supplied arguments; the dangling else/elif of multi-line ifs, whose repair breaks an existing test).",
        "Closures, inference interaction and evaluation results are not decided; Go's left-to-right evaluation order and the frt helpers (C14) are assumed.",
        "DESIGN.md §3 C01",
    ),
})

CLAIMED.update({
    "C04": (
        "artefact agreement: an independent Folang tokenizer/segmenter compares every checked-in (source, generated) pair — file sets, ordered declaration tables, per-definition literal sequences and construct counts — plus gofmt idempotence, README/pkg_all.foi recipe evaluation on the checked-in files",
        "The fixed point itself (build, run, compare bytes; generation 2) is an execution and is NOT decided. Decided is a necessary condition no test looks at: all 34 pairs agree in their ordered declarations (funcs with arity, structs with fields, union interface/methods/cases/constructors) and all 457 definitions agree in literal values and if/match/not/pipe/<>/&&/|| counts; "
        "README.md and pkg_all.foi are what their recipes produce from the checked-in files; the one declaration the compiler adds by itself (import of frt for unions with payload cases) is mirrored in the expected tables and its closed forms are pinned. Catches one-sided edits of constants, declarations, counted constructs, referenced functions and — through the ordered skeleton — operands, argument order, locals, fields and operators.",
        "Does not catch edits of grouping (parentheses) or type annotations on one side only, nor a compiler change whose regenerated output was only partly checked in (two seeded variants of that kind are documented as undetected).",
        "DESIGN.md §3 C04",
    ),
})

CLAIMED.update({
    "C13": (
        "loop summariser: each pkg/slice function's FoIR normal form is reduced by idiom rules (accumulate/guarded accumulate/spread/early-return scan/fold/iter/set-guarded accumulate/copy-then-sort/preconditions) to a closed list term compared with its specification term; slice.foi agreement (FOI)",
        "All 29 functions are short loops in eight idioms, so the summary is a closed form of the loop valid for all inputs in the domain (all lengths, duplicates, function arguments): order preservation, Take/Skip index ranges, positional Zip with equal lengths, first-match TryFind, left-to-right Forall/Forany, left Fold, first-occurrence Distinct, sort-a-copy.",
        "Trusts slices.SortFunc/cmp.Compare and Go's append/range semantics. A body outside the idioms is undecided (this also fires on result-preserving rewrites).",
        "DESIGN.md §3 C13",
    ),
})

CLAIMED.update({
    "C02": (
        "sibling-agreement rule over the four FType traversals (constructor coverage computed from the type declarations), traversal-completeness analysis (TRAV: every Expr-bearing payload component visited on every path, helpers inlined), closed forms of the numbering chain / anchor unifications / fresh instantiation, error-discipline rule for relation lists (no []UniRel result dropped), per-instance visited-set / memo discipline of the traversals, arm-by-arm component agreement of collector and substitution, generator-use rule, closed forms of the expression typing rules and of generic instantiation, the C15 conditions imported",
        "Principality and annotation-erasure invariance over all constraint graphs are NOT decided. Decided for all programs: every FType traversal handles every component-carrying constructor (the unifier's missing record/union arms were repaired); no relation list produced by a call is discarded (found and repaired one such site); each record/union instance is handled once per traversal and correctly — instance keys, a never-cleared visited set only where a repeated instance contributes nothing, memo tables with the placeholder discipline (found and repaired four defects, one of them introduced by my own first repair); the collector and the substitution visit the same components of every constructor (found and repaired one defect); a type-variable generator handed to a function is applied or passed on; "
        "constraint collection, type-variable collection and substitution visit every sub-expression on every path; leftover variables are numbered by first occurrence in the function type; declared/fresh result type is unified with the body and kept in the returned definition; every reference instantiates a generic function afresh.",
        "The unifier's case analysis itself is not decided. Rule (d)'s second clause and rules (e), (f), (a2), (c2) were added after seeded variants. Phantom type parameters still do not compile in Go (fc never emits explicit type arguments); no rule decides that.",
        "DESIGN.md §3 C02",
    ),
})

CLAIMED.update({
    "C17": (
        "sibling agreement between tinyfo and fc: constant evaluation of operator/keyword tables, closed forms of the precedence loop and driver, reviewed closed forms (cell identity kept) of tinyfo's 18 emitters for the shared constructs against fc's emission templates, canonical typed-syntax digests of all 256 tinyfo functions (the directory is kept as a record), two lowering facts on typed Go syntax",
        "Behavioural equivalence of the two transpilers is NOT decided. Decided: the two implementations of one language agree on operator ranks/Go operators/keywords, on the three precedence-climbing facts, on output naming, and on the emission shape of every shared construct "
        "(fields, arguments, elements, statements, arms in source order; partial-application closure; conditionals over lazy blocks); `=`/`<>` always become the table's function applied to (lhs, rhs); destructuring binds the k-th name to the k-th component type. tinyfo is kept for record keeping (README): every function still has the canonical digest whose agreement with fc was reviewed; any other edit is reported as undecided.",
        "tinyfo's parser, its per-call type-parameter resolution and the behaviour of emitted programs are not decided (beyond change detection against the reviewed baseline, which also fires on behaviour-preserving rewrites); fc's own templates (C01/C03/C08) are the reference.",
        "DESIGN.md §3 C17",
    ),
})

# sentences appended to the level note (rules added late; kept apart from the long texts above)
Z = ("Rule %s.z is change detection, not a semantic rule: the %s have the reviewed normal forms (digest table); a changed digest is reported as undecided "
     "('changed, no rule says whether the property survives'), which also fires on a behaviour-preserving restructuring of such a function (not on renaming, rewording, helper extraction or reordering).")
EXTRA_NOTE = {
    "C02": "Rule (k) imports C15.j (every recursive traversal of the type structure has an arm for each composite constructor); rule (c) also pins transStmt/transBlock (a substitution reaches the variables a statement binds). Rule (j) imports the C08 conditions (grouping decides which operands an operator relates). Rule (i) imports the scope discipline (PAIR incl. PAIR.own/PAIR.tparam) as a necessary condition: a leaked binder unifies the types of two variables. " + Z % ("C02", "68 compiler functions that build or unify types"),
    "C03": "Rule (ab) also covers the root-statement dispatchers (package_info emits nothing) and the written-text obligation (no pass of the driver rewrites declarations or imports after the emitters). Rule (g) imports C01.m (a declaration is emitted under the name written in the source). Rule (f): the Tparams list of every declaration value is the declared list (explicit type arguments bind by position). " + Z % ("C03", "29 compiler functions that write emitted text"),
    "C06": "Rule (l): no function that finds a state's current token to be EOL steps (psNext) or peeks (psNextTT/psNextIs) a fixed number of tokens past it; only psSkipEOL looks beyond line ends. Rule (k): closed forms of the hand-written space scanner (a block comment runs to the first */). Rule (j): the state produced by consuming `=`, `with` or an expression-level `->` goes straight to psSkipEOL (14 sites, one frozen exception). " + Z % ("C06", "41 compiler functions that read a column, move the offside stack or skip line ends"),
    "C07": "Rule (k): an unnamed record literal is matched against a record type by its field names compared element by element (closed forms of recFacMatch, scLookupRecFacCur). Rule (j): the collector and the substitution that drive the forward-declaration loop have their reviewed closed forms (no placeholder survives its type group in the global info table). Rule (h): the scope tables are read only where a name is referenced (frozen who-may-read table). Rule (i): hoisted type parameters are named by position among the definition's own variables. PAIR.own (binders of an expression sit at depth >= 1 relative to the nearest enclosing entry of the expression parser) and PAIR.tparam (type-parameter names never land in the root scope) were added after seeded variants; the pin of transpileOne masks the written content (decided by C16.b/C05.f). " + Z % ("C07", "49 compiler functions that read or write a scope, the type-definition context or a global dictionary"),
    "C09": "Rule (j): the key of the global union/record info table is Name, a separator, the printed type arguments joined by it — also without arguments (closed forms of encodedKey/uniToKey/rtToKey): the case table exaustiveCheck reads is the entry of this union. Rule (i) imports the scope discipline (PAIR): the target of a match is the variable lexical scoping gives it. Rule (h): every pass that rebuilds a union's case list hands on an element-wise image of it. " + Z % ("C09", "13 compiler functions between a match expression and the exhaustiveness diagnostic"),
    "C15": "Rule (j): every recursive traversal of the type structure (match on FType with a default arm, descending into composite constructors) has an arm for each of FFunc, FParamd, FRecord, FSlice, FTuple, FUnion. Rule (i): generic instantiation closed forms (GenType/GenRecordType/GenUnionType/tpreplace). " + Z % ("C15", "33 compiler functions that construct or print a type expression"),
    "C04": "Rule (i): every unqualified record literal has the field names of exactly one record type of its program; no composite literal of a generated file has an elided type; no generated file has a comment (while the compiler holds no comment text). Rule (z) is change detection on the emitter modules: rules (b)-(h) model the output of the reviewed emitters, so after an emitter change whether everything was regenerated is undecided. Rule (h): the _vN switch temporaries of every generated file are numbered in file order (what the emission counter yields). Rule (lex) is change detection on fc's hand-written lexer, against which the checker's own tokenizer was written. Rule (c3): the ordered skeleton of every definition (identifiers outside type positions, operators, literals, if/match/not/pipe) agrees between source and generated Go, the compiler's own additions set aside; it sees operands, argument order, locals, fields and operators edited on one side only (grouping and type annotations are still not compared). Rule (g) — every file fc reads is a sequence of well-formed top-level items on the checker's own token stream (block comments end at the first */ as in fc's lexer; no stray text in column 0, no stray */, package_info bodies are declaration lines) — and rule (c2) — referenced functions and union cases per definition agree — were added after seeded variants.",
    "C05": "Rule (g), added after a seeded variant: the console wrappers fc uses for progress lines forward to fmt and ignore its result (stdout cannot decide the run). Rule (f), added after a seeded variant: the content handed to sys.WriteFile mentions a path parameter only inside sys.ReadFile(.) or filepath.Base(.), so the same files under another path spelling or working directory give the same bytes.",
    "C16": "Rule (b) also holds the closed form of transpileOne with the content masked: every .fo argument is written. Rule (r): the 42 functions of fc that can reach themselves are a reviewed inventory with a termination argument each; a newly recursive function is undecided. Rule (b) accepts the complete translation or an extension of it (AppendHead/AppendTail/+). Rule (h), added after a seeded variant: a String/Error/GoString/Format method never hands its own receiver to a formatter (unbounded recursion ends in a stack overflow, not a diagnostic).",
    "C11": "After a seeded variant: the text the emitters produce is the text written (RootStmtsToGo pinned; the content handed to sys.WriteFile is its result, possibly extended). Rule (n) imports C01.m (binders keep their source spelling: a hole {x} is pasted as the identifier x); a who-may-write rule for Token.stringVal (only constructors and scanners) was added after a seeded variant.",
    "C10": "Rule (f), added after a seeded variant: an application of frt.OpEqual / frt.OpNotEqual is emitted as that call (templates of the application emitters; no fast path that prints Go's ==).",
    "C08": "Rule (d): after a name an adjacent `<` is handed to the tolerant type-list parser (a list only at a real LT token), so `<=` / `<>` written directly after a name stay operators (shared with C15.e). The closed form of nextToken (an operator spelling is the same token in every context) was added to rule (b) after a seeded variant. " + Z % ("C08", "10 compiler functions that touch the operator table or build a binary-operator node"),
    "C13": "Correct bodies outside the idioms that a seed or benign variant showed (explicit range guards, slices.IndexFunc/ContainsFunc scans) are listed as accepted alternatives per function.",
    "C14": "Rule (e): no library type declares String/Error/Format/GoString, so %v of a library value is the default rendering the specification terms assume.",
}
for k, extra in EXTRA_NOTE.items():
    t = CLAIMED[k]
    CLAIMED[k] = (t[0], t[1], t[2] + " " + extra, t[3])

NOT_APPLICABLE = {
}

PENDING = "check not built yet (framework under construction; see DESIGN.md for the planned static rule)"

checks = []
for pid, (tech, text, note, ref) in sorted(CLAIMED.items()):
    checks.append({
        "property_id": pid,
        "quick_cmd": "./check.sh %s quick" % pid,
        "thorough_cmd": "./check.sh %s thorough" % pid,
        "evidence_file": "/verif/evidence/%s.json" % pid,
        "replay_cmd_template": "cat {path}; ./check.sh %s quick" % pid,
        "engine": "fvcheck",
        "level_claimed": {"category": "other", "text": text, "design_ref": ref},
        "level_note": note,
        "technique": "static analysis: " + tech,
    })

na = []
for p in props:
    if p["id"] in CLAIMED:
        continue
    na.append({"property_id": p["id"], "reason": NOT_APPLICABLE.get(p["id"], PENDING)})

manifest = {
    "version": 1,
    "setup_cmd": "cd /verif/tools && GOFLAGS=-mod=mod GOPROXY=off GOSUMDB=off GOTOOLCHAIN=local GOWORK=off go build -o /verif/bin/fvcheck ./cmd/fvcheck",
    "hooks": {
        "guard": "verif",
        "enable": "none: static analysis reads the source; no instrumentation and no hook commits exist",
        "baseline_off_cmd": "/verif/scripts/baseline.sh /repo",
        "source_commits": [],
        "add_only": True,
    },
    "engines": [
        {"name": "fvcheck", "path": "/verif/tools", "serves_properties": sorted(CLAIMED),
         "kind_free_text": "repository-specific static analyser (go/packages + go/types + go/ssa + go/cfg, x/tools v0.29.0): lib engine for hand-written Go, FoIR lowering for fc-generated Go, artefact agreement for .fo/.foi/README"},
    ],
    "checks": checks,
    "not_applicable": na,
    "notes": "All checks are static: they load /repo's working tree with go/packages (type-checked from source) and never build or run fc, the libraries or the tests. "
             "fix: commits in /repo are listed in known_findings.txt (fixed: lines); recorded defects are known: lines.",
}
json.dump(manifest, open(os.path.join(HERE, "MANIFEST.json"), "w"), indent=1)
print("claimed:", sorted(CLAIMED), "not_applicable:", [x["property_id"] for x in na])
