#!/bin/sh
# Confirms a seeded change in a scratch copy and stores it under /verif/seeded/<name>/.
# Usage: confirm_seed.sh <name> <property> <patch.diff> <demo-dir> <notes.md>
# Confirms: existing tests pass with the change; demo passes without and fails with it. Then runs the property's check on it.
NAME=$1; PROP=$2; PATCH=$(readlink -f $3); DEMO=$(readlink -f $4); NOTES=$(readlink -f $5)
case "$DEMO" in /verif/seeded/*) T=/var/tmp/seedin.$$; rm -rf $T; mkdir -p $T; cp -r "$DEMO" $T/demo; cp "$NOTES" $T/notes.md; cp "$PATCH" $T/patch.diff; cp /verif/seeded/$NAME/meta.json $T/oldmeta.json 2>/dev/null; cp /verif/seeded/$NAME/patch.orig.diff $T/ 2>/dev/null; DEMO=$T/demo; NOTES=$T/notes.md; PATCH=$T/patch.diff;; esac
/verif/check.sh C10 quick >/dev/null 2>&1 # rebuilds bin/fvcheck when a source is newer
S=/var/tmp/seed.$$; rm -rf $S; mkdir -p $S/verif
export GOFLAGS=-mod=mod GOPROXY=off GOSUMDB=off GOTOOLCHAIN=local; unset GOWORK
rsync -a --exclude .git --exclude fc/fc /repo/ $S/repo/
cp /verif/known_findings.txt $S/verif/
echo "== demo on unmodified copy"
(cd $DEMO && bash ./run.sh $S/repo) > $S/demo_clean.log 2>&1; RC_CLEAN=$?
(cd $S/repo && git init -q 2>/dev/null; patch -p1 -s < $PATCH) || { echo "PATCH DOES NOT APPLY"; rm -rf $S; exit 2; }
echo "== baseline tests with the change"
/verif/scripts/baseline.sh $S/repo > $S/base.log 2>&1; RC_BASE=$?
echo "== demo with the change"
(cd $DEMO && bash ./run.sh $S/repo) > $S/demo_mut.log 2>&1; RC_MUT=$?
echo "== check"
/verif/bin/fvcheck -p $PROP -repo $S/repo -verif $S/verif > $S/check.log 2>&1; RC_CHECK=$?
grep -E "^(FAIL|VIOLATION|OK)" $S/check.log | sed "s#$S/##g" | cut -c1-300
echo "demo_clean_rc=$RC_CLEAN baseline_rc=$RC_BASE demo_mutated_rc=$RC_MUT check_rc=$RC_CHECK"
if [ $RC_CLEAN = 0 ] && [ $RC_BASE = 0 ] && [ $RC_MUT != 0 ]; then
  D=/verif/seeded/$NAME; rm -rf $D; mkdir -p $D
  cp $PATCH $D/patch.diff; cp -r $DEMO $D/demo; cp $NOTES $D/notes.md
  tail -5 $S/demo_mut.log > $D/demo_with_change.tail.txt
  DET=false; [ $RC_CHECK = 1 ] && DET=true
  FAILS=$(grep -E "^FAIL" $S/check.log | sed "s#$S/##g" | cut -c1-400 | python3 -c 'import sys,json; print(json.dumps([l.rstrip("\n") for l in sys.stdin]))')
  cat > $D/meta.json <<META
{
 "name": "$NAME",
 "property": "$PROP",
 "origin": "independent sub-agent given only the property text and a scratch worktree",
 "confirmed": {"baseline_tests_pass_with_change": true, "demo_passes_without_change": true, "demo_fails_with_change": true,
   "how": "scripts/confirm_seed.sh: scratch copy of /repo under /var/tmp, demo/run.sh on the clean copy (rc=$RC_CLEAN), patch applied, scripts/baseline.sh (rc=$RC_BASE), demo/run.sh again (rc=$RC_MUT)"},
 "needs_to_manifest": "see notes.md",
 "detected_by_check": $DET,
 "check_output": $FAILS
}
META
  if [ -f /var/tmp/seedin.$$/oldmeta.json ]; then
    python3 - $D/meta.json /var/tmp/seedin.$$/oldmeta.json <<'PY'
import json,sys
n=json.load(open(sys.argv[1])); o=json.load(open(sys.argv[2]))
for k in ('history','origin'):
    if k in o: n[k]=o[k]
json.dump(n,open(sys.argv[1],'w'),indent=1)
PY
    [ -f /var/tmp/seedin.$$/patch.orig.diff ] && cp /var/tmp/seedin.$$/patch.orig.diff $D/
  fi
  echo "STORED $D (detected=$DET)"
else
  echo "NOT CONFIRMED — not stored"; tail -5 $S/demo_clean.log; tail -5 $S/base.log; tail -5 $S/demo_mut.log
fi
rm -rf $S
rm -rf /var/tmp/seedin.$$
