#!/bin/sh
# Re-confirms every stored seed against the CURRENT /repo (after fix commits): demo passes on the clean tree,
# 51 tests pass with the patch, demo fails with the patch; rewrites meta.json (history kept).  6 at a time.
# Usage: reconfirm_all.sh [glob]   — results in /var/tmp/reconfirm/<name>.log, summary on stdout
cd /verif
mkdir -p /var/tmp/reconfirm
ls -d seeded/${1:-*}/ | sed 's#seeded/##; s#/##' | xargs -P 6 -I{} sh -c 'n={}; p=$(python3 -c "import json;print(json.load(open(\"seeded/$n/meta.json\"))[\"property\"])"); scripts/confirm_seed.sh $n $p seeded/$n/patch.diff seeded/$n/demo seeded/$n/notes.md > /var/tmp/reconfirm/$n.log 2>&1'
for f in /var/tmp/reconfirm/*.log; do n=$(basename $f .log); echo "$n: $(grep -E "^(STORED|NOT CONFIRMED|PATCH DOES NOT APPLY)" $f | head -1) $(grep -E "^demo_clean_rc" $f)"; done
