#!/bin/sh
# later-round seeding agent: prep_agent2.sh <id> [suffix=r2]   (worktree /tmp/wt_<id><suffix>, out /tmp/seed/<id><suffix>)
ID=$1; SUF=${2:-r2}
mkdir -p /tmp/seed
cd /repo && git worktree add -q --detach /tmp/wt_$ID$SUF HEAD && mkdir -p /tmp/seed/$ID$SUF
python3 - $ID "$SUF" <<'PY'
import json,sys,os,glob
id=sys.argv[1]; suf=sys.argv[2]
avoid=[]
for d in sorted(glob.glob('/verif/seeded/%s-*'%id)):
    n=os.path.join(d,'notes.md')
    first=''
    if os.path.exists(n):
        for l in open(n):
            l=l.strip()
            if l and not l.startswith('#'):
                first=l[:300]; break
    avoid.append("- %s: %s"%(os.path.basename(d)[len(id)+1:].replace('-',' '), first))
for l in open('/verif/properties.jsonl'):
    p=json.loads(l)
    if p['id']==id:
        prop="Property %s: %s\n\nStatement: %s\n\nQuantified over: %s\n\nWhy the existing tests cannot settle it: %s\n"%(p['id'],p['title'],p['statement'],p['quantifier']['text'],p['why_tests_cant'])
        t=open('/verif/scripts/seed_prompt_template.txt').read()
        t=t.replace('__WT__','/tmp/wt_'+id+suf).replace('__OUT__','/tmp/seed/'+id+suf).replace('__PROPERTY__',prop)
        t+="\n\nIMPORTANT — earlier contributors already produced the following changes for this property; do NOT repeat them or close variations of them (choose a different mechanism AND a different site in the code, and try to break a different clause of the property's statement):\n"+"\n".join(avoid)+"\n"
        open('/tmp/seed/%s%s/prompt.txt'%(id,suf),'w').write(t)
PY
echo /tmp/seed/$ID$SUF/prompt.txt
