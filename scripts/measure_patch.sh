#!/bin/sh
# measure_patch.sh <patch> <out>: applies a patch to /repo, runs all 18 quick checks with evidence redirected,
# writes every FAIL line to <out>, and restores /repo.  Used to measure benign patches (false-alarm rate).
set -u
export GOFLAGS=-mod=mod GOPROXY=off GOSUMDB=off GOTOOLCHAIN=local; unset GOWORK
P=$1; OUT=$2
git -C /repo apply "$P" || { echo "patch does not apply"; exit 2; }
: > "$OUT"
EV=$(mktemp -d /var/tmp/ev.XXXXXX); cp /verif/known_findings.txt "$EV"/; mkdir -p "$EV/evidence" "$EV/replay"
for p in C01 C02 C03 C04 C05 C06 C07 C08 C09 C10 C11 C12 C13 C14 C15 C16 C17 C18; do
  /verif/bin/fvcheck -p $p -tier quick -repo /repo -verif "$EV" 2>&1 | grep -E "^FAIL|^panic:|^goroutine |checker error" | sed "s/^/$p: /" >> "$OUT"
done
rm -rf "$EV"
git -C /repo apply -R "$P" || git -C /repo checkout -- .
n=$(grep -c . "$OUT"); s=$(grep -v "C0[0-9]\.z\|C1[0-9]\.z\|C01\.n\|C04\.lex\|C17\.e\|C01\.hw" "$OUT" | grep -c .)
echo "fails=$n semantic=$s props=$(cut -d: -f1 "$OUT" | sort -u | tr '\n' ' ')"
