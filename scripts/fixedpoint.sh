#!/bin/sh
# Developer aid (NOT a check; it runs fc): regenerate every checked-in generated file with a
# compiler built from the tree and compare, for generations 1 and 2.  Usage: fixedpoint.sh [repo-root]
R=${1:-/repo}
S=/var/tmp/fp.$$
export GOFLAGS=-mod=mod GOPROXY=off GOSUMDB=off GOTOOLCHAIN=local
unset GOWORK
rm -rf $S; mkdir -p $S
rsync -a --exclude .git "$R"/ $S/repo/
FO="ftype.fo ast.fo expr_to_type.fo expr_to_go.fo stmt_to_go.fo tokenizer.fo ast_util.fo ir_factory.fo parse_state.fo infer.fo parser.fo main.fo"
rc=0
for gen in 1 2; do
  (cd $S/repo/fc && go build -o fc . ) || { echo "gen$gen: build failed"; rc=1; break; }
  (cd $S/repo/fc && ./fc ../pkg/pkg_all.foi $FO >/dev/null && gofmt -w gen_*.go) || { echo "gen$gen: fc run failed"; rc=1; break; }
  for f in $S/repo/fc/gen_*.go; do cmp -s $f "$R/fc/$(basename $f)" || { echo "gen$gen: DIFF fc/$(basename $f)"; rc=1; }; done
  (cd $S/repo/samples && for x in $(sed 's/ .*$//' filelist.txt); do ../fc/fc ../pkg/pkg_all.foi $x >/dev/null || echo "gen$gen: sample $x failed"; done; gofmt -w gen_*.go 2>/dev/null)
  for f in $S/repo/samples/gen_*.go; do cmp -s $f "$R/samples/$(basename $f)" || { echo "gen$gen: DIFF samples/$(basename $f)"; rc=1; }; done
  (cd $S/repo/cmd/build_sample_md && ../../fc/fc ../../pkg/pkg_all.foi build_sample_md.fo >/dev/null && gofmt -w gen_*.go && go build -o bsm . && cd ../../samples && ../cmd/build_sample_md/bsm filelist.txt)
  cmp -s $S/repo/cmd/build_sample_md/gen_build_sample_md.go "$R/cmd/build_sample_md/gen_build_sample_md.go" || { echo "gen$gen: DIFF build_sample_md"; rc=1; }
  cmp -s $S/repo/samples/README.md "$R/samples/README.md" || { echo "gen$gen: DIFF samples/README.md"; rc=1; }
  echo "generation $gen compared"
done
rm -rf $S
[ $rc = 0 ] && echo "FIXED POINT OK"
exit $rc
