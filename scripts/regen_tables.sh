#!/bin/sh
# regen_tables.sh: rebuilds fvcheck and regenerates the reviewed normal-form table from /repo (run only on the reviewed tree,
# after a normaliser change or a reviewed /repo fix).
export GOFLAGS=-mod=mod GOPROXY=off GOSUMDB=off GOTOOLCHAIN=local; unset GOWORK
cd /verif/tools && go build -o ../bin/fvcheck ./cmd/fvcheck || exit 2
cd /verif && bin/fvcheck -dump fc -fn NFDIGESTS 2>/dev/null | gofmt > /var/tmp/nfd.go || exit 2
[ -s /var/tmp/nfd.go ] || exit 2
diff -q /var/tmp/nfd.go tools/internal/rules/c01_reviewed_table.go >/dev/null || { diff /var/tmp/nfd.go tools/internal/rules/c01_reviewed_table.go | grep -c '^<' ; cp /var/tmp/nfd.go tools/internal/rules/c01_reviewed_table.go; cd tools && go build -o ../bin/fvcheck ./cmd/fvcheck; }
rm -f /var/tmp/nfd.go
