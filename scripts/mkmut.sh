#!/bin/sh
# Developer aid: create a seeded selftest variant as a diff.
# Usage: mkmut.sh <prop> <name> <file-relative-to-repo> <python-expr old=>new as two args>
# e.g.:  mkmut.sh C08 plus-rank-2 fc/wrapper.go 'New_TokenType_PLUS:    {4' 'New_TokenType_PLUS:    {2'
PROP=$1; NAME=$2; FILE=$3; OLD=$4; NEW=$5
S=/var/tmp/mk.$$; rm -rf $S; mkdir -p $S/a/$(dirname $FILE) $S/b/$(dirname $FILE)
cp /repo/$FILE $S/a/$FILE
OLD="$OLD" NEW="$NEW" python3 - "$S/a/$FILE" "$S/b/$FILE" <<'PY'
import sys,os
s=open(sys.argv[1]).read()
old=os.environ['OLD']; new=os.environ['NEW']
n=s.count(old)
if n!=1:
    print("pattern occurs %d times"%n); sys.exit(1)
open(sys.argv[2],'w').write(s.replace(old,new))
PY
[ $? = 0 ] || { rm -rf $S; exit 1; }
mkdir -p /verif/selftest/$PROP
(cd $S && diff -u a/$FILE b/$FILE > /verif/selftest/$PROP/$NAME.diff)
rm -rf $S
echo "/verif/selftest/$PROP/$NAME.diff"
