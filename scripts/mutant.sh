#!/bin/sh
# Developer aid: run checks against a scratch copy of /repo with one patch applied.
# Usage: mutant.sh <patch-file|-R:commit> <prop> [<prop>...]   (prints the check output; scratch removed afterwards)
P=$1; shift
/verif/check.sh C10 quick >/dev/null 2>&1 # rebuilds bin/fvcheck when a source is newer
S=/var/tmp/mut.$$
rm -rf $S; mkdir -p $S/verif
rsync -a --exclude .git --exclude 'fc/fc' /repo/ $S/repo/
cp /verif/known_findings.txt $S/verif/ 2>/dev/null
case "$P" in
  -R:*) (cd /repo && git show "${P#-R:}") | (cd $S/repo && patch -R -p1 -s) || { echo "revert failed"; rm -rf $S; exit 2; } ;;
  *) P=$(readlink -f "$P"); (cd $S/repo && patch -p1 -s < "$P") || { echo "patch failed"; rm -rf $S; exit 2; } ;;
esac
rc=0
for p in "$@"; do
  /verif/bin/fvcheck -p $p -repo $S/repo -verif $S/verif | sed "s#$S/##g" | grep -E "^(FAIL|VIOLATION|OK|KNOWN)" || true
done
rm -rf $S
