#!/bin/sh
# Runs the repository's pinned test suite (51 tests) offline. Usage: baseline.sh [repo-root]
R=${1:-/repo}
export GOFLAGS=-mod=mod GOPROXY=off GOSUMDB=off GOTOOLCHAIN=local
unset GOWORK
rc=0
for m in cmd/build_sample_md fc pkg/buf pkg/dict pkg/frt pkg/slice pkg/strings pkg/sys tinyfo; do
  (cd "$R/$m" && go test -vet=off -count=1 ./... 2>&1) || rc=1
done
exit $rc
