// fvcheck decides the properties of /verif/properties.jsonl for karino2/folang by
// static analysis of the repository's current working tree.
package main

import (
	"flag"
	"fmt"
	"os"
	"runtime/debug"
	"strings"

	"verif/tools/internal/core"
	"verif/tools/internal/rules"
)

func main() {
	prop := flag.String("p", "", "property id (C01..C18)")
	tier := flag.String("tier", "", "quick|thorough (default: $VERIF_TIER or quick)")
	repo := flag.String("repo", "/repo", "repository root to analyse")
	verif := flag.String("verif", "/verif", "verification directory (evidence/, replay/, known_findings.txt)")
	dump := flag.String("dump", "", "developer aid: print the FoIR normal forms of the functions of a module directory (e.g. fc)")
	dumpFn := flag.String("fn", "", "with -dump: only this function")
	flag.Parse()
	if *dump != "" && *dumpFn == "HWDIGESTS" {
		rules.DumpHandWrittenDigests(core.NewRepo(*repo))
		return
	}
	if *dump != "" && *dumpFn == "RECURSION" {
		rules.DumpRecursion(&rules.Ctx{Repo: core.NewRepo(*repo), R: core.NewReport("dump", "quick", "/tmp")})
		return
	}
	if *dump != "" && *dumpFn == "NFDIGESTS" {
		rules.DumpNFDigests(core.NewRepo(*repo))
		return
	}
	if *dump != "" && *dumpFn == "FUNCS" {
		rules.DumpFuncNames(core.NewRepo(*repo), []string{"fc", "tinyfo", "cmd/build_sample_md"})
		return
	}
	if *dump != "" && *dumpFn == "DIGESTS" {
		rules.DumpDigests(core.NewRepo(*repo), *dump)
		return
	}
	if *dump != "" && *dumpFn == "TEMPLATES" {
		rules.DumpTemplates(core.NewRepo(*repo), *dump)
		return
	}
	if *dump != "" {
		rules.Dump(core.NewRepo(*repo), *dump, *dumpFn)
		return
	}
	if *tier == "" {
		*tier = os.Getenv("VERIF_TIER")
	}
	if *tier != "thorough" {
		*tier = "quick"
	}
	chk, ok := rules.Registry[*prop]
	if !ok {
		fmt.Printf("unknown property %q; have %v\n", *prop, rules.IDs())
		os.Exit(2)
	}
	rep := core.NewReport(*prop, *tier, *verif)
	ctx := &rules.Ctx{Repo: core.NewRepo(*repo), R: rep, Tier: *tier}
	func() {
		defer func() {
			if r := recover(); r != nil {
				// an analyser panic is "undecided", which fails the check
				rep.Rule("analyser", "the analyser completes without internal error", 0)
				rep.Undecided("analyser", "-", "panic", "-", fmt.Sprintf("%v\n%s", r, debug.Stack()))
			}
		}()
		chk(ctx)
	}()
	if *tier == "thorough" {
		vs := core.RunSelftests(*prop, *repo, *verif)
		run, det, brun, bquiet := 0, 0, 0, 0
		frun, fquiet, fcd := 0, 0, 0
		var misses, falseAlarms, checkerErrors []string
		for _, v := range vs {
			status := "DETECTED"
			switch {
			case !v.Applied:
				status = "SKIPPED (" + v.Note + ")"
			case strings.HasPrefix(v.Note, "checker exit status"):
				// neither 0 nor 1: the checker itself failed on this variant (a panic, a load error) — a checker bug, shown as such
				status = "CHECKER ERROR (" + v.Note + ")"
				checkerErrors = append(checkerErrors, v.Name)
				if v.Kind == "benign" {
					brun++
				} else if v.Kind == "feature" {
					frun++
				} else {
					run++
				}
			case v.Kind == "feature":
				frun++
				switch {
				case !v.Detected:
					status = "SILENT"
					fquiet++
				case v.Semantic == 0:
					status = "CHANGE DETECTION ONLY (edited functions reported as undecided; no semantic rule fires)"
					fcd++
				default:
					status = "FALSE ALARM"
					falseAlarms = append(falseAlarms, v.Name)
				}
			case v.Kind == "benign":
				brun++
				if v.Detected {
					status = "FALSE ALARM"
					falseAlarms = append(falseAlarms, v.Name)
				} else {
					status = "SILENT (as it must be)"
					bquiet++
				}
			default:
				run++
				if v.Detected {
					det++
				} else {
					status = "MISSED"
					misses = append(misses, v.Name)
				}
			}
			first := ""
			if len(v.Reports) > 0 {
				first = " — " + v.Reports[0]
			}
			fmt.Printf("selftest %-12s %s: %s%s\n", v.Kind, v.Name, status, first)
		}
		rep.Selftest = map[string]any{
			"what":     "the checker run on seeded variants of the repository (scratch copies under /var/tmp, removed afterwards): hand-made single-instance variants, variants written by independent sub-agents given only the property text, and reversals of the fix: commits; every variant compiles and passes the 51 existing tests",
			"variants": vs, "variants_run": run, "variants_detected": det, "missed": misses,
			"benign_variants_run": brun, "benign_variants_silent": bquiet, "false_alarms": falseAlarms, "checker_errors": checkerErrors,
			"feature_variants_run": frun, "feature_variants_silent": fquiet, "feature_variants_change_detection_only": fcd,
		}
		if len(checkerErrors) > 0 {
			rep.Note("selftest: the checker itself failed (exit status other than 0/1) on %d variant(s): %v", len(checkerErrors), checkerErrors)
		}
		rep.Unit("benign_variants_run", brun)
		rep.Unit("benign_variants_silent", bquiet)
		if len(falseAlarms) > 0 {
			rep.Note("selftest: the check raised an alarm on %d behaviour-preserving variant(s): %v", len(falseAlarms), falseAlarms)
		}
		rep.Unit("selftest_variants_run", run)
		rep.Unit("selftest_variants_detected", det)
		if len(misses) > 0 {
			rep.Note("selftest: %d of %d variants are NOT detected (a weakness of the checker, documented in DESIGN.md; not a violation of the property): %v", len(misses), run, misses)
		}
	}
	os.Exit(rep.Finish())
}
