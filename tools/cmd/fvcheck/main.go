// fvcheck decides the properties of /verif/properties.jsonl for karino2/folang by
// static analysis of the repository's current working tree.
package main

import (
	"flag"
	"fmt"
	"os"
	"runtime/debug"

	"verif/tools/internal/core"
	"verif/tools/internal/rules"
)

func main() {
	prop := flag.String("p", "", "property id (C01..C18)")
	tier := flag.String("tier", "", "quick|thorough (default: $VERIF_TIER or quick)")
	repo := flag.String("repo", "/repo", "repository root to analyse")
	verif := flag.String("verif", "/verif", "verification directory (evidence/, replay/, known_findings.txt)")
	dump := flag.String("dump", "", "developer aid: print the FoIR normal forms of the functions of a module directory (e.g. fc)")
	dumpFn := flag.String("fn", "", "with -dump: only this function")
	flag.Parse()
	if *dump != "" && *dumpFn == "TEMPLATES" {
		rules.DumpTemplates(core.NewRepo(*repo), *dump)
		return
	}
	if *dump != "" {
		rules.Dump(core.NewRepo(*repo), *dump, *dumpFn)
		return
	}
	if *tier == "" {
		*tier = os.Getenv("VERIF_TIER")
	}
	if *tier != "thorough" {
		*tier = "quick"
	}
	chk, ok := rules.Registry[*prop]
	if !ok {
		fmt.Printf("unknown property %q; have %v\n", *prop, rules.IDs())
		os.Exit(2)
	}
	rep := core.NewReport(*prop, *tier, *verif)
	ctx := &rules.Ctx{Repo: core.NewRepo(*repo), R: rep, Tier: *tier}
	func() {
		defer func() {
			if r := recover(); r != nil {
				// an analyser panic is "undecided", which fails the check
				rep.Rule("analyser", "the analyser completes without internal error", 0)
				rep.Undecided("analyser", "-", "panic", "-", fmt.Sprintf("%v\n%s", r, debug.Stack()))
			}
		}()
		chk(ctx)
	}()
	os.Exit(rep.Finish())
}
