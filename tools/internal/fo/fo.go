// Package fo is a small Folang tokenizer and top-level segmenter written for
// the checker (it shares no code with the repository's tokenizer).  It is used
// only for artefact agreement (.fo ↔ generated Go, .foi ↔ Go signatures):
// files are tokenised and segmented, never parsed in full.
package fo

import (
	"fmt"
	"strings"
)

type Kind int

const (
	EOF Kind = iota
	EOL
	IDENT
	INT
	STRING  // "..." — Val is the value after Go escape processing
	RAWSTR  // `...` — Val is the text between the backticks
	SINTERP // $"..." or $`...` — Val as above, Raw tells which
	PUNCT
)

type Tok struct {
	Kind Kind
	Text string // source text (identifier, operator, digits)
	Val  string // string value
	Raw  bool
	Line int // 1-based
	Col  int // 0-based column of the first character
	Off  int
}

func (t Tok) String() string { return fmt.Sprintf("%d:%d %q", t.Line, t.Col, t.Text) }

func isAlpha(b byte) bool { return 'a' <= b && b <= 'z' || 'A' <= b && b <= 'Z' || b == '_' }
func isDigit(b byte) bool { return '0' <= b && b <= '9' }
func isAlnum(b byte) bool { return isAlpha(b) || isDigit(b) }

var twoChar = []string{"|>", "||", "&&", "<>", "<=", ">=", "->"}

// unescape interprets the Go escapes of a "..." literal body.
func unescape(s string) string {
	var b strings.Builder
	for i := 0; i < len(s); i++ {
		c := s[i]
		if c != '\\' || i+1 >= len(s) {
			b.WriteByte(c)
			continue
		}
		i++
		switch s[i] {
		case 'n':
			b.WriteByte('\n')
		case 't':
			b.WriteByte('\t')
		case 'r':
			b.WriteByte('\r')
		case '\\':
			b.WriteByte('\\')
		case '"':
			b.WriteByte('"')
		case '\'':
			b.WriteByte('\'')
		case '0':
			b.WriteByte(0)
		default:
			b.WriteByte('\\')
			b.WriteByte(s[i])
		}
	}
	return b.String()
}

// Tokenize splits Folang source into tokens; comments and blanks are dropped, line ends kept.
func Tokenize(src string) ([]Tok, error) {
	var toks []Tok
	line, lineStart := 1, 0
	i := 0
	emit := func(k Kind, start int, text, val string, raw bool, l, ls int) {
		toks = append(toks, Tok{Kind: k, Text: text, Val: val, Raw: raw, Line: l, Col: start - ls, Off: start})
	}
	for i < len(src) {
		c := src[i]
		switch {
		case c == '\n':
			emit(EOL, i, "\n", "", false, line, lineStart)
			i++
			line++
			lineStart = i
		case c == ' ' || c == '\t' || c == '\r':
			i++
		case c == '/' && i+1 < len(src) && src[i+1] == '/':
			for i < len(src) && src[i] != '\n' {
				i++
			}
		case c == '/' && i+1 < len(src) && src[i+1] == '*':
			end := strings.Index(src[i+2:], "*/")
			if end < 0 {
				return toks, fmt.Errorf("line %d: unterminated block comment", line)
			}
			seg := src[i : i+2+end+2]
			for k := 0; k < len(seg); k++ {
				if seg[k] == '\n' {
					line++
					lineStart = i + k + 1
				}
			}
			i += len(seg)
		case isAlpha(c):
			st := i
			for i < len(src) && isAlnum(src[i]) {
				i++
			}
			emit(IDENT, st, src[st:i], "", false, line, lineStart)
		case isDigit(c):
			st := i
			for i < len(src) && isDigit(src[i]) {
				i++
			}
			emit(INT, st, src[st:i], "", false, line, lineStart)
		case c == '"' || c == '`' || (c == '$' && i+1 < len(src) && (src[i+1] == '"' || src[i+1] == '`')):
			st := i
			l0, ls0 := line, lineStart
			kind := STRING
			if c == '$' {
				kind = SINTERP
				i++
			}
			q := src[i]
			i++
			body := i
			for i < len(src) && src[i] != q {
				if q == '"' && src[i] == '\\' {
					i++
				}
				if i < len(src) && src[i] == '\n' {
					line++
					lineStart = i + 1
				}
				i++
			}
			if i >= len(src) {
				return toks, fmt.Errorf("line %d: unterminated string literal", l0)
			}
			text := src[body:i]
			i++
			raw := q == '`'
			val := text
			if !raw {
				val = unescape(text)
			} else if kind == STRING {
				kind = RAWSTR
			}
			emit(kind, st, src[st:i], val, raw, l0, ls0)
		default:
			matched := false
			for _, op := range twoChar {
				if strings.HasPrefix(src[i:], op) {
					emit(PUNCT, i, op, "", false, line, lineStart)
					i += 2
					matched = true
					break
				}
			}
			if !matched {
				emit(PUNCT, i, string(c), "", false, line, lineStart)
				i++
			}
		}
	}
	emit(EOF, i, "", "", false, line, lineStart)
	return toks, nil
}

// Segment is one top-level construct: the tokens from a column-0 keyword up to the next one.
type Segment struct {
	Kind string // package | import | let | type | package_info
	Toks []Tok  // without EOL/EOF
	Line int
}

var topKeywords = map[string]bool{"package": true, "import": true, "let": true, "type": true, "package_info": true}

// IsTopKeyword: does the identifier open a top-level item?
func IsTopKeyword(s string) bool { return topKeywords[s] }

// Segments cuts a token stream at column-0 top-level keywords.  `and` continues a type group.
func Segments(toks []Tok) []Segment {
	var segs []Segment
	var cur *Segment
	lineLead := true
	for _, t := range toks {
		if t.Kind == EOF {
			break
		}
		// a top-level keyword at column 0 always starts a segment; after a type/package/import segment (which cannot
		// contain a let) a line-leading keyword at any column does too (the root offside accepts any column)
		starts := t.Kind == IDENT && topKeywords[t.Text] && (t.Col == 0 ||
			(lineLead && cur != nil && (cur.Kind == "type" || cur.Kind == "package" || cur.Kind == "import")))
		if t.Kind == EOL {
			lineLead = true
		}
		if starts {
			segs = append(segs, Segment{Kind: t.Text, Line: t.Line})
			cur = &segs[len(segs)-1]
		}
		if t.Kind != EOL {
			lineLead = false
		}
		if cur == nil {
			continue
		}
		cur.Toks = append(cur.Toks, t)
	}
	return segs
}

// NoEOL drops line-end tokens.
func NoEOL(ts []Tok) []Tok {
	var r []Tok
	for _, t := range ts {
		if t.Kind != EOL {
			r = append(r, t)
		}
	}
	return r
}
