package core

import (
	"bufio"
	"encoding/json"
	"fmt"
	"os"
	"path/filepath"
	"sort"
	"strconv"
	"strings"
	"time"
)

type Status int

const (
	Discharged Status = iota
	Violated
	Undecided
)

func (s Status) String() string {
	return [...]string{"discharged", "violated", "undecided"}[s]
}

// Ob is one obligation: a rule instance at a named construct, with its verdict.
// Key (rule|function|construct) is symbolic: never a line number.
type Ob struct {
	Rule      string `json:"rule"`
	Func      string `json:"function"`
	Construct string `json:"construct"`
	Pos       string `json:"pos"`
	Status    Status `json:"-"`
	StatusS   string `json:"status"`
	Fact      string `json:"fact"`
}

func (o Ob) Key() string { return o.Rule + "|" + o.Func + "|" + o.Construct }

type RuleStat struct {
	ID          string `json:"id"`
	Statement   string `json:"statement"`
	Floor       int    `json:"floor"`
	Instances   int    `json:"instances"`
	Obligations int    `json:"obligations"`
	Discharged  int    `json:"discharged"`
	Violated    int    `json:"violated"`
	Undecided   int    `json:"undecided"`
}

type Report struct {
	Prop        string
	Tier        string
	VerifDir    string
	Start       time.Time
	Explanation string
	NotDecided  []string
	Assumptions []string
	Units       map[string]int
	Notes       []string
	Selftest    map[string]any
	rules       map[string]*RuleStat
	order       []string
	obs         []Ob
	seen        map[string]bool
	impPrefix   string // while Import runs: rules with this prefix …
	impTarget   string // … are recorded under this rule
}

func NewReport(prop, tier, verifDir string) *Report {
	return &Report{Prop: prop, Tier: tier, VerifDir: verifDir, Start: time.Now(),
		Units: map[string]int{}, rules: map[string]*RuleStat{}, seen: map[string]bool{}}
}

// Rule declares a rule, the statement it checks, and the least number of
// instances it must match on the analysed tree (a rule matching nothing must not pass forever).
func (r *Report) Rule(id, statement string, floor int) {
	if r.impPrefix != "" && strings.HasPrefix(id, r.impPrefix) {
		return
	}
	if _, ok := r.rules[id]; ok {
		return
	}
	r.rules[id] = &RuleStat{ID: id, Statement: statement, Floor: floor}
	r.order = append(r.order, id)
}

// Import runs a check that belongs to another property and records its obligations under one rule of this
// report (the construct is prefixed with the original rule id).  Used where a structural necessary condition
// of one property is also a necessary condition of another; the other property's explanation is not taken over.
func (r *Report) Import(prefix, target, statement string, floor int, fn func()) {
	r.Rule(target, statement, floor)
	e, nd, as := r.Explanation, r.NotDecided, r.Assumptions
	r.impPrefix, r.impTarget = prefix, target
	fn()
	r.impPrefix, r.impTarget = "", ""
	r.Explanation, r.NotDecided, r.Assumptions = e, nd, as
}

func (r *Report) add(rule, fn, construct, pos string, st Status, fact string) {
	// reports quote printed forms cut to a length: never let a cut character through (evidence must be valid UTF-8)
	fact = strings.ToValidUTF8(fact, "")
	if r.impPrefix != "" && strings.HasPrefix(rule, r.impPrefix) {
		construct = rule + ":" + construct
		rule = r.impTarget
	}
	rs, ok := r.rules[rule]
	if !ok {
		r.Rule(rule, "(undeclared rule)", 0)
		rs = r.rules[rule]
	}
	o := Ob{Rule: rule, Func: fn, Construct: construct, Pos: pos, Status: st, StatusS: st.String(), Fact: fact}
	k := o.Key()
	if r.seen[k+"#"+st.String()] && st == Discharged {
		// the same fact established twice counts once
		return
	}
	r.seen[k+"#"+st.String()] = true
	r.obs = append(r.obs, o)
	rs.Instances++
	rs.Obligations++
	switch st {
	case Discharged:
		rs.Discharged++
	case Violated:
		rs.Violated++
	case Undecided:
		rs.Undecided++
	}
}

func (r *Report) OK(rule, fn, construct, pos, fact string) {
	r.add(rule, fn, construct, pos, Discharged, fact)
}
func (r *Report) Bad(rule, fn, construct, pos, reason string) {
	r.add(rule, fn, construct, pos, Violated, reason)
}
func (r *Report) Undecided(rule, fn, construct, pos, reason string) {
	r.add(rule, fn, construct, pos, Undecided, reason)
}

// Check is shorthand: OK when cond, Bad otherwise.
func (r *Report) Check(cond bool, rule, fn, construct, pos, fact, reason string) bool {
	if cond {
		r.OK(rule, fn, construct, pos, fact)
	} else {
		r.Bad(rule, fn, construct, pos, reason)
	}
	return cond
}

func (r *Report) Note(format string, a ...any) {
	r.Notes = append(r.Notes, fmt.Sprintf(format, a...))
}

func (r *Report) Unit(name string, n int) { r.Units[name] += n }

// Failures returns the violated/undecided obligations.
func (r *Report) Failures() []Ob {
	var res []Ob
	for _, o := range r.obs {
		if o.Status != Discharged {
			res = append(res, o)
		}
	}
	return res
}

type knownEntry struct {
	prop, key, what string
}

// readKnown parses known_findings.txt.  Lines:
//
//	known: property=<id> key=<rule|function|construct> :: <what fails>
//	fixed: property=<id> <commit> <what failed>      (documentation; suppresses nothing)
func readKnown(path string) ([]knownEntry, error) {
	f, err := os.Open(path)
	if err != nil {
		if os.IsNotExist(err) {
			return nil, nil
		}
		return nil, err
	}
	defer f.Close()
	var res []knownEntry
	sc := bufio.NewScanner(f)
	sc.Buffer(make([]byte, 1<<20), 1<<20)
	for sc.Scan() {
		line := strings.TrimSpace(sc.Text())
		if !strings.HasPrefix(line, "known:") {
			continue
		}
		rest := strings.TrimSpace(strings.TrimPrefix(line, "known:"))
		what := ""
		if i := strings.Index(rest, " :: "); i >= 0 {
			what = rest[i+4:]
			rest = rest[:i]
		}
		var e knownEntry
		e.what = what
		for _, f := range strings.Fields(rest) {
			if strings.HasPrefix(f, "property=") {
				e.prop = strings.TrimPrefix(f, "property=")
			}
		}
		if i := strings.Index(rest, "key="); i >= 0 {
			e.key = strings.TrimSpace(rest[i+4:])
		}
		if e.prop != "" && e.key != "" {
			res = append(res, e)
		}
	}
	return res, sc.Err()
}

// Finish applies floors and the known-findings file, prints the summary,
// writes the evidence and (on failure) the replay file, and returns the exit code.
func (r *Report) Finish() int {
	// floors
	for _, id := range r.order {
		rs := r.rules[id]
		if rs.Instances < rs.Floor {
			r.add(id, "-", "floor", "-", Undecided,
				fmt.Sprintf("rule matched %d instance(s), fewer than the %d it needs to be meaningful (anchor moved or renamed?)", rs.Instances, rs.Floor))
			rs.Instances-- // the synthetic obligation is not an instance
		}
	}
	known, err := readKnown(filepath.Join(r.VerifDir, "known_findings.txt"))
	if err != nil {
		fmt.Printf("cannot read known_findings.txt: %v\n", err)
	}
	knownByKey := map[string]knownEntry{}
	for _, k := range known {
		if k.prop == r.Prop {
			knownByKey[k.key] = k
		}
	}
	var fails, knownHits []Ob
	hit := map[string]bool{}
	for _, o := range r.Failures() {
		if k, ok := knownByKey[o.Key()]; ok && o.Status == Violated {
			knownHits = append(knownHits, o)
			hit[k.key] = true
			continue
		}
		fails = append(fails, o)
	}
	sort.SliceStable(fails, func(i, j int) bool { return fails[i].Key() < fails[j].Key() })

	fmt.Printf("== property %s tier=%s\n", r.Prop, r.Tier)
	unitKeys := make([]string, 0, len(r.Units))
	for k := range r.Units {
		unitKeys = append(unitKeys, k)
	}
	sort.Strings(unitKeys)
	var us []string
	for _, k := range unitKeys {
		us = append(us, fmt.Sprintf("%s=%d", k, r.Units[k]))
	}
	fmt.Printf("analysed: %s\n", strings.Join(us, " "))
	tot, dis := 0, 0
	for _, id := range r.order {
		rs := r.rules[id]
		tot += rs.Obligations
		dis += rs.Discharged
		fmt.Printf("rule %-10s instances=%-4d floor=%-3d obligations=%-4d discharged=%-4d violated=%d undecided=%d  %s\n",
			rs.ID, rs.Instances, rs.Floor, rs.Obligations, rs.Discharged, rs.Violated, rs.Undecided, short(rs.Statement, 110))
	}
	for _, n := range r.Notes {
		fmt.Printf("note: %s\n", n)
	}
	var kfOut []map[string]string
	for _, o := range knownHits {
		k := knownByKey[o.Key()]
		fmt.Printf("KNOWN-FINDING: property=%s %s at %s: %s [%s]\n", r.Prop, o.Key(), o.Pos, k.what, short(o.Fact, 160))
		kfOut = append(kfOut, map[string]string{"key": o.Key(), "pos": o.Pos, "what": k.what, "observed": o.Fact})
	}
	for key, k := range knownByKey {
		if !hit[key] {
			fmt.Printf("note: listed known finding not observed on this tree (repaired?): %s (%s)\n", key, k.what)
		}
	}
	replay := ""
	if len(fails) > 0 {
		dir := filepath.Join(r.VerifDir, "replay")
		os.MkdirAll(dir, 0o755)
		replay = filepath.Join(dir, r.Prop+".txt")
		var b strings.Builder
		fmt.Fprintf(&b, "property %s: %d obligation(s) failed (static analysis of the working tree; re-run: bin/fvcheck -p %s)\n", r.Prop, len(fails), r.Prop)
		for _, o := range fails {
			fmt.Fprintf(&b, "%s\t%s\t%s\t%s\n", o.StatusS, o.Key(), o.Pos, o.Fact)
		}
		os.WriteFile(replay, []byte(b.String()), 0o644)
		for _, o := range fails {
			fmt.Printf("FAIL %s %s at %s: %s\n", o.StatusS, o.Key(), o.Pos, o.Fact)
		}
	}
	r.writeEvidence(tot, dis, len(fails), kfOut)
	if len(fails) > 0 {
		fmt.Printf("VIOLATION property=%s replay=%s\n", r.Prop, replay)
		return 1
	}
	fmt.Printf("OK property=%s obligations=%d discharged=%d known_findings=%d wall=%.1fs\n", r.Prop, tot, dis+0, len(knownHits), time.Since(r.Start).Seconds())
	return 0
}

func short(s string, n int) string {
	s = strings.ReplaceAll(s, "\n", " ")
	if len(s) > n {
		return s[:n-1] + "…"
	}
	return s
}

func (r *Report) writeEvidence(tot, dis, nfail int, kf []map[string]string) {
	seed := 0
	if s := os.Getenv("VERIF_SEED"); s != "" {
		if n, err := strconv.Atoi(s); err == nil {
			seed = n
		}
	}
	var rules []*RuleStat
	for _, id := range r.order {
		rules = append(rules, r.rules[id])
	}
	// samples: up to 4 obligations per rule, discharged first, then every failure.
	var samples []Ob
	per := map[string]int{}
	for _, o := range r.obs {
		if o.Status == Discharged && per[o.Rule] < sampleCap() {
			per[o.Rule]++
			samples = append(samples, o)
		}
	}
	for _, o := range r.obs {
		if o.Status != Discharged {
			samples = append(samples, o)
		}
	}
	if samples == nil {
		samples = []Ob{}
	}
	distinct := map[string]bool{}
	for _, o := range r.obs {
		distinct[o.Key()] = true
	}
	cov := map[string]any{
		"explanation":         r.Explanation + " — The letters above name the rules of the first design; every rule that ran, including those added after seeded variants, is listed with its statement, instance floor and counts under coverage.rules, and DESIGN.md §3 describes each.",
		"not_decided":         r.NotDecided,
		"rules":               rules,
		"units":               r.Units,
		"obligations":         tot,
		"discharged":          dis,
		"evaluations":         tot,
		"distinct_nontrivial": len(distinct),
		"rule":                "one evaluation = one obligation (rule instance at a named construct of the current source tree); distinct by rule|function|construct",
		"samples":             samples,
		"known_findings":      kf,
		"notes":               r.Notes,
		"checker_cmd":         "bin/fvcheck -p " + r.Prop + " -tier " + r.Tier,
		"exhaustive":          false,
	}
	if r.Selftest != nil {
		cov["selftest"] = r.Selftest
	}
	ev := map[string]any{
		"property_id": r.Prop,
		"tier":        r.Tier,
		"seed":        seed,
		"level":       "other",
		"coverage":    cov,
		"assumptions": r.Assumptions,
		"wall_s":      time.Since(r.Start).Seconds(),
		"violations":  nfail,
	}
	dir := filepath.Join(r.VerifDir, "evidence")
	os.MkdirAll(dir, 0o755)
	b, _ := json.MarshalIndent(ev, "", " ")
	os.WriteFile(filepath.Join(dir, r.Prop+".json"), append(b, '\n'), 0o644)
}

// sampleCap: number of discharged obligations per rule written to the evidence samples (all of them with VERIF_ALL_SAMPLES=1).
func sampleCap() int {
	if os.Getenv("VERIF_ALL_SAMPLES") != "" {
		return 1 << 30
	}
	return 4
}
