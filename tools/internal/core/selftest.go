package core

import (
	"bufio"
	"bytes"
	"fmt"
	"os"
	"os/exec"
	"path/filepath"
	"sort"
	"strings"
	"sync"
)

// Selftests (thorough tier): the checker is run on seeded variants of the
// repository — each applied to a scratch copy outside /repo and /verif — and
// must report the variant.  Sources of variants: selftest/<prop>/*.diff (hand
// made, one instance broken), seeded/<prop>-*/patch.diff (written by
// independent sub-agents given only the property text, confirmed to break the
// property while the 51 tests pass) and the reversal of each `fix:` commit
// recorded for the property in known_findings.txt.  A miss is a weakness of the
// checker, not a violation of the property: it is recorded, never hidden, and
// does not change the exit status.  benign/*.diff are behaviour-preserving
// variants (renamed locals, comments, a regenerated refactor, a new correct
// helper): the check must stay silent on them; an alarm there is recorded as a
// false alarm of the checker.

type Variant struct {
	Name     string   `json:"variant"`
	Kind     string   `json:"kind"`
	Applied  bool     `json:"applied"`
	Detected bool     `json:"detected"`
	Reports  []string `json:"reports,omitempty"`
	Semantic int      `json:"reports_by_semantic_rules"`
	Note     string   `json:"note,omitempty"`
}

// IsChangeDetectionReport: is this FAIL line an "undecided" of a reviewed-form digest rule (C01.n, the .z rules,
// C17.e)?  Those rules compare a function with the form that was reviewed; they do not state a violation.
func IsChangeDetectionReport(ln string) bool {
	fs := strings.Fields(ln)
	if len(fs) < 3 || fs[1] != "undecided" {
		return false
	}
	rule := fs[2]
	if i := strings.Index(rule, "|"); i >= 0 {
		rule = rule[:i]
	}
	return strings.HasSuffix(rule, ".z") || rule == "C01.n" || rule == "C17.e"
}

func copyTree(src, dst string) error {
	cmd := exec.Command("rsync", "-a", "--exclude", ".git", "--exclude", "fc/fc", "--exclude", "cmd/build_sample_md/build_sample_md", src+"/", dst+"/")
	if out, err := cmd.CombinedOutput(); err != nil {
		return fmt.Errorf("rsync: %v: %s", err, out)
	}
	return nil
}

// RunSelftests runs every variant of prop and returns the results.
func RunSelftests(prop, repoRoot, verifDir string) []Variant {
	self, err := os.Executable()
	if err != nil {
		return []Variant{{Name: "-", Note: "cannot find own executable: " + err.Error()}}
	}
	type job struct {
		v     Variant
		patch []byte
		rev   bool
	}
	var jobs []job
	add := func(kind, name string, patch []byte, rev bool) {
		jobs = append(jobs, job{v: Variant{Name: name, Kind: kind}, patch: patch, rev: rev})
	}
	files, _ := filepath.Glob(filepath.Join(verifDir, "selftest", prop, "*.diff"))
	sort.Strings(files)
	for _, f := range files {
		b, _ := os.ReadFile(f)
		add("selftest", "selftest/"+prop+"/"+filepath.Base(f), b, false)
	}
	dirs, _ := filepath.Glob(filepath.Join(verifDir, "seeded", prop+"-*"))
	sort.Strings(dirs)
	for _, d := range dirs {
		b, err := os.ReadFile(filepath.Join(d, "patch.diff"))
		if err == nil {
			add("seeded", "seeded/"+filepath.Base(d), b, false)
		}
	}
	// behaviour-preserving variants: the check must stay silent on them
	bfiles, _ := filepath.Glob(filepath.Join(verifDir, "benign", "*.diff"))
	sort.Strings(bfiles)
	for _, f := range bfiles {
		b, _ := os.ReadFile(f)
		add("benign", "benign/"+filepath.Base(f), b, false)
	}
	// property-preserving FEATURE changes (behaviour of fc changes, every property still holds): the semantic rules
	// must stay silent; the change-detection rules (reviewed-form digests: *.n, *.z, C17.e) may report the edited
	// functions as "undecided" — that is what they are for, and it is recorded as such, not as silence
	ffiles, _ := filepath.Glob(filepath.Join(verifDir, "benign_feature", "*.diff"))
	sort.Strings(ffiles)
	for _, f := range ffiles {
		b, _ := os.ReadFile(f)
		add("feature", "benign_feature/"+filepath.Base(f), b, false)
	}
	// reversals of fix commits
	if kf, err := os.Open(filepath.Join(verifDir, "known_findings.txt")); err == nil {
		sc := bufio.NewScanner(kf)
		sc.Buffer(make([]byte, 1<<20), 1<<20)
		for sc.Scan() {
			ln := strings.TrimSpace(sc.Text())
			if !strings.HasPrefix(ln, "fixed: property="+prop+" ") {
				continue
			}
			fs := strings.Fields(ln)
			if len(fs) < 3 {
				continue
			}
			commit := fs[2]
			out, err := exec.Command("git", "-C", repoRoot, "show", commit).Output()
			if err != nil {
				jobs = append(jobs, job{v: Variant{Name: "revert " + commit, Kind: "fix-reversal", Note: "commit not available: " + err.Error()}})
				continue
			}
			add("fix-reversal", "revert "+commit, out, true)
		}
		kf.Close()
	}
	base, err := os.MkdirTemp("/var/tmp", "fvselftest.")
	if err != nil {
		return []Variant{{Name: "-", Note: "cannot create scratch directory: " + err.Error()}}
	}
	defer os.RemoveAll(base)
	res := make([]Variant, len(jobs))
	var wg sync.WaitGroup
	sem := make(chan struct{}, 8)
	for i := range jobs {
		wg.Add(1)
		go func(i int) {
			defer wg.Done()
			sem <- struct{}{}
			defer func() { <-sem }()
			j := jobs[i]
			v := j.v
			if j.patch == nil {
				res[i] = v
				return
			}
			dir := filepath.Join(base, fmt.Sprintf("v%d", i))
			defer os.RemoveAll(dir)
			repo := filepath.Join(dir, "repo")
			vdir := filepath.Join(dir, "verif")
			os.MkdirAll(repo, 0o755)
			os.MkdirAll(vdir, 0o755)
			if err := copyTree(repoRoot, repo); err != nil {
				v.Note = err.Error()
				res[i] = v
				return
			}
			if kf, err := os.ReadFile(filepath.Join(verifDir, "known_findings.txt")); err == nil {
				os.WriteFile(filepath.Join(vdir, "known_findings.txt"), kf, 0o644)
			}
			args := []string{"-p1", "-s", "-f"}
			if j.rev {
				args = append(args, "-R")
			}
			pc := exec.Command("patch", args...)
			pc.Dir = repo
			pc.Stdin = bytes.NewReader(j.patch)
			if out, err := pc.CombinedOutput(); err != nil {
				v.Note = "variant does not apply to the current tree: " + strings.TrimSpace(string(out))
				if len(v.Note) > 200 {
					v.Note = v.Note[:200]
				}
				res[i] = v
				return
			}
			v.Applied = true
			cc := exec.Command(self, "-p", prop, "-tier", "quick", "-repo", repo, "-verif", vdir)
			cc.Env = append(os.Environ(), "VERIF_TIER=quick")
			out, err := cc.Output()
			code := 0
			if ee, ok := err.(*exec.ExitError); ok {
				code = ee.ExitCode()
			}
			v.Detected = code == 1
			for _, ln := range strings.Split(string(out), "\n") {
				if strings.HasPrefix(ln, "FAIL ") {
					if !IsChangeDetectionReport(ln) {
						v.Semantic++
					}
					ln = strings.ReplaceAll(ln, repo+"/", "")
					if len(ln) > 260 {
						ln = ln[:260] + "…"
					}
					v.Reports = append(v.Reports, ln)
				}
			}
			if len(v.Reports) > 4 {
				v.Reports = append(v.Reports[:4], fmt.Sprintf("… and %d more", len(v.Reports)-4))
			}
			if code != 0 && code != 1 {
				v.Note = fmt.Sprintf("checker exit status %d", code)
			}
			res[i] = v
		}(i)
	}
	wg.Wait()
	return res
}
