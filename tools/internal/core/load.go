// Package core holds what every rule shares: loading /repo's current source
// (never building or running it), the obligation/report bookkeeping, the
// known-findings file and the evidence writer.
package core

import (
	"fmt"
	"go/ast"
	"go/parser"
	"go/token"
	"go/types"
	"os"
	"path/filepath"
	"sort"
	"strings"
	"sync"

	"golang.org/x/tools/go/packages"
	"golang.org/x/tools/go/ssa"
	"golang.org/x/tools/go/ssa/ssautil"
)

// Modules of the repository that hold Go packages (no root go.mod exists).
var AllModules = []string{
	"cmd/build_sample_md", "fc", "pkg/buf", "pkg/dict", "pkg/frt", "pkg/slice",
	"pkg/strings", "pkg/sys", "tinyfo",
}

// Module is one loaded Go module of the repository.
type Module struct {
	Dir   string // relative to repo root
	Abs   string
	Fset  *token.FileSet
	Pkgs  []*packages.Package // initial packages (the module's own)
	Prog  *ssa.Program        // nil unless SSA was requested
	SSA   []*ssa.Package      // parallel to Pkgs
	Files int
	Funcs int
}

// Repo loads modules lazily and caches them.
type Repo struct {
	Root string
	mu   sync.Mutex
	mods map[string]*Module
}

func NewRepo(root string) *Repo {
	abs, err := filepath.Abs(root)
	if err != nil {
		abs = root
	}
	return &Repo{Root: abs, mods: map[string]*Module{}}
}

func loadEnv() []string {
	env := []string{}
	for _, e := range os.Environ() {
		if strings.HasPrefix(e, "GOFLAGS=") || strings.HasPrefix(e, "GOPROXY=") ||
			strings.HasPrefix(e, "GOSUMDB=") || strings.HasPrefix(e, "GOWORK=") ||
			strings.HasPrefix(e, "GOTOOLCHAIN=") || strings.HasPrefix(e, "GOARCH=") ||
			strings.HasPrefix(e, "GOOS=") {
			continue
		}
		env = append(env, e)
	}
	return append(env, "GOFLAGS=-mod=mod", "GOPROXY=off", "GOSUMDB=off", "GOWORK=off", "GOTOOLCHAIN=local")
}

// Load returns the module rooted at repo-relative dir, type-checked from source
// (dependencies included), optionally with go/ssa built.  Any load or type
// error is returned: an unloadable unit is "undecided", never silently skipped.
func (r *Repo) Load(dir string, wantSSA bool) (*Module, error) {
	r.mu.Lock()
	defer r.mu.Unlock()
	key := dir
	if m, ok := r.mods[key]; ok && (!wantSSA || m.Prog != nil) {
		return m, nil
	}
	abs := filepath.Join(r.Root, dir)
	fset := token.NewFileSet()
	cfg := &packages.Config{
		Mode:  packages.LoadAllSyntax,
		Dir:   abs,
		Env:   loadEnv(),
		Fset:  fset,
		Tests: false,
	}
	pkgs, err := packages.Load(cfg, "./...")
	if err != nil {
		return nil, fmt.Errorf("load %s: %v", dir, err)
	}
	if len(pkgs) == 0 {
		return nil, fmt.Errorf("load %s: no packages", dir)
	}
	sort.Slice(pkgs, func(i, j int) bool { return pkgs[i].PkgPath < pkgs[j].PkgPath })
	var errs []string
	packages.Visit(pkgs, nil, func(p *packages.Package) {
		for _, e := range p.Errors {
			errs = append(errs, e.Error())
		}
	})
	if len(errs) > 0 {
		sort.Strings(errs)
		return nil, fmt.Errorf("load %s: %d errors, first: %s", dir, len(errs), errs[0])
	}
	m := &Module{Dir: dir, Abs: abs, Fset: fset, Pkgs: pkgs}
	for _, p := range pkgs {
		m.Files += len(p.Syntax)
		for _, f := range p.Syntax {
			for _, d := range f.Decls {
				if _, ok := d.(*ast.FuncDecl); ok {
					m.Funcs++
				}
			}
		}
	}
	if wantSSA {
		prog, spkgs := ssautil.AllPackages(pkgs, ssa.BuilderMode(0))
		prog.Build()
		m.Prog, m.SSA = prog, spkgs
		for i, sp := range spkgs {
			if sp == nil {
				return nil, fmt.Errorf("load %s: no SSA for %s", dir, pkgs[i].PkgPath)
			}
		}
	}
	r.mods[key] = m
	return m, nil
}

// Pkg returns the single initial package of the module whose import path ends in suffix.
func (m *Module) Pkg(suffix string) *packages.Package {
	for _, p := range m.Pkgs {
		if p.PkgPath == suffix || strings.HasSuffix(p.PkgPath, "/"+suffix) {
			return p
		}
	}
	return nil
}

// Main returns the first initial package (modules of this repository hold exactly one).
func (m *Module) Main() *packages.Package { return m.Pkgs[0] }

// SSAPkg returns the SSA package matching p.
func (m *Module) SSAPkg(p *packages.Package) *ssa.Package {
	for i, q := range m.Pkgs {
		if q == p {
			return m.SSA[i]
		}
	}
	return nil
}

// Rel makes a position repository-relative ("fc/wrapper.go:12").
func (r *Repo) Rel(fset *token.FileSet, pos token.Pos) string {
	if !pos.IsValid() {
		return "?"
	}
	p := fset.Position(pos)
	f := p.Filename
	if rel, err := filepath.Rel(r.Root, f); err == nil && !strings.HasPrefix(rel, "..") {
		f = rel
	}
	return fmt.Sprintf("%s:%d", f, p.Line)
}

// IsGenerated reports whether a file of the repository is fc output (gen_*.go).
func IsGenerated(filename string) bool {
	return strings.HasPrefix(filepath.Base(filename), "gen_") && strings.HasSuffix(filename, ".go")
}

// FuncDecls returns name -> declaration for all package-level functions (methods as "Recv.Name").
func FuncDecls(p *packages.Package) map[string]*ast.FuncDecl {
	res := map[string]*ast.FuncDecl{}
	for _, f := range p.Syntax {
		for _, d := range f.Decls {
			fd, ok := d.(*ast.FuncDecl)
			if !ok {
				continue
			}
			name := fd.Name.Name
			if fd.Recv != nil && len(fd.Recv.List) == 1 {
				t := fd.Recv.List[0].Type
				if s, ok := t.(*ast.StarExpr); ok {
					t = s.X
				}
				if ix, ok := t.(*ast.IndexExpr); ok {
					t = ix.X
				}
				if ix, ok := t.(*ast.IndexListExpr); ok {
					t = ix.X
				}
				if id, ok := t.(*ast.Ident); ok {
					name = id.Name + "." + name
				}
			}
			res[name] = fd
		}
	}
	return res
}

// FileOf returns the syntax file containing pos.
func FileOf(p *packages.Package, pos token.Pos) *ast.File {
	for _, f := range p.Syntax {
		if f.Pos() <= pos && pos <= f.End() {
			return f
		}
	}
	return nil
}

// SingleFile type-checks one Go file as its own package (samples/ holds 21
// main packages in one directory).  Imports are resolved from deps, a map of
// already loaded packages.  Returns the type errors instead of failing.
func SingleFile(fset *token.FileSet, path string, deps map[string]*types.Package) (*ast.File, *types.Package, *types.Info, []error) {
	f, err := parser.ParseFile(fset, path, nil, parser.ParseComments)
	if err != nil {
		return nil, nil, nil, []error{err}
	}
	var errs []error
	info := &types.Info{
		Types: map[ast.Expr]types.TypeAndValue{}, Defs: map[*ast.Ident]types.Object{},
		Uses: map[*ast.Ident]types.Object{}, Selections: map[*ast.SelectorExpr]*types.Selection{},
		Implicits: map[ast.Node]types.Object{}, Instances: map[*ast.Ident]types.Instance{},
		Scopes: map[ast.Node]*types.Scope{},
	}
	conf := types.Config{
		Importer: mapImporter(deps),
		Error:    func(e error) { errs = append(errs, e) },
	}
	pkg, _ := conf.Check(f.Name.Name, fset, []*ast.File{f}, info)
	return f, pkg, info, errs
}

type mapImporter map[string]*types.Package

func (m mapImporter) Import(path string) (*types.Package, error) {
	if p, ok := m[path]; ok {
		return p, nil
	}
	return nil, fmt.Errorf("package %q not loaded", path)
}

// LoadDeps loads (types only, from source) the given import paths in the context of a module directory.
func (r *Repo) LoadDeps(dir string, fset *token.FileSet, paths []string) (map[string]*types.Package, error) {
	cfg := &packages.Config{
		Mode: packages.NeedName | packages.NeedTypes | packages.NeedImports | packages.NeedDeps | packages.NeedSyntax | packages.NeedTypesInfo | packages.NeedFiles | packages.NeedCompiledGoFiles,
		Dir:  filepath.Join(r.Root, dir),
		Env:  loadEnv(),
		Fset: fset,
	}
	pkgs, err := packages.Load(cfg, paths...)
	if err != nil {
		return nil, err
	}
	res := map[string]*types.Package{}
	var errs []string
	packages.Visit(pkgs, nil, func(p *packages.Package) {
		for _, e := range p.Errors {
			errs = append(errs, e.Error())
		}
		if p.Types != nil {
			res[p.PkgPath] = p.Types
		}
	})
	if len(errs) > 0 {
		return nil, fmt.Errorf("deps of %s: %s", dir, errs[0])
	}
	return res, nil
}
