package rules

import (
	"strings"
)

// C06.l — a token beyond a line end is inspected only through psSkipEOL.
//
// Blank and comment-only lines leave one EOL token each, so "the next line" is an unbounded number of EOL tokens
// away.  psSkipEOL (psNextNOL underneath) is the one primitive that steps over all of them.  A function that finds
// the current token of a state S to be EOL and then steps with psNext(S) — or peeks with psNextTT(S)/psNextIs(_, S) —
// looks a FIXED number of line ends ahead: one blank line more than it counted changes what it sees, so a re-layout
// that only inserts blank lines or comments changes the parse (seeded twice: the operator look-ahead of
// parseExprWithPrec, the case list of a union definition).
//
// Decided on the normal form of every generated function (helpers added since the review inlined): the states S of
// all EOL tests `psCurIs(EOL, S)` / `psCurrentTT(S) eq EOL` are collected; every `psNext(S)` must be the direct
// argument of psSkipEOL, and `psNextTT(S)` / `psNextIs(_, S)` must not occur.  psSkipEOL and psNextNOL themselves are
// the primitives.  Not decided: a look-ahead written without an EOL test of the same state term.
func checkNoBoundedPeekOverLineEnds(c *Ctx, f *FC, rule string) {
	r := c.R
	const eol = "var:New_TokenType_EOL"
	tested := 0
	for _, fn := range f.Prog.Funcs {
		if !fn.Generated || fn.Decl == nil || fn.Name == "psSkipEOL" || fn.Name == "psNextNOL" || f.IsNewHelper(fn) {
			continue
		}
		nf, _ := f.NF(fn.Name)
		if !strings.Contains(nf, eol) {
			continue
		}
		states := map[string]bool{}
		for k := 0; ; {
			o := strings.Index(nf[k:], "psCurIs("+eol+", ")
			if o < 0 {
				break
			}
			open := k + o + len("psCurIs")
			cl := matchingClose(nf, open)
			if cl < 0 {
				break
			}
			states[nf[open+1+len(eol)+2:cl]] = true
			k = open + 1
		}
		for k := 0; ; {
			o := strings.Index(nf[k:], "(psCurrentTT(")
			if o < 0 {
				break
			}
			open := k + o + len("(psCurrentTT")
			cl := matchingClose(nf, open)
			if cl < 0 {
				break
			}
			if strings.HasPrefix(nf[cl+1:], " eq "+eol+")") {
				states[nf[open+1:cl]] = true
			}
			k = open + 1
		}
		pos := c.Pos(f.M.Fset, fn.Decl.Pos())
		for _, s := range sortedKeysB(states) {
			tested++
			bad := ""
			for k := 0; ; {
				o := strings.Index(nf[k:], "psNext("+s+")")
				if o < 0 {
					break
				}
				at := k + o
				if !isWordStart(nf, at) {
					k = at + 1
					continue
				}
				if !strings.HasSuffix(nf[:at], "psSkipEOL(") {
					bad = "psNext(" + short(s, 60) + ") steps over exactly one line end"
				}
				k = at + 1
			}
			if strings.Contains(nf, "psNextTT("+s+")") || strings.Contains(nf, ", "+s+")") && strings.Contains(nf, "psNextIs(") && peeksWithNextIs(nf, s) {
				bad = "the token after the line end of " + short(s, 60) + " is peeked at with psNextTT/psNextIs"
			}
			r.Check(bad == "", rule, fn.Name, "eol-state "+short(s, 50), pos,
				"the state whose current token is tested for EOL is advanced only through psSkipEOL",
				"a fixed number of line ends is looked past: "+bad+" — a blank or comment-only line more changes what is seen; only psSkipEOL steps over all of them")
		}
	}
	r.Unit("eol_tested_states", tested)
}

func peeksWithNextIs(nf, s string) bool {
	for k := 0; ; {
		o := strings.Index(nf[k:], "psNextIs(")
		if o < 0 {
			return false
		}
		open := k + o + len("psNextIs")
		cl := matchingClose(nf, open)
		if cl < 0 {
			return false
		}
		if as := splitTop(nf[open+1:cl], ','); len(as) == 2 && strings.TrimSpace(as[1]) == s {
			return true
		}
		k = open + 1
	}
}
