package rules

import (
	"go/ast"
	"go/token"
	"go/types"
	"path/filepath"
	"sort"
	"strings"

	"verif/tools/internal/core"
	"verif/tools/internal/ir"
)

// EXH — panic-default exhaustiveness (DESIGN.md §2).  A `switch x.(type)` over a
// union interface whose default is exactly one unconditional panic states the
// belief "cannot happen"; the belief is checked: the case types must be exactly
// the named struct types of the package that implement the interface.

// unionMarker returns the marker method name if t is a union interface (named interface with the single method <U>_Union).
func unionMarker(t types.Type) (string, *types.Named, bool) {
	n, ok := t.(*types.Named)
	if !ok {
		return "", nil, false
	}
	it, ok := n.Underlying().(*types.Interface)
	if !ok || it.NumMethods() != 1 {
		return "", nil, false
	}
	m := it.Method(0).Name()
	if m != n.Obj().Name()+"_Union" {
		return "", nil, false
	}
	return m, n, true
}

// implementers lists the named struct types of pkg that implement union u (by origin name).
func implementers(pkg *types.Package, u *types.Named) []string {
	var res []string
	marker := u.Obj().Name() + "_Union"
	sc := pkg.Scope()
	for _, name := range sc.Names() {
		tn, ok := sc.Lookup(name).(*types.TypeName)
		if !ok {
			continue
		}
		nt, ok := tn.Type().(*types.Named)
		if !ok {
			continue
		}
		if _, ok := nt.Underlying().(*types.Struct); !ok {
			continue
		}
		for i := 0; i < nt.NumMethods(); i++ {
			if nt.Method(i).Name() == marker {
				res = append(res, name)
			}
		}
	}
	sort.Strings(res)
	return res
}

// exhUnit is one type-checked unit (package or single file).
type exhUnit struct {
	label string
	fset  *token.FileSet
	pkg   *types.Package
	prog  []*ir.Func
}

// checkEXH checks every never-reached type switch of the unit.  Returns the number of switches inspected.
func checkEXH(c *Ctx, rule string, u exhUnit, onlyGenerated bool) (n int) {
	r := c.R
	for _, fn := range u.prog {
		if onlyGenerated && !fn.Generated {
			continue
		}
		ord := 0
		ir.WalkFunc(fn, func(t ir.Term) bool {
			m, ok := t.(*ir.Match)
			if !ok {
				return true
			}
			ord++
			if !m.NeverReached {
				return true // a user-written default creates no obligation
			}
			_, un, isUnion := unionMarker(m.ScrutType)
			if !isUnion {
				return true
			}
			n++
			want := implementers(un.Obj().Pkg(), un)
			have := map[string]bool{}
			for _, a := range m.Arms {
				for _, cs := range a.Cases {
					have[ir.CaseName(cs)] = true
				}
			}
			var missing []string
			for _, w := range want {
				if !have[w] {
					missing = append(missing, strings.TrimPrefix(w, un.Obj().Name()+"_"))
				}
			}
			pos := c.Pos(u.fset, m.Pos())
			construct := sprintf("switch#%d over %s", ord, un.Obj().Name())
			r.Check(len(missing) == 0, rule, u.label+"."+fn.Name, construct, pos,
				sprintf("never-reached default is justified: all %d cases of %s are listed", len(want), un.Obj().Name()),
				"the default arm panics with \"never reached\" but case(s) "+strings.Join(missing, ", ")+" of "+un.Obj().Name()+" are not listed: a value of such a case reaches the panic at run time")
			return true
		})
	}
	return
}

// sampleUnit is one samples/gen_*.go file type-checked as its own package.
type sampleUnit struct {
	name string
	path string
	file *ast.File
	pkg  *types.Package
	info *types.Info
	errs []error
	fset *token.FileSet
	fns  []*ir.Func
}

var sampleCache = map[string][]*sampleUnit{}

// loadSamples type-checks every samples/gen_*.go as its own single-file package (static; nothing is built).
func (c *Ctx) loadSamples() []*sampleUnit {
	if s, ok := sampleCache[c.Repo.Root]; ok {
		return s
	}
	dir := filepath.Join(c.Repo.Root, "samples")
	files, _ := filepath.Glob(filepath.Join(dir, "gen_*.go"))
	sort.Strings(files)
	fset := token.NewFileSet()
	// imports needed
	imps := map[string]bool{}
	for _, f := range files {
		af, err := parserParseImports(fset, f)
		if err != nil {
			continue
		}
		for _, im := range af {
			imps[im] = true
		}
	}
	// frt is needed by compiler-inserted code even when not imported
	imps[ir.FrtPath] = true
	deps, err := c.Repo.LoadDeps("samples", fset, sortedKeysB(imps))
	if err != nil {
		c.R.Rule("load", "every analysed module loads and type-checks from source", 0)
		c.R.Undecided("load", "samples", "dependencies", "samples", err.Error())
		return nil
	}
	var res []*sampleUnit
	for _, f := range files {
		af, pkg, info, errs := core.SingleFile(fset, f, deps)
		u := &sampleUnit{name: filepath.Base(f), path: f, file: af, pkg: pkg, info: info, errs: errs, fset: fset}
		if af != nil && info != nil {
			l := ir.NewLowererInfo(info)
			for _, d := range af.Decls {
				if fd, ok := d.(*ast.FuncDecl); ok && fd.Body != nil {
					u.fns = append(u.fns, l.Func(fd, true))
				}
			}
		}
		res = append(res, u)
	}
	c.R.Unit("sample_files", len(res))
	sampleCache[c.Repo.Root] = res
	return res
}

func sortedKeysB(m map[string]bool) []string {
	var ks []string
	for k := range m {
		ks = append(ks, k)
	}
	sort.Strings(ks)
	return ks
}
