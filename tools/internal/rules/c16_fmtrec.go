package rules

import (
	"go/ast"
	"go/types"
	"strings"
)

// C16.h — a formatting method never formats its own receiver.  fmt calls String/Error/GoString/Format of an
// operand that has one; a method of that name which hands its receiver (tk, &tk, *tk) to fmt.* or to one of frt's
// formatting wrappers re-enters itself without progress: the goroutine's stack overflows, which no recover()
// turns into a diagnostic (fatal error, exit status 2).  Decided on typed syntax for every such method of fc and
// the libraries it links (the generated Stringers of union cases format `v.Value`, never `v`).
func checkFormattingMethodsDoNotReenter(c *Ctx, rule string) {
	r := c.R
	n := 0
	for _, dir := range []string{"fc", "pkg/frt", "pkg/slice", "pkg/dict", "pkg/strings", "pkg/buf", "pkg/sys"} {
		m := c.Load(dir, false)
		if m == nil {
			continue
		}
		pkg := m.Main()
		info := pkg.TypesInfo
		for _, file := range pkg.Syntax {
			for _, d := range file.Decls {
				fd, ok := d.(*ast.FuncDecl)
				if !ok || fd.Recv == nil || fd.Body == nil || len(fd.Recv.List) != 1 {
					continue
				}
				switch fd.Name.Name {
				case "String", "Error", "GoString", "Format":
				default:
					continue
				}
				n++
				var recv types.Object
				if len(fd.Recv.List[0].Names) == 1 {
					recv = info.Defs[fd.Recv.List[0].Names[0]]
				}
				label := funcLabel(fd)
				pos := c.Pos(m.Fset, fd.Pos())
				if recv == nil {
					r.OK(rule, dir+"."+label, "no-reentry", pos, "the receiver is unnamed: it cannot be formatted")
					continue
				}
				isRecv := func(e ast.Expr) bool {
					for {
						switch x := e.(type) {
						case *ast.ParenExpr:
							e = x.X
							continue
						case *ast.UnaryExpr:
							e = x.X
							continue
						case *ast.StarExpr:
							e = x.X
							continue
						case *ast.Ident:
							return info.Uses[x] == recv
						}
						return false
					}
				}
				var bad []string
				ast.Inspect(fd.Body, func(x ast.Node) bool {
					call, ok := x.(*ast.CallExpr)
					if !ok {
						return true
					}
					// the method applied to the receiver itself
					if se, ok := call.Fun.(*ast.SelectorExpr); ok && se.Sel.Name == fd.Name.Name && isRecv(se.X) {
						bad = append(bad, c.Pos(m.Fset, call.Pos())+": calls itself on the receiver")
						return true
					}
					var callee *types.Func
					switch f := call.Fun.(type) {
					case *ast.SelectorExpr:
						callee, _ = info.Uses[f.Sel].(*types.Func)
					case *ast.Ident:
						callee, _ = info.Uses[f].(*types.Func)
					case *ast.IndexExpr:
						if se, ok := f.X.(*ast.SelectorExpr); ok {
							callee, _ = info.Uses[se.Sel].(*types.Func)
						}
					}
					if callee == nil || callee.Pkg() == nil {
						return true
					}
					p := callee.Pkg().Path()
					if p != "fmt" && p != "log" && !strings.HasSuffix(p, "/pkg/frt") {
						return true
					}
					for _, a := range call.Args {
						if isRecv(a) {
							bad = append(bad, c.Pos(m.Fset, call.Pos())+": passes the receiver to "+callee.Pkg().Name()+"."+callee.Name())
						}
					}
					return true
				})
				r.Check(len(bad) == 0, rule, dir+"."+label, "no-reentry", pos, "the method formats components of its receiver, never the receiver itself",
					"the formatting method hands its own receiver to a formatter, which calls the method again: unbounded recursion, the process dies with a stack overflow instead of a diagnostic ("+strings.Join(bad, "; ")+")")
			}
		}
	}
	c.R.Unit("formatting_methods", n)
}
