package rules

import (
	"go/types"
	"sort"
	"strings"

	"verif/tools/internal/ir"
)

// C06 — only relative indentation and line structure matter (offside rule).
// Byte equality across all re-layouts is a metamorphic run-time property and
// is not decided.  Decided: layout can influence parsing only through the token
// sequence, comparisons between columns, and one adjacency test (DESIGN.md §C06).

func init() { Register("C06", checkC06) }

var c06Pins = []pin{
	// (d) offside comparison table
	{"isEndOfBlock", "nf", "(((psCurCol(p0) < psCurOffside(p0)) || psCurIs(var:New_TokenType_EOF, p0)) || psCurIs(var:New_TokenType_RPAREN, p0))", "a block ends at the first token left of its column (or at EOF / a closing parenthesis)"},
	{"insideOffside", "nf", "(psCurCol(p0) >= psCurOffside(p0))", "a token belongs to the block iff its column is not left of the block column"},
	{"psCurCol", "nf", "p0.tkz.col", "column of the current token"},
	{"psCurOffside", "nf", "slice.Last(p0.offsideCol)", "innermost block column"},
	{"psPushOffside", "nf", `seq[if((psCurOffside(p0) >= psCurCol(p0)), seq[psPanic(p0, "Overrun offside rule")])] psWithOffside(p0, slice.PushLast(psCurCol(p0), p0.offsideCol))`, "a block must be indented by a positive amount relative to the enclosing block; its column is the column of its first token"},
	{"psPopOffside", "nf", "psWithOffside(p0, slice.PopLast(p0.offsideCol))", "leaving a block restores the enclosing column"},
	{"initParse", "nf", `newParse(newTkz(p0), NewScope0(), [0], newTypeVarCtx(), TypeDefCtx{tva: NewTypeVarAllocator("_P"), insideTD: false, defined: dict.New(), allocedDict: dict.New()})`, "the only constant column is the root offside 0"},
	// (e) column tracking is affine-consistent
	{"tkzNext", "nf", "match(p0.current.ttype; TokenType_EOF -> p0; TokenType_EOL -> Tokenizer{buf: p0.buf, current: nextToken(p0.buf, p0.current), col: (nextToken(p0.buf, p0.current).begin - (p0.current.begin + p0.current.len))}; _ -> Tokenizer{buf: p0.buf, current: nextToken(p0.buf, p0.current), col: (p0.col + (nextToken(p0.buf, p0.current).begin - p0.current.begin))})",
		"same line: col' − begin' = col − begin; after a line end: col' = begin' − (end of the EOL token); at EOF: unchanged"},
	{"newTkz", "nf", "Tokenizer{buf: p0, current: nextToken(p0, newToken(var:New_TokenType_ILLEGAL, 0, 0)), col: nextToken(p0, newToken(var:New_TokenType_ILLEGAL, 0, 0)).begin}", "the first token's column is its offset (first line)"},
	{"tkzNextNOL", "nf", "if((tkzNext(p0).current.ttype eq var:New_TokenType_EOL), tkzNextNOL(tkzNext(p0)), tkzNext(p0))", "skip line ends: blank and comment-only lines leave no token"},
	{"psSkipEOL", "nf", "if((psCurrentTT(p0) eq var:New_TokenType_EOL), psNextNOL(p0), p0)", "a line end is skipped only when it is the current token"},
	{"psNextNOL", "nf", "psWithTkz(p0, tkzNextNOL(p0.tkz))", "advance to the next token that is not a line end"},
	{"psNext", "nf", "psWithTkz(p0, tkzNext(p0.tkz))", "advance one token"},
	// (f) operator on the next line continues the expression
	{"psNextNonEOLIsBinOp", "nf", "psCurIsBinOp(psSkipEOL(p0))", "an atom list ends before a binary operator even when it starts the next line"},
}

// frozen who-may-reference tables: symbol -> functions allowed to reference it (with the reason)
var c06Confinement = []struct {
	what    string
	kind    string // func | field | global
	allowed []string
	why     string
}{
	{"New_TokenType_SPACE", "global", []string{"scanSpaceToken", "nextToken"}, "blanks and comments are folded into SPACE tokens that never leave the tokenizer"},
	{"Token.begin", "field", []string{"Token.end", "newTkz", "scanIdentifierToken", "tkzNext", "tkzToFPosInfo"}, "absolute offsets are read only by the tokenizer, the column tracker and diagnostics"},
	{"Token.len", "field", []string{"Token.end", "scanIdentifierToken", "scanIntImmToken", "scanRawStringLiteralToken", "scanSpaceToken", "scanStringLiteralToken", "tkzNext"}, "token lengths are read only by the tokenizer and the column tracker"},
	{"Token.end", "func", []string{"isNeighborLT", "nextToken", "scanIdentifierToken"}, "token end offsets are used only inside the tokenizer and by the one adjacency test"},
	{"isNeighborLT", "func", []string{"tkzIsNeighborLT"}, "the adjacency test (no space before '<') has one entry"},
	{"tkzIsNeighborLT", "func", []string{"psIsNeighborLT"}, "adjacency test chain"},
	{"psIsNeighborLT", "func", []string{"parseVarRef"}, "the only place where spacing matters: explicit type arguments Name<T>"},
	{"Tokenizer.col", "field", []string{"psCurCol", "tkzNext"}, "the tracked column is read only to be compared (psCurCol) or advanced (tkzNext)"},
	{"psCurCol", "func", []string{"insideOffside", "isEndOfBlock", "psPushOffside"}, "columns are only compared with block columns or pushed as a block column"},
	{"psCurOffside", "func", []string{"insideOffside", "isEndOfBlock", "psPushOffside"}, "block columns are only compared with token columns"},
	{"ParseState.offsideCol", "field", []string{"psCurOffside", "psPopOffside", "psPushOffside", "psWithScope", "psWithTDCtx", "psWithTVCtx", "psWithTkz"}, "the offside stack is touched only by push/pop/top and the field-preserving copies"},
	{"psNextNOL", "func", []string{"psSkipEOL", "parseFieldDef"}, "skipping to the next non-EOL token consumes the current token: only psSkipEOL (current token is the EOL) and parseFieldDef (current token is the field name just read) may do it"},
	{"tkzNextNOL", "func", []string{"psNextNOL", "tkzNextNOL"}, "tokenizer-level line-end skipping has one user"},
	{"tkzNext", "func", []string{"psNext", "tkzNextNOL"}, "tokens advance only through psNext / psNextNOL"},
	{"psPushOffside", "func", []string{"parseBlockAfterPushScope", "parsePackageInfo"}, "block columns are pushed only when a block / package_info body starts"},
}

// token-preserving state transformers (current token unchanged)
var tokenPreserving = map[string]bool{
	"psPushScope": true, "psPopScope": true, "psPushOffside": true, "psPopOffside": true, "psEnterTypeDef": true, "psLeaveTypeDef": true,
	"psResetTmpCtx": true, "psWithTVCtx": true, "psWithScope": true, "psWithOffside": true, "psWithTDCtx": true,
}

func checkC06(c *Ctx) {
	r := c.R
	r.Explanation = "Byte equality across re-layouts is a metamorphic run-time property and is NOT decided. Decided, for all programs and layouts: layout can influence parsing only through the token sequence, comparisons between columns, and one adjacency test: " +
		"(a) SPACE tokens (blanks, comments) are confined to scanSpaceToken/nextToken and nextToken never returns one; (b) absolute offsets (Token.begin/len/end) are read only in the tokenizer, the column tracker and diagnostics, the adjacency test has one user (explicit type arguments); " +
		"(c) columns (Tokenizer.col, psCurCol, psCurOffside, offsideCol) are only compared with each other, pushed as a block column, or advanced by the tracker — frozen who-may-reference tables on resolved symbols; " +
		"(d) offside comparison table (closed forms): block ends iff col < offside ∨ EOF ∨ RPAREN, inside iff col ≥ offside, a push panics iff offside ≥ col; the only constant column is the root 0; " +
		"(e) column tracking is affine-consistent (closed forms of tkzNext/newTkz: same line col'−begin' = col−begin; after EOL col' = begin' − end(EOL)); " +
		"(f) PAIR: every offside push is popped on every returning path; psSkipEOL precedes the binary-operator test; " +
		"(g) a block column is never taken from a line-end token: every state reaching psPushOffside (interprocedurally, through the block-parser callbacks) has passed psSkipEOL/psNextNOL or a test that its current token is a specific non-EOL token; " +
		"(h) psNextNOL — which consumes the current token — is referenced only where the current token is known to be consumed."
	r.NotDecided = []string{"that a re-layout keeps every comparison outcome (that is the definition of 'keeps block structure')", "multi-line block comments before a token on the same line; tabs (one column each)"}
	r.Assumptions = []string{"slice.Last/PushLast/PopLast address the end of the offside stack (C13)"}
	r.Rule("C06.de", "offside comparison table and affine column tracking: closed forms", 14)
	r.Rule("C06.abc", "confinement of SPACE tokens, absolute offsets and columns (frozen who-may-reference tables)", 15)
	r.Rule("C06.a", "nextToken never returns a SPACE token", 1)
	r.Rule("C06.i", "a continuation token found after skipping line ends is accepted only inside the offside line", 2)
	r.Rule("C06.g", "the state given to psPushOffside never has a line-end as its current token", 1)
	f := c.LoadFC("fc")
	if f == nil {
		return
	}
	_, frtProg, _ := libProg(c, "pkg/frt")
	if frtProg == nil {
		return
	}
	nr := noReturn(f.Prog, frtProg)
	c.checkPins(f, "C06.de", c06Pins)
	// parseBinAfter / parseExprWithPrec start by skipping EOL before the operator test
	// every operator lookup in the two functions reads the token of the state AFTER psSkipEOL (whether it is spelled
	// psCurIsBinOp, lookupBinOpNF or a direct table lookup: the helpers are expanded first)
	for _, an := range []struct{ fn, state string }{{"parseBinAfter", "psSkipEOL(p2)"}, {"parseExprWithPrec", "psSkipEOL(#0(parseTerm("}} {
		nf, fn := f.NF(an.fn)
		if fn == nil {
			continue
		}
		x := f.expandTiny(nf)
		n, bad := 0, ""
		for k := 0; ; {
			o := strings.Index(x[k:], "lookupBinOp(")
			if o < 0 {
				break
			}
			open := k + o + len("lookupBinOp")
			cl := matchingClose(x, open)
			if cl < 0 {
				bad = "unbalanced form"
				break
			}
			arg := x[open+1 : cl]
			n++
			if !strings.HasPrefix(arg, an.state) || !strings.HasSuffix(arg, ".tkz.current.ttype") {
				bad = "lookupBinOp(" + short(arg, 80) + ")"
			}
			k = cl
		}
		r.Check(n > 0 && bad == "" && strings.HasPrefix(x, "if("), "C06.de", an.fn, "skip-eol-before-operator", c.Pos(f.M.Fset, fn.Decl.Pos()),
			sprintf("an operator on the next line continues the expression: all %d operator lookups read the token after psSkipEOL", n),
			an.fn+" does not skip the line end before testing for an operator: "+bad)
	}

	// (a)(b)(c)(h) confinement
	refs := map[string]map[string]bool{}
	add := func(sym, fn string) {
		if refs[sym] == nil {
			refs[sym] = map[string]bool{}
		}
		refs[sym][fn] = true
	}
	fnLabel := func(fn *ir.Func) string {
		if fn.Decl.Recv != nil {
			for n, g := range f.Prog.ByName {
				if g == fn {
					return n
				}
			}
		}
		return fn.Name
	}
	for _, at := range f.Attributed() {
		lbl := fnLabel(at.Owner)
		ir.WalkFunc(at.Body, func(t ir.Term) bool {
			switch x := t.(type) {
			case *ir.FuncRef:
				if strings.HasPrefix(x.Key, f.Path+".") {
					name := strings.TrimPrefix(x.Key, f.Path+".")
					name = strings.NewReplacer("(", "", ")", "").Replace(name)
					add(name, lbl)
				}
			case *ir.Global:
				if x.Obj.Pkg() == f.M.Main().Types {
					add(x.Obj.Name(), lbl)
				}
			case *ir.Field:
				if x.Obj != nil {
					if owner := fieldOwner(f, x.Obj); owner != "" {
						add(owner+"."+x.Name, lbl)
					}
				}
			}
			return true
		})
	}
	for _, cf := range c06Confinement {
		have := sortedKeysB(refs[cf.what])
		// a function may reference itself (recursion) and its own definition
		var extra []string
		allowed := map[string]bool{}
		for _, a := range cf.allowed {
			allowed[a] = true
		}
		for _, h := range have {
			if !allowed[h] && h != cf.what {
				extra = append(extra, h)
			}
		}
		if len(have) == 0 {
			r.Undecided("C06.abc", cf.what, "who-may-reference", "fc", "symbol not found or never referenced (renamed?)")
			continue
		}
		r.Check(len(extra) == 0, "C06.abc", cf.what, "who-may-reference", "fc", cf.what+" is referenced only by "+strings.Join(have, ", ")+" — "+cf.why,
			cf.what+" is also referenced by "+strings.Join(extra, ", ")+": "+cf.why)
	}
	// nextToken never returns SPACE: its result is the loop variable of a loop that runs while it is SPACE
	if nf, fn := f.NF("nextToken"); fn != nil {
		want := nextTokenNF
		nf2 := strings.ReplaceAll(nf, "(Token).end", "Token.end")
		r.Check(f.canon(nf2) == f.canonSpec(want), "C06.a", "nextToken", "never-returns-SPACE", c.Pos(f.M.Fset, fn.Decl.Pos()), "the returned token is the variable of a loop that continues while it is a SPACE token", "nextToken's closed form changed; "+diffHint(nf2, want))
	} else {
		r.Undecided("C06.a", "nextToken", "definition", "fc", "anchor function not found")
	}

	// (f)
	runPair(c, f, nr)

	// (g)
	checkNOL(c, f)
	// (i)
	checkContinuationColumns(c, f)
	// (k) what a blank is: spaces, tabs, `//` to the end of the line, `/*` to the FIRST `*/` — so the text of a comment
	// is immaterial (it cannot open, nest or extend anything)
	r.Rule("C06.k", "a SPACE token is a run of spaces, tabs, line comments (to the line end) and block comments (to the first */): closed forms of the hand-written scanner and its three helpers", 4)
	c.expectNF(f, "C06.k", "scanSpaceToken", []string{`seq[assign($0 := 0); for((); (((isCharAt(p0, (p1 + $0), 32) || isStringAt(p0, (p1 + $0), "/*")) || isStringAt(p0, (p1 + $0), "//")) || isCharAt(p0, (p1 + $0), 9)); ()){seq[for((); isCharAt(p0, (p1 + $0), 32); assign($0 ++ 1)){seq[]}; for((); isCharAt(p0, (p1 + $0), 9); assign($0 ++ 1)){seq[]}] if(isStringAt(p0, (p1 + $0), "/*"), seq[assign($1 := searchForward(p0, ((p1 + $0) + 2), "*/"))] if(($1 == -1), seq[panic("No comment end found.")], seq[assign($0 = (($1 - p1) + 2))] if(isStringAt(p0, (p1 + $0), "//"), seq[for((); (((p1 + $0) < len(p0)) && not(isCharAt(p0, (p1 + $0), 10))); assign($0 ++ 1)){seq[]}], seq[])), if(isStringAt(p0, (p1 + $0), "//"), seq[for((); (((p1 + $0) < len(p0)) && not(isCharAt(p0, (p1 + $0), 10))); assign($0 ++ 1)){seq[]}], seq[]))}; assign(newToken(var:New_TokenType_SPACE, p1, 0).len = $0)] newToken(var:New_TokenType_SPACE, p1, 0)`}, "spaces, tabs, // to the line end, /* to the first */ found by searchForward; an unterminated block comment is a diagnostic")
	c.expectNF(f, "C06.k", "searchForward", []string{`seq[assign($0 := p1); for((); ($0 < len(p0)); assign($0 ++ 1)){if(isStringAt(p0, $0, p2), return($0), seq[])}] -1`}, "the first position at or after start where the string occurs, -1 if none")
	c.expectNF(f, "C06.k", "isStringAt", []string{`if(((p1 + len(p2)) > len(p0)), false, seq[range($0 _ : p2){if((p2[$0] != p0[(p1 + $0)]), return(false), seq[])}] true)`,
		// the same comparison as one substring equality
		`if(((p1 + len(p2)) > len(p0)), false, (slice(p0, p1, (p1 + len(p2)), ()) == p2))`}, "the string occurs at the position (false past the end)")
	c.expectNF(f, "C06.k", "isCharAt", []string{`if((p1 >= len(p0)), false, (p0[p1] == p2))`}, "the byte at the position (false past the end)")
	// the if parser: one-line and multi-line forms; after `then` and `else` line ends are SKIPPED (a body may start on
	// the same line or on a later one), never required (closed form as reviewed, including the recorded
	// dangling-else behaviour of rule (i))
	c.expectNF(f, "C06.de", "parseIfAfterIfExpr", []string{`if(psCurIs(var:New_TokenType_EOL, psConsume(var:New_TokenType_THEN, #0(p0(p2)))), if(psCurIs(var:New_TokenType_ELSE, psSkipEOL(#0(p1(psSkipEOL(psConsume(var:New_TokenType_THEN, #0(p0(p2)))))))), (#0(p1(psSkipEOL(psConsume(var:New_TokenType_ELSE, psSkipEOL(#0(p1(psSkipEOL(psConsume(var:New_TokenType_THEN, #0(p0(p2))))))))))), newIfElseCall(psTypeVarGen(psConsume(var:New_TokenType_THEN, #0(p0(p2)))), #1(p0(p2)), #1(p1(psSkipEOL(psConsume(var:New_TokenType_THEN, #0(p0(p2)))))), #1(p1(psSkipEOL(psConsume(var:New_TokenType_ELSE, psSkipEOL(#0(p1(psSkipEOL(psConsume(var:New_TokenType_THEN, #0(p0(p2))))))))))))), if(psCurIs(var:New_TokenType_ELIF, psSkipEOL(#0(p1(psSkipEOL(psConsume(var:New_TokenType_THEN, #0(p0(p2)))))))), (#0(parseIfAfterIfExpr(p0, p1, psConsume(var:New_TokenType_ELIF, psSkipEOL(#0(p1(psSkipEOL(psConsume(var:New_TokenType_THEN, #0(p0(p2)))))))))), newIfElseCall(psTypeVarGen(psConsume(var:New_TokenType_THEN, #0(p0(p2)))), #1(p0(p2)), #1(p1(psSkipEOL(psConsume(var:New_TokenType_THEN, #0(p0(p2)))))), exprOnlyBlock(#1(parseIfAfterIfExpr(p0, p1, psConsume(var:New_TokenType_ELIF, psSkipEOL(#0(p1(psSkipEOL(psConsume(var:New_TokenType_THEN, #0(p0(p2))))))))))))), (#0(p1(psSkipEOL(psConsume(var:New_TokenType_THEN, #0(p0(p2)))))), newIfOnlyCall(psTypeVarGen(psConsume(var:New_TokenType_THEN, #0(p0(p2)))), #1(p0(p2)), #1(p1(psSkipEOL(psConsume(var:New_TokenType_THEN, #0(p0(p2)))))))))), if(psCurIs(var:New_TokenType_ELSE, #0(parseInlineBlock(p0, psConsume(var:New_TokenType_THEN, #0(p0(p2)))))), (#0(parseInlineBlock(p0, psConsume(var:New_TokenType_ELSE, #0(parseInlineBlock(p0, psConsume(var:New_TokenType_THEN, #0(p0(p2)))))))), newIfElseCall(psTypeVarGen(psConsume(var:New_TokenType_THEN, #0(p0(p2)))), #1(p0(p2)), #1(parseInlineBlock(p0, psConsume(var:New_TokenType_THEN, #0(p0(p2))))), #1(parseInlineBlock(p0, psConsume(var:New_TokenType_ELSE, #0(parseInlineBlock(p0, psConsume(var:New_TokenType_THEN, #0(p0(p2)))))))))), (#0(parseInlineBlock(p0, psConsume(var:New_TokenType_THEN, #0(p0(p2))))), newIfOnlyCall(psTypeVarGen(psConsume(var:New_TokenType_THEN, #0(p0(p2)))), #1(p0(p2)), #1(parseInlineBlock(p0, psConsume(var:New_TokenType_THEN, #0(p0(p2)))))))))`}, "then/else bodies may start on the same line or after any number of line ends; elif chains recurse; the one-line form ends at the line end")
	r.Rule("C06.j", "after `=`, `with` and the `->` of a lambda or match rule the parser skips line ends before parsing what follows (what follows may start on the next line); the arrow of a type is the one exception", 10)
	checkSkipAfterContinuationTokens(c, f, "C06.j")
	r.Rule("C06.l", "a token beyond a line end is inspected only through psSkipEOL: no function that finds a state's current token to be EOL steps or peeks a fixed number of tokens past it", 1)
	checkNoBoundedPeekOverLineEnds(c, f, "C06.l")
	checkRelevantReviewedForms(c, f, "C06.z", "a layout primitive (line-end skipping, columns, offside stack, adjacency)",
		primSet("psSkipEOL", "psNextNOL", "psCurCol", "psCurOffside", "insideOffside", "isEndOfBlock", "psPushOffside", "psPopOffside", "psNextNonEOLIsBinOp", "psIsNeighborLT", "tkzIsNeighborLT", "tkzNextNOL", "tkzNext"), 30)
}

// nextToken: the token after prev is what scanTokenAt scans at prev's end, SPACE tokens skipped; EOF at the end
const nextTokenNF = "if((len(p0) <= Token.end(p1)), newToken(var:New_TokenType_EOF, len(p0), 0), seq[assign($0 := scanTokenAt(p0, Token.end(p1))); for((); ($0.ttype == var:New_TokenType_SPACE); ()){seq[assign($0 = scanTokenAt(p0, Token.end($0)))]}] $0)"

func fieldOwner(f *FC, v *types.Var) string {
	sc := f.M.Main().Types.Scope()
	for _, name := range []string{"Token", "Tokenizer", "ParseState"} {
		if tn, ok := sc.Lookup(name).(*types.TypeName); ok {
			if st, ok := tn.Type().Underlying().(*types.Struct); ok {
				for i := 0; i < st.NumFields(); i++ {
					if st.Field(i) == v {
						return name
					}
				}
			}
		}
	}
	return ""
}

// checkNOL: rule (g).
func checkNOL(c *Ctx, f *FC) {
	r := c.R
	type req struct {
		fn  string
		idx int
	}
	reqs := map[req]bool{}
	retNOL := map[string]bool{}
	isPS := func(t types.Type) bool {
		n, ok := t.(*types.Named)
		return ok && n.Obj().Name() == "ParseState"
	}
	isBlockParser := func(t types.Type) bool {
		sig, ok := t.Underlying().(*types.Signature)
		if !ok || sig.Results().Len() != 1 || sig.Params().Len() != 1 || !isPS(sig.Params().At(0).Type()) {
			return false
		}
		n, ok := sig.Results().At(0).Type().(*types.Named)
		if !ok || n.TypeArgs().Len() != 2 {
			return false
		}
		b, ok := n.TypeArgs().At(1).(*types.Named)
		return ok && b.Obj().Name() == "Block"
	}
	var nol func(t ir.Term, ctx map[string]bool) bool
	strip := func(t ir.Term) ir.Term {
		for {
			app, ok := t.(*ir.App)
			if !ok || len(app.Args) != 1 {
				return t
			}
			fr, ok := app.Fun.(*ir.FuncRef)
			if !ok || !tokenPreserving[strings.TrimPrefix(fr.Key, f.Path+".")] {
				return t
			}
			t = app.Args[0]
		}
	}
	nol = func(t ir.Term, ctx map[string]bool) bool {
		t = strip(t)
		if ctx[ir.String(f.Path, t)] {
			return true
		}
		switch x := t.(type) {
		case *ir.App:
			if fr, ok := x.Fun.(*ir.FuncRef); ok {
				switch strings.TrimPrefix(fr.Key, f.Path+".") {
				case "psSkipEOL", "psNextNOL":
					return true
				}
				if retNOL[fr.Key] {
					return true
				}
			}
		case *ir.Proj:
			if x.I == 0 {
				if app, ok := x.X.(*ir.App); ok {
					if fr, ok := app.Fun.(*ir.FuncRef); ok && retNOL[fr.Key] {
						return true
					}
				}
			}
		}
		return false
	}
	// result-is-NOL summaries
	for changed := true; changed; {
		changed = false
		for _, fn := range f.Prog.Funcs {
			if !fn.Generated || retNOL[fn.Key] {
				continue
			}
			nf := f.N.Func(fn)
			var ok func(t ir.Term) bool
			ok = func(t ir.Term) bool {
				switch x := t.(type) {
				case *ir.Tuple:
					return len(x.Elems) > 0 && nol(x.Elems[0], nil)
				case *ir.If:
					return x.Else != nil && ok(x.Then.Ret) && ok(x.Else.Ret)
				case *ir.Seq:
					return x.Ret != nil && ok(x.Ret)
				case *ir.App:
					if fr, isRef := x.Fun.(*ir.FuncRef); isRef && retNOL[fr.Key] {
						return true
					}
					return nol(x, nil)
				}
				return false
			}
			if ok(nf) {
				retNOL[fn.Key] = true
				changed = true
			}
		}
	}
	type site struct {
		fn, what, arg string
	}
	var bad []site
	okSites := 0
	for round := 0; round < 20; round++ {
		grew := false
		bad = nil
		okSites = 0
		for _, fn := range f.Prog.Funcs {
			if !fn.Generated {
				continue
			}
			nf := f.N.Func(fn)
			var walk func(t ir.Term, ctx map[string]bool)
			need := func(arg ir.Term, what string, ctx map[string]bool) {
				if nol(arg, ctx) {
					okSites++
					return
				}
				if p, ok := strip(arg).(*ir.Param); ok {
					k := req{fn.Key, p.Idx}
					if !reqs[k] {
						reqs[k] = true
						grew = true
					}
					okSites++
					return
				}
				bad = append(bad, site{fn.Name, what, short(ir.String(f.Path, arg), 140)})
			}
			walkB := func(b *ir.Block, ctx map[string]bool) {
				if b != nil {
					walk(b.Ret, ctx)
				}
			}
			with := func(ctx map[string]bool, s string) map[string]bool {
				n := map[string]bool{}
				for k := range ctx {
					n[k] = true
				}
				n[s] = true
				return n
			}
			walk = func(t ir.Term, ctx map[string]bool) {
				switch x := t.(type) {
				case nil:
					return
				case *ir.If:
					walk(x.Cond, ctx)
					thenCtx, elseCtx := ctx, ctx
					// psCurIs(TOKEN, X): then-branch knows X's current token is TOKEN
					if app, ok := isCallTo(x.Cond, f.Path+".psCurIs"); ok && len(app.Args) == 2 {
						xs := ir.String(f.Path, app.Args[1])
						if ir.String(f.Path, app.Args[0]) == "var:New_TokenType_EOL" {
							elseCtx = with(ctx, xs)
						} else {
							thenCtx = with(ctx, xs)
						}
					}
					if bo, ok := x.Cond.(*ir.BinOp); ok && bo.Op == "eq" {
						if app, ok := isCallTo(bo.L, f.Path+".psCurrentTT"); ok && len(app.Args) == 1 {
							xs := ir.String(f.Path, app.Args[0])
							if ir.String(f.Path, bo.R) == "var:New_TokenType_EOL" {
								elseCtx = with(ctx, xs)
							} else {
								thenCtx = with(ctx, xs)
							}
						}
					}
					walkB(x.Then, thenCtx)
					walkB(x.Else, elseCtx)
					return
				case *ir.Match:
					walk(x.Scrut, ctx)
					// match psCurrentTT(X) with | TOKEN -> …: in a non-EOL arm X is NOL
					var xs string
					if app, ok := isCallTo(x.Scrut, f.Path+".psCurrentTT"); ok && len(app.Args) == 1 {
						xs = ir.String(f.Path, app.Args[0])
					}
					for _, a := range x.Arms {
						actx := ctx
						if xs != "" && ir.CaseName(a.Cases[0]) != "TokenType_EOL" {
							actx = with(ctx, xs)
						}
						walkB(a.Body, actx)
					}
					walkB(x.Default, ctx)
					return
				case *ir.Lam:
					walkB(x.Body, ctx)
					return
				case *ir.App:
					if fr, ok := x.Fun.(*ir.FuncRef); ok {
						name := strings.TrimPrefix(fr.Key, f.Path+".")
						if name == "psPushOffside" && len(x.Args) == 1 {
							need(x.Args[0], "psPushOffside", ctx)
						}
						for i, a := range x.Args {
							if reqs[req{fr.Key, i}] {
								need(a, name+" argument "+sprintf("%d", i), ctx)
							}
						}
					}
					if p, ok := x.Fun.(*ir.Param); ok && isBlockParser(p.Obj.Type()) && len(x.Args) == 1 {
						need(x.Args[0], "block-parser callback "+p.Obj.Name(), ctx)
					}
					if l, ok := x.Fun.(*ir.Local); ok && isBlockParser(l.Obj.Type()) && len(x.Args) == 1 {
						need(x.Args[0], "block-parser callback "+l.Obj.Name(), ctx)
					}
				case *ir.PApp:
					// a partial application passes its future arguments positionally: nothing to check now
				}
				first := true
				ir.Walk(t, func(y ir.Term) bool {
					if first {
						first = false
						return true
					}
					walk(y, ctx)
					return false
				})
			}
			walk(nf, map[string]bool{})
		}
		if !grew {
			break
		}
	}
	var rs []string
	for k := range reqs {
		rs = append(rs, sprintf("%s#%d", strings.TrimPrefix(k.fn, f.Path+"."), k.idx))
	}
	sort.Strings(rs)
	r.Unit("nol_sites_discharged", okSites)
	r.Note("C06.g: parameters that must not be at a line end (requirement propagated to every caller): %s", strings.Join(rs, ", "))
	if len(bad) == 0 {
		r.OK("C06.g", "-", "all-sites", "fc", sprintf("all %d sites (psPushOffside, its interprocedural callers, block-parser callbacks) receive a state whose current token is not a line end", okSites))
	}
	n := map[string]int{}
	seenBad := map[site]bool{}
	for _, b := range bad {
		if seenBad[b] {
			continue
		}
		seenBad[b] = true
		n[b.fn+"|"+b.what]++
		r.Bad("C06.g", b.fn, sprintf("%s#%d", b.what, n[b.fn+"|"+b.what]), "fc", "the state "+b.arg+" reaches "+b.what+" without a preceding psSkipEOL (or a test of its current token): when the body starts on the next line the block column is taken from the line-end token, i.e. from the length of the header line")
	}
	if okSites < 8 {
		r.Undecided("C06.g", "-", "sites", "fc", sprintf("only %d sites found", okSites))
	}
}
