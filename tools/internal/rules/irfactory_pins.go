package rules

// lowering factories and generic instantiation (gen_ir_factory.go): reviewed closed forms, shared by C01 (pipes, not)
// and C02/C03 (instances of generic records and unions)
var irFactoryPins = []pin{
	{"newPipeCallNormal", "nf", `genBuiltinFunCall(p0, "frt.Pipe", ["T1", "T2"], [newTvf("T1"), newFFunc([newTvf("T1"), newTvf("T2")]), newTvf("T2")], [p1, p2])`,
		"x |> f is frt.Pipe[T1,T2](x, f) with [lhs; rhs] in order"},
	{"newPipeCallUnit", "nf", `genBuiltinFunCall(p0, "frt.PipeUnit", ["T1"], [newTvf("T1"), newFFunc([newTvf("T1"), var:New_FType_FUnit]), var:New_FType_FUnit], [p1, p2])`,
		"x |> f with a unit-returning f is frt.PipeUnit[T1](x, f)"},
	{"newPipeCall", "nf", `match(ExprToType(p2); FType_FFunc -> match(freturn(payload(FType_FFunc)); FType_FUnit -> newPipeCallUnit(p0, p1, p2); _ -> newPipeCallNormal(p0, p1, p2)); _ -> newPipeCallNormal(p0, p1, p2))`,
		"PipeUnit exactly when the right side is a function returning unit"},
	{"newUnaryNotCall", "nf", `genBuiltinFunCall(p0, "frt.OpNot", emptySS(), [var:New_FType_FBool, var:New_FType_FBool], [p1])`,
		"not e is frt.OpNot(e)"},
	{"genBuiltinFunCall", "nf", `New_Expr_EFunCall(FunCall{TargetFunc: GenFuncVar(p1, FuncFactory{Tparams: p2, Targets: p3}, emptyFtps(), p0), Args: p4})`,
		"a built-in call is an ordinary application of a freshly instantiated factory on the given arguments in order"},
	{"GenType", "nf", `seq[if((slice.Len(p0.Tparams) ne slice.Len(p1)), seq[PanicNow("wrong type param num for instantiate.")])] New_FType_FParamd(ParamdType{Name: p0.Name, Targs: p1})`,
		"an external generic type is instantiated positionally; arity is checked"},
	{"GenRecordType", "nf", `seq[if((slice.Len(p1) ne slice.Len(p0.Tparams)), seq[PanicNow("wrong type param num for instantiate.")]); updateRecInfo(RecordType{Name: p0.Name, Targs: p1}, RecordTypeInfo{Fields: slice.Map(tupToNTPair, slice.Zip(slice.Map(\x0. x0.Name, p0.Fields), slice.Map(tpreplace(dict.ToDict(slice.Zip(p0.Tparams, p1)), _), slice.Map(\x1. x1.Ftype, p0.Fields))))})] RecordType{Name: p0.Name, Targs: p1}`,
		"a record instance: arity checked, every field type is the declared type with the type parameters replaced positionally, field names and order kept, info registered for the instance"},
	{"GenUnionType", "nf", `seq[if((slice.Len(p1) ne slice.Len(p0.Tparams)), seq[PanicNow("wrong type param num for instantiate.")]); updateUniInfo(UnionType{Name: p0.Name, Targs: p1}, UnionTypeInfo{Cases: slice.Map(tupToNTPair, slice.Zip(slice.Map(\x0. x0.Name, ufCases(p0)), slice.Map(tpreplace(dict.ToDict(slice.Zip(p0.Tparams, p1)), _), slice.Map(\x1. x1.Ftype, ufCases(p0)))))})] UnionType{Name: p0.Name, Targs: p1}`,
		"a union instance: arity checked, every case payload is the declared type with the type parameters replaced positionally, case names and order kept, info registered for the instance"},
	{"tpReplaceOne", "nf", `if(#1(dict.TryFind(p0, p1.Name)), #0(dict.TryFind(p0, p1.Name)), New_FType_FTypeVar(p1))`,
		"a type parameter is replaced by its argument, any other variable stays"},
	{"tpreplace", "nf", `transTVFType(tpReplaceOne(p0, _), p1)`,
		"replacement reaches every component (transTVFType)"},
}
