package rules

import (
	"go/types"
	"sort"
	"strings"

	"verif/tools/internal/ir"
)

// TRAV — traversal completeness.  A pass over the AST must visit every
// sub-expression: in a traversal function, on every path through every match
// arm, each component of the arm's payload that (transitively) contains an
// Expr must occur inside the argument of an application of the traversal's
// knot (the function itself or one of its function-typed parameters, directly
// or through slice.Map/Collect/Iter), or be the scrutinee of a nested match
// (whose arms are then checked on their own).  Tiny helper functions are
// inlined first, so an early return inside a helper is a path of the caller.

type travAn struct {
	c       *Ctx
	f       *FC
	bearing map[string]bool // named types that transitively contain Expr
}

func newTravAn(c *Ctx, f *FC) *travAn {
	a := &travAn{c: c, f: f, bearing: map[string]bool{"Expr": true}}
	sc := f.M.Main().Types.Scope()
	// unions: interface name -> case struct payload types
	contains := func(t types.Type) bool { return a.typeBears(t) }
	for changed := true; changed; {
		changed = false
		for _, name := range sc.Names() {
			tn, ok := sc.Lookup(name).(*types.TypeName)
			if !ok || a.bearing[name] {
				continue
			}
			switch u := tn.Type().Underlying().(type) {
			case *types.Struct:
				if strings.Contains(name, "_") {
					// a union case struct U_C: bearing if its Value field bears
				}
				for i := 0; i < u.NumFields(); i++ {
					if contains(u.Field(i).Type()) {
						a.bearing[name] = true
						changed = true
						break
					}
				}
			case *types.Interface:
				if _, un, ok := unionMarker(tn.Type()); ok {
					for _, impl := range implementers(un.Obj().Pkg(), un) {
						if a.bearing[impl] {
							a.bearing[name] = true
							changed = true
							break
						}
					}
				}
			}
		}
	}
	return a
}

func (a *travAn) typeBears(t types.Type) bool {
	switch x := t.(type) {
	case *types.Named:
		if x.Obj().Pkg() != nil && x.Obj().Pkg().Path() == a.f.Path {
			return a.bearing[x.Obj().Name()]
		}
		if n, _ := isFrtTupleT(x); n > 0 {
			for i := 0; i < x.TypeArgs().Len(); i++ {
				if a.typeBears(x.TypeArgs().At(i)) {
					return true
				}
			}
		}
		return false
	case *types.Slice:
		return a.typeBears(x.Elem())
	case *types.Pointer:
		return a.typeBears(x.Elem())
	}
	return false
}

func isFrtTupleT(n *types.Named) (int, bool) {
	if n.Obj().Pkg() == nil || n.Obj().Pkg().Path() != ir.FrtPath {
		return 0, false
	}
	switch n.Obj().Name() {
	case "Tuple2":
		return 2, true
	case "Tuple3":
		return 3, true
	}
	return 0, false
}

// children lists the access paths (printed) of the Expr-bearing components of a payload of type t rooted at `root`.
func (a *travAn) children(root string, t types.Type) []string {
	if n, ok := t.(*types.Named); ok && n.Obj().Pkg() != nil && n.Obj().Pkg().Path() == a.f.Path {
		if st, ok := n.Underlying().(*types.Struct); ok {
			var res []string
			for i := 0; i < st.NumFields(); i++ {
				if a.typeBears(st.Field(i).Type()) {
					res = append(res, root+"."+st.Field(i).Name())
				}
			}
			return res
		}
	}
	if a.typeBears(t) {
		return []string{root}
	}
	return nil
}

// payloadType: type of _v.Value for a case struct type.
func payloadType(caseT types.Type) types.Type {
	if st, ok := caseT.Underlying().(*types.Struct); ok {
		for i := 0; i < st.NumFields(); i++ {
			if st.Field(i).Name() == "Value" {
				return st.Field(i).Type()
			}
		}
	}
	return nil
}

// isKnotLike: the function term is (or closes over) the traversal itself or one of its function-typed parameters.
func (a *travAn) isKnotLike(t ir.Term, self string) bool {
	res := false
	ir.Walk(t, func(x ir.Term) bool {
		switch y := x.(type) {
		case *ir.FuncRef:
			if y.Key == self {
				res = true
			}
		case *ir.Param:
			if _, ok := y.Obj.Type().Underlying().(*types.Signature); ok {
				res = true
			}
		}
		return !res
	})
	return res
}

// visitedArgs collects, for one path, the printed arguments of knot applications.
// paths are enumerated by splitting at If/IfT; nested matches are delegation points.
func (a *travAn) paths(t ir.Term, self string, p *ir.Printer) [][]string {
	// returns a list of paths; each path is a list of "visited" strings; the marker "match:<scrut>" records delegation
	one := func(ss ...string) [][]string { return [][]string{ss} }
	cross := func(x, y [][]string) [][]string {
		var res [][]string
		for _, a1 := range x {
			for _, b1 := range y {
				res = append(res, append(append([]string{}, a1...), b1...))
			}
		}
		if len(res) > 512 {
			res = res[:512]
		}
		return res
	}
	var rec func(t ir.Term) [][]string
	recB := func(b *ir.Block) [][]string {
		if b == nil || b.Ret == nil {
			return one()
		}
		return rec(b.Ret)
	}
	rec = func(t ir.Term) [][]string {
		switch x := t.(type) {
		case nil:
			return one()
		case *ir.If:
			c := rec(x.Cond)
			alts := append(recB(x.Then), recB(x.Else)...)
			return cross(c, alts)
		case *ir.IfT:
			c := rec(x.Cond)
			alts := append(rec(x.Then), rec(x.Else)...)
			return cross(c, alts)
		case *ir.Match:
			sc := p.S(x.Scrut)
			if strings.HasPrefix(sc, "payload(") && !strings.Contains(sc[8:], "(") {
				// delegation: the scrutinee is a payload component handed to the arms, which are checked on their own
				return cross(rec(x.Scrut), one("match:"+sc))
			}
			// a match on a computed value: its arms are alternative paths
			var alts [][]string
			for _, arm := range x.Arms {
				alts = append(alts, recB(arm.Body)...)
			}
			if x.Default != nil && !x.NeverReached {
				alts = append(alts, recB(x.Default)...)
			}
			if len(alts) == 0 {
				alts = one()
			}
			return cross(rec(x.Scrut), alts)
		case *ir.Lam:
			return one() // a closure body runs when applied; its applications are seen through isKnotLike at the call
		case *ir.App:
			res := one()
			knot := false
			switch f := x.Fun.(type) {
			case *ir.FuncRef:
				if f.Key == self {
					knot = true
				}
				if (f.Key == slicePath+".Map" || f.Key == slicePath+".Collect" || f.Key == slicePath+".Iter" || f.Key == slicePath+".Mapi") && len(x.Args) == 2 && a.isKnotLike(x.Args[0], self) {
					res = cross(res, one(p.S(x.Args[1])+" "+p.S(x.Args[0])))
				}
			case *ir.Param:
				if _, ok := f.Obj.Type().Underlying().(*types.Signature); ok {
					knot = true
				}
			case *ir.PApp, *ir.Local:
				if a.isKnotLike(x.Fun, self) {
					knot = true
				}
			}
			if knot {
				var as []string
				for _, arg := range x.Args {
					as = append(as, p.S(arg))
				}
				res = cross(res, one(strings.Join(as, " ")))
			}
			// a call that receives a knot-like function value together with data: the data is delegated to the callee
			hasKnotArg := false
			for _, arg := range x.Args {
				switch arg.(type) {
				case *ir.PApp, *ir.FuncRef, *ir.Lam, *ir.Param:
					if a.isKnotLike(arg, self) {
						hasKnotArg = true
					}
				}
			}
			if hasKnotArg && !knot {
				var as []string
				for _, arg := range x.Args {
					as = append(as, p.S(arg))
				}
				res = cross(res, one(strings.Join(as, " ")))
			}
			res = cross(res, rec(x.Fun))
			for _, arg := range x.Args {
				res = cross(res, rec(arg))
			}
			return res
		}
		res := one()
		first := true
		ir.Walk(t, func(y ir.Term) bool {
			if first {
				first = false
				return true
			}
			res = cross(res, rec(y))
			return false
		})
		return res
	}
	return rec(t)
}

// checkTraversal checks one traversal function; helpers are inlined in its normal form.
func (a *travAn) checkTraversal(rule, name string, inline []string, floorArms int) {
	r := a.c.R
	fn, ok := a.f.Prog.ByName[name]
	if !ok {
		r.Undecided(rule, name, "definition", "fc", "anchor function not found (renamed or removed)")
		return
	}
	n := ir.NewNormalizer()
	for k, v := range a.f.N.Inline {
		n.Inline[k] = v
	}
	for _, h := range inline {
		if hf, ok := a.f.Prog.ByName[h]; ok {
			n.Inline[hf.Key] = hf
		}
	}
	nf := n.Func(fn)
	pos := a.c.Pos(a.f.M.Fset, fn.Decl.Pos())
	arms := 0
	seen := map[string]bool{}
	ir.Walk(nf, func(t ir.Term) bool {
		m, ok := t.(*ir.Match)
		if !ok {
			return true
		}
		for _, arm := range m.Arms {
			if arm.Binder == nil || len(arm.Cases) != 1 {
				continue
			}
			pt := payloadType(arm.Cases[0])
			if pt == nil {
				continue
			}
			cname := ir.CaseName(arm.Cases[0])
			p := ir.NewPrinter(a.f.Path)
			p.S(m)
			root := "payload(" + cname + ")"
			kids := a.children(root, pt)
			if len(kids) == 0 {
				continue
			}
			if seen[cname] {
				continue
			}
			seen[cname] = true
			arms++
			paths := a.paths(arm.Body.Ret, fn.Key, p)
			var missing []string
			for _, kid := range kids {
				for _, path := range paths {
					ok := false
					for _, v := range path {
						if strings.HasPrefix(v, "match:") {
							sc := strings.TrimPrefix(v, "match:")
							if sc == kid || sc == root || strings.HasPrefix(kid, sc+".") {
								ok = true
							}
							continue
						}
						if strings.Contains(v, kid) {
							ok = true
						}
					}
					if !ok {
						missing = append(missing, kid)
						break
					}
				}
			}
			sort.Strings(missing)
			r.Check(len(missing) == 0, rule, name, "arm "+strings.TrimPrefix(cname, "Expr_"), pos,
				"every Expr-bearing component ("+strings.Join(kids, ", ")+") is visited on every path",
				"on some path the traversal does not visit "+strings.Join(missing, ", ")+" (not passed to the traversal itself, to a callback, or mapped with it; e.g. an early return): sub-expressions there are skipped by this pass")
		}
		return true
	})
	if arms < floorArms {
		r.Undecided(rule, name, "arms", pos, sprintf("only %d arms with Expr-bearing payloads found, expected at least %d", arms, floorArms))
	}
}
