package rules

import (
	"sort"
	"strings"

	"verif/tools/internal/ir"
)

// C16.r — recursion inventory.  fc has no loops of its own outside the hand-written lexer (C16.d): every
// repetition in the generated compiler is recursion.  The functions that can reach themselves through references
// (call or function value) are enumerated and compared with the reviewed inventory: each member there terminates
// by one of three arguments that other rules carry — a parser that consumes input before it recurses (ADV), a
// traversal that recurses on strict sub-terms of a finite AST or type (structural; the unfolding of named types is
// guarded, C16.e/g), or a list recursion on the tail.  A function that is recursive now and was not then — an
// "iterate until nothing changes" loop, a retry — has no such argument on record: undecided.
func recursiveFunctions(f *FC) []string {
	// reference graph over package functions
	succ := map[string][]string{}
	for _, fn := range f.Prog.Funcs {
		set := map[string]bool{}
		ir.WalkFunc(fn, func(t ir.Term) bool {
			if fr, ok := t.(*ir.FuncRef); ok {
				if _, ok := f.Prog.ByKey[fr.Key]; ok {
					set[fr.Key] = true
				}
			}
			return true
		})
		for k := range set {
			succ[fn.Key] = append(succ[fn.Key], k)
		}
		sort.Strings(succ[fn.Key])
	}
	// Tarjan
	index, low := map[string]int{}, map[string]int{}
	on := map[string]bool{}
	var stack []string
	idx := 0
	rec := map[string]bool{}
	var strong func(v string)
	strong = func(v string) {
		index[v], low[v] = idx, idx
		idx++
		stack = append(stack, v)
		on[v] = true
		for _, w := range succ[v] {
			if _, seen := index[w]; !seen {
				strong(w)
				if low[w] < low[v] {
					low[v] = low[w]
				}
			} else if on[w] && index[w] < low[v] {
				low[v] = index[w]
			}
		}
		if low[v] == index[v] {
			var comp []string
			for {
				w := stack[len(stack)-1]
				stack = stack[:len(stack)-1]
				on[w] = false
				comp = append(comp, w)
				if w == v {
					break
				}
			}
			if len(comp) > 1 {
				for _, w := range comp {
					rec[w] = true
				}
			} else {
				for _, w := range succ[v] {
					if w == v {
						rec[v] = true
					}
				}
			}
		}
	}
	var keys []string
	for _, fn := range f.Prog.Funcs {
		keys = append(keys, fn.Key)
	}
	sort.Strings(keys)
	for _, k := range keys {
		if _, seen := index[k]; !seen {
			strong(k)
		}
	}
	var res []string
	for k := range rec {
		res = append(res, strings.TrimPrefix(k, f.Path+"."))
	}
	sort.Strings(res)
	return res
}

func checkRecursionInventory(c *Ctx, f *FC, rule string) {
	r := c.R
	have := recursiveFunctions(f)
	n := 0
	for _, name := range have {
		fn := f.Prog.ByKey[f.Path+"."+name]
		pos := "fc"
		if fn != nil && fn.Decl != nil {
			pos = c.Pos(f.M.Fset, fn.Decl.Pos())
		}
		if fn != nil && f.IsNewHelper(fn) {
			continue // not recursive (new helpers that reach themselves are never on the inline list) — unreachable
		}
		why, ok := reviewedRecursion[name]
		n++
		if ok {
			r.OK(rule, name, "recursive", pos, "in the reviewed inventory: "+why)
		} else {
			r.Undecided(rule, name, "recursive", pos, "this function can reach itself and is not in the reviewed inventory of recursive functions: no termination argument (input consumed, strict sub-term, guarded unfolding) is on record for it — an iteration 'until nothing changes' or a retry need not end")
		}
	}
	r.Unit("recursive_functions", n)
}

// DumpRecursion prints the inventory (developer aid).
func DumpRecursion(c *Ctx) {
	f := c.LoadFC("fc")
	if f == nil {
		return
	}
	for _, n := range recursiveFunctions(f) {
		println(n)
	}
}
