package rules

// Reviewed inventory of fc's recursive functions (those that can reach themselves through named references;
// `fvcheck -dump fc -fn RECURSION` lists them), each with the termination argument on record.
const (
	recAST    = "structural: recurses on strict sub-terms of a finite AST"
	recType   = "structural: recurses on strict components of a finite type; unfolding of named records/unions is guarded (C16.e1, C02.f)"
	recParser = "parser: consumes at least one token before it recurses (ADV: no left recursion, every list step consumes)"
	recKnot   = "hand-written knot of the recursive-descent parser (passes the block/expression/let parsers to each other); productive by ADV"
	recScope  = "walks the parent chain of a scope (finite: every scope is created from an existing one)"
)

var reviewedRecursion = map[string]string{
	"ExprToGo":                recAST,
	"ExprToType":              recAST,
	"StmtToGo":                recAST,
	"reToGoReturn":            recAST,
	"collectExprRel":          recAST,
	"collectTVarExpr":         recAST,
	"transExpr":               recAST,
	"transTVExpr":             recAST,
	"FTypeToGo":               recType,
	"collectTVarFTypeWithSet": recType,
	"transTVFTypeWithSet":     recType,
	"compositeTp":             "structural: recurses on the components of two finite types in lockstep",
	"parseAtomList":           recParser,
	"parseBinAfter":           recParser,
	"parseBlock":              recParser,
	"parseCaseDefs":           recParser,
	"parseExprWithPrec":       recParser,
	"parseExtDefs":            recParser,
	"parseFAAfterDot":         recParser,
	"parseFieldDefs":          recParser,
	"parseFieldInitializers":  recParser,
	"parseFullName":           recParser,
	"parseIfAfterIfExpr":      recParser,
	"parseParams":             recParser,
	"parseRawLet":             recParser,
	"parseTerm":               recParser,
	"parseTermType":           recParser,
	"parseType":               recParser,
	"parseTypeArrows":         recParser,
	"parseTypeDefBodyList":    recParser,
	"parseTypeList":           recParser,
	"parseBlockFacade":        recKnot,
	"parseExprFacade":         recKnot,
	"parseLetFacade":          recKnot,
	"scLookupRecFac":          recScope,
	"scLookupRecFacByName":    recScope,
	"scLookupTypeFac":         recScope,
	"scLookupVarFac":          recScope,
	"tkzNextNOL":              "skips line-end tokens: every step advances the tokenizer, end of input is not a line end",
	"resolveOneTypeVarD":      "guarded by a depth counter compared with a constant before a no-return call (C16.e2)",
	"transTRecurse":           "iteration with an explicit bound: the counter is compared with 1000 before a no-return call and incremented at the recursive call",
	"updateResolverD":         "worklist of unification relations with an explicit bound: the round counter is compared with 1000 before a no-return call and incremented at the recursive call (until fix 6333946 the worklist was unbounded and two cyclic constraints made it run forever)",
}
