package rules

import (
	"verif/tools/internal/ir"
)

// C18 — build_sample_md renders every listed sample verbatim, in order.
// The tool is straight-line Folang over library calls, so its closed form
// decides the statement relative to the library specifications.

func init() { Register("C18", checkC18) }

func checkC18(c *Ctx) {
	r := c.R
	r.Explanation = "The tool is loop-free Folang over library calls, so it is decided whole relative to the library specifications: " +
		"(a) pipeline closed form of processListFile: WriteFile (Join (Dir list) dest) (AppendHead header (Concat \"\\n\" (Map (convOne dir) (Filter IsNotEmpty (Split \"\\n\" content))))) — only order-preserving library functions between read and write; " +
		"(b) section template of convOne, buffer identity kept: title = Last (SplitN 2 \" \" line) (text after the first space, or the name when there is none), file name = Head of the same split, the fenced piece is the unmodified content of ReadFile (Join dir name) between two constants containing the code fence, link pieces use \"gen_\" + TrimSuffix \".fo\" name + \".go\", pieces written in order into one buffer; " +
		"(c) both ReadFile results are tested and the failing side reaches frt.Panicf1 before any buffer write or file write; main passes the constant README.md and exactly one argument; " +
		"(d) the library wrappers the pipeline relies on (sys.ReadFile/WriteFile, strings.Split/SplitN/IsNotEmpty/Concat/AppendHead/TrimSuffix) have their specified closed forms. Covers all list files and contents."
	r.NotDecided = []string{"the result of sys.WriteFile is dropped by the tool (the statement does not ask for it; reported as information)", "slice.Map/Filter/Head/Last/Tail (decided under C13)"}
	r.Assumptions = []string{"slice library functions meet their specification (C13)", "Go's strings.Split/SplitN/TrimSuffix, path/filepath.Join/Dir, os.ReadFile/WriteFile"}
	r.Rule("C18.a", "pipeline closed form of processListFile and main", 2)
	r.Rule("C18.b", "section template of convOne (exact pieces, in order, one buffer)", 1)
	r.Rule("C18.c", "read failures reach a panic before any write", 2)
	r.Rule("C18.lib", "closed forms of the library wrappers the tool relies on", 8)

	f := c.LoadFC("cmd/build_sample_md")
	if f == nil {
		return
	}
	ks := ir.NewNormalizer()
	ks.KeepShared = true
	nfOf := func(name string) (string, *ir.Func) {
		fn, ok := f.Prog.ByName[name]
		if !ok {
			return "", nil
		}
		return ir.String(f.Path, ks.Func(fn)), fn
	}
	check := func(rule, name, want, why string) {
		nf, fn := nfOf(name)
		if fn == nil {
			r.Undecided(rule, name, "definition", "cmd/build_sample_md", "anchor function not found")
			return
		}
		r.Check(f.canon(nf) == f.canonSpec(want), rule, name, "closed-form", c.Pos(f.M.Fset, fn.Decl.Pos()), why, "closed form is not the specified one ("+why+"); "+diffHint(nf, want))
	}
	const cols = `strings.SplitN(2, " ", p1)`
	const name = "slice.Head(" + cols + ")"
	const rd = "sys.ReadFile(path/filepath.Join(p0, " + name + "))"
	const gen = `(("gen_" + strings.TrimSuffix(".fo", ` + name + `)) + ".go")`
	check("C18.b", "convOne",
		"seq[assign($0 := "+cols+"); assign($1 := buf.New()); frt.Printf1(\"process: %s\\n\", slice.Head($0)); assign($2 := sys.ReadFile(path/filepath.Join(p0, slice.Head($0)))); "+
			"if(not(#1($2)), seq[frt.Panicf1(\"Can't open file %s\", slice.Head($0))]); "+
			"seq[buf.Write($1, frt.Sprintf1(\"### %s\\n\\n\", slice.Last($0)))]; buf.Write($1, \"```\\n\"); buf.Write($1, #0($2)); buf.Write($1, \"\\n```\\n\\n\"); "+
			"assign($3 := ((\"gen_\" + strings.TrimSuffix(\".fo\", slice.Head($0))) + \".go\")); seq[buf.Write($1, frt.Sprintf1(\"generated go: [%s]\", $3))]; seq[buf.Write($1, frt.Sprintf1(\"(./%s)\", $3))]; buf.Write($1, \"\\n\\n\")] buf.String($1)",
		"section = title line, fenced verbatim content, link to gen_<base>.go, written in this order into one buffer; read failure panics before the first write")
	_ = rd
	_ = gen
	check("C18.a", "processListFile",
		"seq[assign($0 := path/filepath.Dir(p1)); assign($1 := sys.ReadFile(p1)); if(not(#1($1)), seq[frt.Panicf1(\"Can't open list file: %s\", p1)]); "+
			"sys.WriteFile(path/filepath.Join($0, p0), strings.AppendHead(\"## Folang Sample \\n\\n\\n\", strings.Concat(\"\\n\", slice.Map(convOne($0, _), slice.Filter(strings.IsNotEmpty, strings.Split(\"\\n\", #0($1)))))))]",
		"README = header + sections of the non-empty lines in list order, written next to the list file")
	check("C18.a", "main",
		"seq[assign($0 := slice.Tail(sys.Args())); if((slice.Len($0) ne 1), seq[printUsage()], seq[seq[processListFile(\"README.md\", slice.Head($0))]])]",
		"exactly one argument; output name is the constant README.md")

	// (c)
	_, frtProg, _ := libProg(c, "pkg/frt")
	if frtProg == nil {
		return
	}
	nr := noReturn(f.Prog, frtProg)
	reads, _ := checkIOResults(c, "C18.c", f, nr, false)
	if reads < 2 {
		r.Undecided("C18.c", "-", "read-sites", "cmd/build_sample_md", sprintf("%d sys.ReadFile call sites found, 2 expected (list file, sample file)", reads))
	}
	// (d)
	pick := func(dir string, names ...string) []termSpec {
		var res []termSpec
		for _, sp := range c14Specs[dir] {
			for _, n := range names {
				if sp.fn == n {
					res = append(res, sp)
				}
			}
		}
		return res
	}
	checkTermSpecsOpt(c, "C18.lib", "pkg/sys", pick("pkg/sys", "ReadFile", "WriteFile", "Args"), false)
	checkTermSpecsOpt(c, "C18.lib", "pkg/strings", pick("pkg/strings", "Split", "SplitN", "IsNotEmpty", "Concat", "AppendHead", "TrimSuffix"), false)
	checkTermSpecsOpt(c, "C18.lib", "pkg/buf", pick("pkg/buf", "New", "Write", "String"), false)
	checkTermSpecsOpt(c, "C18.lib", "pkg/frt", pick("pkg/frt", "Sprintf1", "Panicf1", "Printf1"), false)
}
