package rules

import (
	"strings"

	"verif/tools/internal/ir"
)

// C06.i — a token found after skipping line ends belongs to the construct only if it is inside the offside line.
//
// `psSkipEOL` moves to the first token of a later line.  Testing that token for a keyword that *continues* the
// current construct (else, elif, a match bar, an operator) without comparing its column with the block column lets
// an inner construct take a token that the layout gives to an outer one: the dangling else of
//
//	if a then
//	  if b then
//	    x
//	else          -- belongs to the outer if by layout
//	  y
//
// Rule: every conditional whose condition tests the current token of a state of the form psSkipEOL(_) must have,
// in the same conjunction, a column test on that same state (insideOffside, not isEndOfBlock).  Sites where the
// tested token cannot begin or continue anything but the construct being parsed are listed with their reason.
var contExempt = map[string]string{
	"parseCaseDefs|BAR":        "type definitions are top-level statements: no enclosing construct can own a bar that follows a case definition",
	"parseFieldDefs|RBRACE":    "a closing brace can only close the record definition being parsed",
	"parseTypeDefBodyList|AND": "`and` continues a top-level type group; nothing encloses it",
}

func checkContinuationColumns(c *Ctx, f *FC) {
	r := c.R
	isSkipped := func(t ir.Term) bool {
		app, ok := isCallTo(t, f.Path+".psSkipEOL")
		return ok && len(app.Args) == 1
	}
	tokenTest := func(t ir.Term) (tok string, state ir.Term, ok bool) {
		if app, isApp := isCallTo(t, f.Path+".psCurIs"); isApp && len(app.Args) == 2 {
			if g, isG := app.Args[0].(*ir.Global); isG {
				return strings.TrimPrefix(g.Obj.Name(), "New_TokenType_"), app.Args[1], true
			}
		}
		if b, isB := t.(*ir.BinOp); isB && (b.Op == "eq" || b.Op == "==") {
			for _, pr := range [][2]ir.Term{{b.L, b.R}, {b.R, b.L}} {
				if app, isApp := isCallTo(pr[0], f.Path+".psCurrentTT"); isApp && len(app.Args) == 1 {
					if g, isG := pr[1].(*ir.Global); isG {
						return strings.TrimPrefix(g.Obj.Name(), "New_TokenType_"), app.Args[0], true
					}
				}
			}
		}
		return "", nil, false
	}
	var conjuncts func(t ir.Term) []ir.Term
	conjuncts = func(t ir.Term) []ir.Term {
		if b, ok := t.(*ir.BinOp); ok && b.Op == "&&" {
			return append(conjuncts(b.L), conjuncts(b.R)...)
		}
		return []ir.Term{t}
	}
	sites := 0
	for _, fn := range f.Prog.Funcs {
		if !fn.Generated {
			continue
		}
		fn := fn
		pos := c.Pos(f.M.Fset, fn.Decl.Pos())
		n := map[string]int{}
		visit := func(cond ir.Term) {
			cs := conjuncts(cond)
			for _, cj := range cs {
				tok, st, ok := tokenTest(cj)
				if !ok || !isSkipped(st) {
					continue
				}
				sites++
				n[tok]++
				cons := sprintf("%s-after-skipEOL#%d", tok, n[tok])
				key := ir.String(f.Path, st)
				guarded := false
				for _, other := range cs {
					if app, ok := isCallTo(other, f.Path+".insideOffside"); ok && len(app.Args) == 1 && ir.String(f.Path, app.Args[0]) == key {
						guarded = true
					}
					if nt, ok := other.(*ir.Not); ok {
						if app, ok := isCallTo(nt.X, f.Path+".isEndOfBlock"); ok && len(app.Args) == 1 && ir.String(f.Path, app.Args[0]) == key {
							guarded = true
						}
					}
				}
				if why, ok := contExempt[fn.Name+"|"+tok]; ok && !guarded {
					r.OK("C06.i", fn.Name, cons, pos, "frozen exception: "+why)
					continue
				}
				r.Check(guarded, "C06.i", fn.Name, cons, pos, "the "+tok+" found after skipping line ends is accepted only inside the offside line",
					"after skipping line ends the current token is tested for "+tok+" without comparing its column with the block column: a "+tok+" that the layout gives to an enclosing construct (it is left of this construct's block) is taken by the inner one")
			}
		}
		ir.Walk(f.N.Func(fn), func(t ir.Term) bool {
			switch x := t.(type) {
			case *ir.If:
				visit(x.Cond)
			case *ir.IfT:
				visit(x.Cond)
			}
			return true
		})
	}
	r.Unit("token_tests_after_skipEOL", sites)
	if sites < 2 {
		r.Undecided("C06.i", "-", "sites", "fc", sprintf("%d token tests on a psSkipEOL state found; the else/elif look-aheads of parseIfAfterIfExpr (2) were confirmed by hand", sites))
	}
}
