package rules

// C03 — declarations and foreign calls follow the documented Go representation.

func init() { Register("C03", checkC03) }

var c03Pins = []pin{
	// (a) naming / shape contract
	{"unionCSName", "nf", `((p0 + "_") + p1)`, "case struct of union U, case C is U_C"},
	{"csConstructorName", "nf", `("New_" + unionCSName(p0, p1.Name))`, "constructor is New_U_C"},
	{"csIsVar", "nf", `((p1.Ftype eq var:New_FType_FUnit) && slice.IsEmpty(p0))`, "a constructor is a package variable exactly when the case has no payload and the union is not generic"},
	{"csConstruct", "tpl", `?(csIsVar(p1, p2)){⟨csConstructVar(p0, p2)⟩}{⟨csConstructFunc(p0, p1, p2)⟩}`, "var/func choice follows csIsVar"},
	{"piFullName", "nf", `if((p0.Name eq "_"), p1, ((p0.Name + ".") + p1))`, "package-qualified name unless the package is _"},
	{"varRefToGo", "tpl", `match(p1){VarRef_VRVar: ⟨payload(VarRef_VRVar).Name⟩; VarRef_VRSVar: ⟨payload(VarRef_VRSVar).Var.Name⟩ ⟨tArgsToGo(p0, payload(VarRef_VRSVar).SpecList)⟩}`, "explicit type arguments are appended to the declared name"},
	{"tArgsToGo", "tpl", `?(slice.IsEmpty(p1)){""}{"[" join(", "; slice.Map(p0, p1)) "]"}`, "type arguments print as [T, U] in order"},
	{"tupleToGo", "tpl", `"frt.NewTuple" ⟨slice.Length(p1)⟩ "(" join(", "; slice.Map(p0, p1)) ")"`, "tuples are built by frt.NewTupleN with the elements in order"},
	{"ldvdToGo", "tpl", `join(", "; slice.Map(\x0. x0.Name, p1.Lvars)) " := frt.Destr" ⟨slice.Length(p1.Lvars)⟩ "(" ⟨p0(p1.Rhs)⟩ ")"`, "destructuring let uses frt.DestrN, variables in order"},
	{"fTupleToGo", "tpl", `"frt.Tuple" ⟨slice.Length(p1.ElemTypes)⟩ "[" join(", "; slice.Map(p0, p1.ElemTypes)) "]"`, "tuple types are frt.TupleN[...]"},
	// (b) declaration templates
	{"rdfToGo", "tpl", `"type " ⟨p0.Name⟩ !⟨writeTParamsIfAny($0, p0.Tparams)⟩ " struct { " join(" "; slice.Map(rdffieldToGo, p0.Fields)) " }"`, "a record is a struct with the same field names, in declaration order"},
	{"rdffieldToGo", "tpl", `" " ⟨p0.Name⟩ " " ⟨FTypeToGo(p0.Ftype)⟩`, "field name verbatim, mapped field type"},
	{"writeTParamsIfAny", "nf", `seq[if(not(slice.IsEmpty(p1)), seq[buf.Write(p0, "["); seq[buf.Write(p0, strings.Concat(", ", slice.Map(pany, p1)))]; buf.Write(p0, "]")])]`, "type parameters [T any, U any] in order"},
	{"udUnionDef", "tpl", `"type " ⟨p0.Name⟩ !⟨writeTParamsIfAny($0, p0.Tparams)⟩ " interface { " " " ⟨p0.Name⟩ "_Union() " "} "`, "a union U is interface U with the marker method U_Union()"},
	{"udCSDef", "tpl", `"type " ⟨unionCSName(p0.Name, p1.Name)⟩ !⟨writeTParamsIfAny($0, p0.Tparams)⟩ " struct { " ?((p1.Ftype ne var:New_FType_FUnit)){" Value " ⟨FTypeToGo(p1.Ftype)⟩ " "} "} "`, "case struct U_C whose payload is the field Value"},
	{"csConstructFunc", "tpl", `"func " ⟨csConstructorName(p0, p2)⟩ !⟨writeTParamsIfAny($0, p1)⟩ "(" ?((p2.Ftype ne var:New_FType_FUnit)){"v " ⟨FTypeToGo(p2.Ftype)⟩} ") " ⟨p0⟩ !⟨$1 := toStringTParamsIfAny(p1)⟩ ⟨$1⟩ " { return " ⟨unionCSName(p0, p2.Name)⟩ ⟨$1⟩ "{" ?((p2.Ftype ne var:New_FType_FUnit)){"v"} "} } "`, "New_U_C(v) returns U_C{v} typed as U"},
	{"csConstructVar", "tpl", `"var " ⟨csConstructorName(p0, p1)⟩ " " ⟨p0⟩ " = " ⟨unionCSName(p0, p1.Name)⟩ "{} "`, "payload-less non-generic case: package variable New_U_C of type U"},
	{"caseToGo", "tpl", `⟨udCSDef(p0, p1)⟩ " " ⟨csConstruct(p0.Name, p0.Tparams, p1)⟩ " "`, "each case: struct then constructor"},
	{"udfToGo", "tpl", `⟨udUnionDef(p0)⟩ " " ⟨udCSConformMethods(p0)⟩ " " ⟨udCSStringerMethods(p0)⟩ " " join(""; slice.Map(caseToGo(p0, _), udCases(p0)))`, "union = interface, marker methods, Stringers, cases in declaration order"},
	{"rootVarDefToGo", "tpl", `"var " ⟨p1.Vdef.Lvar.Name⟩ " = " ⟨p0(p1.Vdef.Rhs)⟩`, "a top-level let of a value is a package var"},
	{"rfdToGo", "tpl", `"func " ⟨p1.Lfd.Fvar.Name⟩ !⟨writeTParamsIfAny($0, p1.Tparams)⟩ "(" ⟨lfdParamsToGo(p1.Lfd)⟩ ") " ⟨FTypeToGo(blockToType(ExprToType, p1.Lfd.Body))⟩ "{ " ⟨p0(p1.Lfd.Body)⟩ " }"`, "a top-level let of a function is a package func: name, type parameters, parameters in order, result"},
	{"lfdParamsToGo", "tpl", `join(", "; slice.Map(paramsToGo, p0.Params))`, "parameters in declaration order"},
	{"paramsToGo", "tpl", `⟨p0.Name⟩ " " ⟨FTypeToGo(p0.Ftype)⟩`, "parameter = name and mapped type"},
	{"pany", "tpl", `⟨p0⟩ " any"`, "type parameter constraint any"},
	{"toStringTParamsIfAny", "tpl", `?(slice.IsEmpty(p0)){""}{"[" join(", "; p0) "]"}`, "type arguments of the receiver"},
	{"csToConformMethod", "tpl", `"func (" ⟨unionCSName(p0, p3.Name)⟩ ⟨toStringTParamsIfAny(p1)⟩ ") " ⟨p2⟩`, "marker method on the case struct"},
	{"udCSConformMethods", "tpl", `join(""; slice.Map(csToConformMethod(p0.Name, p0.Tparams, (frt.SInterP("%s_Union()", p0.Name) + "{}\n"), _), udCases(p0)))`, "every case struct gets exactly the marker method U_Union(), in declaration order"},
	{"csToStringerMethod", "tpl", `"func (v " ⟨unionCSName(p0, p2.Name)⟩ ⟨toStringTParamsIfAny(p1)⟩ ") String() string " "{ return " ?((p2.Ftype eq var:New_FType_FUnit)){"\"" "(" ⟨p2.Name⟩ ")" "\""}{"frt.Sprintf1(\"" "(" ⟨p2.Name⟩ ": %v)" "\", v.Value)"} " } "`, "every case struct gets a String method; no other method (in particular no Equal, which go-cmp would use) is emitted"},
	{"udCSStringerMethods", "tpl", `join(""; slice.Map(csToStringerMethod(p0.Name, p0.Tparams, _), udCases(p0)))`, "Stringers in declaration order"},
	// (b) call emission
	{"fcToGo", "tpl", `!⟨$0 := slice.Length(p2.Args)⟩ !⟨$1 := slice.Length(fargs(fcToFuncType(p2)))⟩ ?(($0 > $1)){!⟨panic("Too many argument")⟩} ⇒?(($0 < $1)){⟨fcPartialApplyGo(p0, p1, p2)⟩}{⟨fcFullApplyGo(p0, p1, p2)⟩}`, "full application when all parameters are supplied, closure otherwise"},
	{"fcFullApplyGo", "tpl", `⟨varRefToGo(p0, p2.TargetFunc)⟩ "(" ?(not(fcUnitArgOnly(p2))){join(", "; slice.Map(p1, p2.Args))} ")"`, "declared name (with explicit type arguments), all arguments in source order; a lone unit argument gives no argument list"},
	{"fcUnitArgOnly", "nf", `if((slice.Length(p0.Args) eq 1), (var:New_Expr_EUnit eq slice.Head(p0.Args)), false)`, "unit parameter = no parameter"},
	{"fcPartialApplyGo", "tpl", `!⟨$0 := fcToFuncType(p2)⟩ !⟨$1 := slice.Skip(slice.Length(p2.Args), fargs($0))⟩ !⟨$2 := slice.Mapi(ftiToParamName, $1)⟩ "(func (" join(", "; slice.Map(ntpairToParam(p0, _), slice.Zip($2, $1))) ") " !⟨$4 := freturn($0)⟩ ?(($4 eq var:New_FType_FUnit)){"{ "}{⟨p0($4)⟩ "{ return "} ⟨varRefToGo(p0, p2.TargetFunc)⟩ "(" join(", "; slice.Map(p1, p2.Args)) ", " join(", "; $2) ") })"`,
		"missing arguments become the parameters _r0.._rk of a closure, typed by the remaining parameter types in order; the call passes the supplied arguments in source order, then _r0.._rk in order, to the declared name with its explicit type arguments"},
	{"ftiToParamName", "nf", `frt.SInterP("_r%s", p0)`, "closure parameter names _r0, _r1, …"},
	{"ntpairToParam", "tpl", `⟨#0(p1)⟩ " " ⟨p0(#1(p1))⟩`, "closure parameter = name and type"},
	{"rgToGo", "tpl", `⟨frStructName(FTypeToGo, p1.RecordType)⟩ "{" join(", "; slice.Map(rgFVToGo(p0, _), p1.FieldsNV)) "}"`, "record literal = composite literal Name[targs]{field: value, …} in source order"},
	{"rgFVToGo", "tpl", `⟨p1.Name⟩ ": " ⟨p0(p1.Expr)⟩`, "keyed field initialiser"},
}

func checkC03(c *Ctx) {
	r := c.R
	r.Explanation = "Emitted text for arbitrary declarations cannot be decided statically, but the contract is produced by a handful of loop-free emitter functions whose canonical forms can: " +
		"(a) naming/shape contract functions have the documented closed form (U_C, New_U_C, var-vs-func on exactly payload-less ∧ non-generic, qualified names unless package _, explicit type arguments appended, frt.TupleN/NewTupleN/DestrN); " +
		"(b) emission templates (SHAPE: sequence of literal pieces, dynamic pieces and joins written to the function's buffer in program order, white space collapsed since gofmt runs afterwards) of record/union/constructor/var/func declarations and of full and partial application are the documented ones — fields, cases, parameters and arguments in declaration/source order, closure parameters _r0.._rk typed by the remaining parameter types; " +
		"(c) every package_info shipped in the repository agrees with the Go it describes (FOI: signature sub-language parsed and compared structurally with go/types). Holds for every declaration shape and arity because the emitters are straight-line."
	r.NotDecided = []string{"that emitted declarations compile together with arbitrary client code", "closure typing when inference leaves the function type partly unresolved (C02)"}
	r.Assumptions = []string{"strings.Concat/slice.Map/Zip/Mapi/Skip preserve order (C13/C14)"}
	r.Rule("C03.ab", "naming/shape closed forms and declaration/call emission templates are the documented ones", 30)
	r.Rule("C03.c", "external functions and types enter the enclosing scope only under their package-qualified names", 5)
	r.Rule("C03.e", "fields, cases, parameters, arguments, elements and statements keep their order through every pass between parser and emitter: a list rebuilt from the same list of an existing node is an element-wise image (Map/Mapi/Zip) of it", 8)
	r.Rule("C03.d", "field, payload, parameter and result types are mapped by the documented type grammar and printer (the closed forms and base-type table of C15)", 20)
	r.Rule("FOI", "every shipped package_info declaration agrees with the Go signature it describes", 60)
	f := c.LoadFC("fc")
	if f == nil {
		return
	}
	c.checkPins(f, "C03.ab", c03Pins)
	checkExternalNamesQualified(c, "C03.c", f)
	checkListOrder(c, "C03.e", f)
	r.Rule("C03.f", "the type-parameter list of every declaration value is the declared list (a parameter, an existing .Tparams, or the identifiers the parser read between < and >): explicit type arguments bind by position", 8)
	// root statements: every kind goes to its own emitter, package_info emits nothing; and the text the emitters
	// produce is the text that is written (no pass of the driver rewrites declarations or imports afterwards)
	{
		var ps []pin
		for _, p := range c01Pins {
			switch p.fn {
			case "RootStmtToGo", "dsToGo", "mdToGo", "imToGo", "pmToGo", "lfdToGo":
				ps = append(ps, p)
			}
		}
		c.checkPins(f, "C03.ab", ps)
		c.checkPins(f, "C03.ab", c04ImportPins[:1])
		checkWrittenTextIsEmitted(c, f, "C03.ab")
	}
	checkTparamsProvenance(c, "C03.f", f)
	r.Import("C01.m", "C03.g", "a declaration is emitted under the name written in the source: the name stored in every Var / pattern node is the identifier the lexer read at a position reached by consuming specific tokens (the C01.m rule) — a let called `rec`, `mutable`, … is still that let", 6, func() { checkBinderNames(c, f) })
	checkRelevantReviewedForms(c, f, "C03.z", "the output buffer (functions that write emitted Go text)", primSet("buf.Write", "buf.New", "buf.String"), 18)
	// "mapped field types", payload and parameter types: the type parser and printer of C15
	r.Import("C15.", "C03.d", "", 20, func() { checkC15(c) })
	checkFOI(c, "FOI")
}
