package rules

import (
	"fmt"
	"go/types"
	"sort"
	"strings"

	"verif/tools/internal/ir"
)

// PAIR — ParseState stack discipline (DESIGN.md §2, Appendix A.1).
//
// ParseState is an immutable value threaded through every parser function.
// Abstract value of a ParseState: (Δscope, Δoffside, Δtypedef) relative to the
// enclosing function's ParseState parameter.  Only six primitives change a
// component; their closed forms are pinned, and no other function may build a
// ParseState except through the field-preserving helpers.  Function-typed
// parameters are assumed balanced and the assumption is discharged at every
// site that binds a function value to such a parameter.

type delta struct{ s, o, t int }

func (d delta) add(e delta) delta { return delta{d.s + e.s, d.o + e.o, d.t + e.t} }
func (d delta) String() string    { return fmt.Sprintf("(%+d,%+d,%+d)", d.s, d.o, d.t) }
func (d delta) zero() bool        { return d == delta{} }

type pkind int

const (
	pkBot pkind = iota // no value (all paths panic) — identity of join
	pkOther
	pkPS
	pkTup
	pkFn
	pkTop
)

type pval struct {
	k   pkind
	d   delta   // pkPS
	el  []pval  // pkTup
	fn  ir.Term // pkFn: Lam | PApp | FuncRef | Param
	env penv    // closure environment for Lam
	why string  // pkTop: explanation
}

type penv map[*types.Var]pval

var (
	pBot   = pval{k: pkBot}
	pOther = pval{k: pkOther}
)

func pPS(d delta) pval { return pval{k: pkPS, d: d} }

func (v pval) String() string {
	switch v.k {
	case pkBot:
		return "⊥"
	case pkOther:
		return "·"
	case pkPS:
		return "ps" + v.d.String()
	case pkTup:
		var ss []string
		for _, e := range v.el {
			ss = append(ss, e.String())
		}
		return "(" + strings.Join(ss, ", ") + ")"
	case pkFn:
		return "fn"
	}
	return "⊤[" + v.why + "]"
}

func pjoin(a, b pval) pval {
	if a.k == pkBot {
		return b
	}
	if b.k == pkBot {
		return a
	}
	if a.k == pkTop {
		return a
	}
	if b.k == pkTop {
		return b
	}
	if a.k != b.k {
		if (a.k == pkOther && b.k == pkFn) || (a.k == pkFn && b.k == pkOther) {
			return pOther
		}
		return pval{k: pkTop, why: "paths return different shapes: " + a.String() + " vs " + b.String()}
	}
	switch a.k {
	case pkPS:
		if a.d != b.d {
			return pval{k: pkTop, why: "paths disagree on the parse-state depths: " + a.d.String() + " vs " + b.d.String()}
		}
		return a
	case pkTup:
		if len(a.el) != len(b.el) {
			return pval{k: pkTop, why: "tuple arity"}
		}
		r := pval{k: pkTup, el: make([]pval, len(a.el))}
		for i := range a.el {
			r.el[i] = pjoin(a.el[i], b.el[i])
			if r.el[i].k == pkTop {
				return r.el[i]
			}
		}
		return r
	case pkFn:
		return a
	}
	return a
}

func psame(a, b pval) bool { return a.String() == b.String() }

// primitives and their deltas; closed forms are pinned in checkPairPins.
var pairPrims = map[string]delta{
	"psPushScope": {1, 0, 0}, "psPopScope": {-1, 0, 0},
	"psPushOffside": {0, 1, 0}, "psPopOffside": {0, -1, 0},
	"psEnterTypeDef": {0, 0, 1}, "psLeaveTypeDef": {0, 0, -1},
}

// field-preserving helpers (result has the depths of argument #idx)
var pairPreserve = map[string]int{"psWithTkz": 0, "psWithTVCtx": 0, "psSetNewSrc": 1}

var pairPins = map[string]string{
	"newParse":       "ParseState{tkz: p0, scope: p1, offsideCol: p2, tvc: p3, tdctx: p4}",
	"psWithTkz":      "newParse(p1, p0.scope, p0.offsideCol, p0.tvc, p0.tdctx)",
	"psWithScope":    "newParse(p0.tkz, p1, p0.offsideCol, p0.tvc, p0.tdctx)",
	"psWithOffside":  "newParse(p0.tkz, p0.scope, p1, p0.tvc, p0.tdctx)",
	"psWithTDCtx":    "newParse(p0.tkz, p0.scope, p0.offsideCol, p0.tvc, p1)",
	"psWithTVCtx":    "newParse(p0.tkz, p0.scope, p0.offsideCol, p1, p0.tdctx)",
	"psSetNewSrc":    "psWithTkz(p1, newTkz(p0))",
	"psPushScope":    "psWithScope(p0, NewScope(p0.scope))",
	"psPopScope":     "psWithScope(p0, popScope(p0.scope))",
	"popScope":       "SCParent(p0)",
	"SCParent":       "p0.Parent",
	"NewScope":       "NewScopeImpl(NewScopeDict(), p0)",
	"NewScopeImpl":   "&scopeImpl{SDict: p0, Parent: p1}",
	"psPushOffside":  `seq[if((psCurOffside(p0) >= psCurCol(p0)), seq[psPanic(p0, "Overrun offside rule")])] psWithOffside(p0, slice.PushLast(psCurCol(p0), p0.offsideCol))`,
	"psPopOffside":   "psWithOffside(p0, slice.PopLast(p0.offsideCol))",
	"psEnterTypeDef": "seq[tvaReset(p0.tdctx.tva)] psWithTDCtx(p0, TypeDefCtx{tva: p0.tdctx.tva, insideTD: true, defined: dict.New(), allocedDict: dict.New()})",
	"psLeaveTypeDef": "psWithTDCtx(p0, TypeDefCtx{tva: p0.tdctx.tva, insideTD: false, defined: p0.tdctx.defined, allocedDict: p0.tdctx.allocedDict})",
}

// who may call the constructors that can change a component
var pairWhoMayCall = map[string][]string{
	"newParse":      {"psWithTkz", "psWithScope", "psWithOffside", "psWithTDCtx", "psWithTVCtx", "initParse"},
	"psWithScope":   {"psPushScope", "psPopScope"},
	"psWithOffside": {"psPushOffside", "psPopOffside"},
	"psWithTDCtx":   {"psEnterTypeDef", "psLeaveTypeDef"},
}

type pairAn struct {
	c            *Ctx
	f            *FC
	nr           map[string]bool
	sum          map[string]pval
	cur          *ir.Func
	psParam      map[string]int // index of the (single) ParseState parameter, -1 if none
	report       bool
	obls         map[string]bool
	psType       types.Type
	pushes, pops int
	depth        int
	cx           *pairCtx // non-nil while the absolute-depth pass (pair_ctx.go) runs
}

func (a *pairAn) isPS(t types.Type) bool {
	n, ok := t.(*types.Named)
	return ok && n.Obj().Name() == "ParseState" && n.Obj().Pkg() != nil && n.Obj().Pkg().Path() == a.f.Path
}

// shapeOf gives the abstract result for a value of type t whose ParseState components have delta d.
func (a *pairAn) shapeOf(t types.Type, d delta) pval {
	if t == nil {
		return pOther
	}
	if a.isPS(t) {
		return pPS(d)
	}
	if n, ok := t.(*types.Named); ok && n.Obj().Pkg() != nil && n.Obj().Pkg().Path() == ir.FrtPath && strings.HasPrefix(n.Obj().Name(), "Tuple") {
		r := pval{k: pkTup}
		ta := n.TypeArgs()
		for i := 0; i < ta.Len(); i++ {
			r.el = append(r.el, a.shapeOf(ta.At(i), d))
		}
		return r
	}
	if _, ok := t.Underlying().(*types.Signature); ok {
		return pval{k: pkFn}
	}
	return pOther
}

func hasPS(v pval) bool {
	switch v.k {
	case pkPS:
		return true
	case pkTup:
		for _, e := range v.el {
			if hasPS(e) {
				return true
			}
		}
	}
	return false
}

// firstDelta returns the delta of the first ParseState found in v.
func firstDelta(v pval) (delta, bool) {
	switch v.k {
	case pkPS:
		return v.d, true
	case pkTup:
		for _, e := range v.el {
			if d, ok := firstDelta(e); ok {
				return d, true
			}
		}
	}
	return delta{}, false
}

func shift(v pval, d delta) pval {
	switch v.k {
	case pkPS:
		return pPS(v.d.add(d))
	case pkTup:
		r := pval{k: pkTup, el: make([]pval, len(v.el))}
		for i, e := range v.el {
			r.el[i] = shift(e, d)
		}
		return r
	}
	return v
}

func (a *pairAn) fail(kind, msg string) {
	if !a.report {
		return
	}
	key := a.cur.Name + "|" + kind
	n := 1
	for a.obls[fmt.Sprintf("%s#%d", key, n)] {
		n++
	}
	a.obls[fmt.Sprintf("%s#%d", key, n)] = true
	a.c.R.Bad("PAIR", a.cur.Name, fmt.Sprintf("%s#%d", kind, n), a.c.Pos(a.f.M.Fset, a.cur.Decl.Pos()), msg)
}

func (a *pairAn) okOb(kind, msg string) {
	if !a.report {
		return
	}
	key := a.cur.Name + "|" + kind
	n := 1
	for a.obls[fmt.Sprintf("%s#%d", key, n)] {
		n++
	}
	a.obls[fmt.Sprintf("%s#%d", key, n)] = true
	a.c.R.OK("PAIR", a.cur.Name, fmt.Sprintf("%s#%d", kind, n), a.c.Pos(a.f.M.Fset, a.cur.Decl.Pos()), msg)
}

// balanced checks a function value bound to a callback parameter: applied to a state it returns the same depths.
func (a *pairAn) balanced(fv pval, sig *types.Signature, what string) {
	if fv.k != pkFn || sig == nil {
		return
	}
	if _, isParam := fv.fn.(*ir.Param); isParam {
		return // a callback of the enclosing function, itself assumed balanced and checked at its own binding sites
	}
	returnsPS := false
	for i := 0; i < sig.Results().Len(); i++ {
		if hasPS(a.shapeOf(sig.Results().At(i).Type(), delta{})) {
			returnsPS = true
		}
	}
	if !returnsPS {
		return
	}
	var args []pval
	for i := 0; i < sig.Params().Len(); i++ {
		args = append(args, a.shapeOf(sig.Params().At(i).Type(), delta{}))
	}
	res := a.applyFn(fv, args)
	if res.k == pkBot {
		a.okOb("callback", what+" never returns")
		return
	}
	if res.k == pkTop {
		a.fail("callback", what+" is not definite: "+res.why)
		return
	}
	bad := ""
	var walk func(v pval)
	walk = func(v pval) {
		switch v.k {
		case pkPS:
			if !v.d.zero() {
				bad = v.d.String()
			}
		case pkTup:
			for _, e := range v.el {
				walk(e)
			}
		}
	}
	walk(res)
	if bad != "" {
		a.fail("callback", what+" is not balanced: each application changes the (scope, offside, typedef) depths by "+bad+" — inside a list/fold the depth is unbounded, and a name bound inside stays visible (or an outer scope is lost)")
	} else {
		a.okOb("callback", what+" is balanced (0,0,0)")
	}
}

func (a *pairAn) applyFn(fv pval, args []pval) pval {
	if a.depth > 60 {
		return pOther
	}
	a.depth++
	defer func() { a.depth-- }()
	switch f := fv.fn.(type) {
	case *ir.Lam:
		e := penv{}
		for k, v := range fv.env {
			e[k] = v
		}
		for i, p := range f.Params {
			if p != nil && i < len(args) {
				e[p] = args[i]
			}
		}
		return a.eval(f.Body.Ret, e)
	case *ir.PApp:
		var first []pval
		for _, x := range f.First {
			first = append(first, a.eval(x, fv.env))
		}
		return a.call(f.Fun, append(first, args...), fv.env, nil)
	case *ir.FuncRef:
		return a.call(f, args, fv.env, nil)
	case *ir.Param:
		// assumed balanced: result has the depths of its ParseState argument
		var d delta
		for _, x := range args {
			if dd, ok := firstDelta(x); ok {
				d = dd
				break
			}
		}
		if sig, ok := f.Obj.Type().Underlying().(*types.Signature); ok && sig.Results().Len() == 1 {
			return a.shapeOf(sig.Results().At(0).Type(), d)
		}
		return pOther
	}
	return pOther
}

func sigOf(t ir.Term) *types.Signature {
	switch x := t.(type) {
	case *ir.FuncRef:
		if x.Fn != nil {
			s, _ := x.Fn.Type().(*types.Signature)
			return s
		}
	}
	return nil
}

// call evaluates an application of fun (a term) to evaluated args.
func (a *pairAn) call(fun ir.Term, args []pval, env penv, argTerms []ir.Term) pval {
	switch f := fun.(type) {
	case *ir.FuncRef:
		name := strings.TrimPrefix(f.Key, a.f.Path+".")
		if a.nr[f.Key] {
			return pBot
		}
		if d, ok := pairPrims[name]; ok && name != f.Key {
			if len(args) == 1 && args[0].k == pkPS {
				if a.report {
					if d.s+d.o+d.t > 0 {
						a.pushes++
					} else {
						a.pops++
					}
				}
				return pPS(args[0].d.add(d))
			}
			if len(args) == 1 && args[0].k == pkBot {
				return pBot
			}
			return pval{k: pkTop, why: name + " applied to a non-state"}
		}
		if idx, ok := pairPreserve[name]; ok && name != f.Key {
			if idx < len(args) {
				if args[idx].k == pkPS || args[idx].k == pkBot {
					return args[idx]
				}
			}
			return pval{k: pkTop, why: name + " applied to a non-state"}
		}
		sig := sigOf(f)
		// callback obligations: every function-typed parameter that returns a ParseState gets a balanced function
		if sig != nil {
			if a.cx != nil {
				a.cx.mute++
			}
			for i := 0; i < sig.Params().Len() && i < len(args); i++ {
				if psig, ok := sig.Params().At(i).Type().Underlying().(*types.Signature); ok {
					a.balanced(args[i], psig, fmt.Sprintf("the function bound to parameter %s of %s", sig.Params().At(i).Name(), name))
				}
			}
			if a.cx != nil {
				a.cx.mute--
				a.cxCall(f, sig, args)
			}
		}
		switch f.Key {
		case a.f.Path + ".ParseList", a.f.Path + ".ParseList2":
			// zero or more balanced steps: the state keeps its depths
			ps := args[len(args)-1]
			if ps.k == pkBot {
				return pBot
			}
			if ps.k != pkPS {
				return pval{k: pkTop, why: "ParseList applied to a non-state"}
			}
			return pval{k: pkTup, el: []pval{ps, pOther}}
		case slicePath + ".Fold":
			if len(args) == 3 {
				return args[1] // balanced folder: the accumulator keeps its depths
			}
		}
		if callee, ok := a.f.Prog.ByKey[f.Key]; ok {
			s, has := a.sum[f.Key]
			if !has {
				// a function that does not thread a ParseState
				return pOther
			}
			pi := a.psParam[f.Key]
			if s.k == pkTop {
				// reported once, at the callee; callers continue with the callee's declared shape (keeps one report per cause)
				_ = callee
				if sig != nil && sig.Results().Len() == 1 {
					var d delta
					if pi >= 0 && pi < len(args) {
						d, _ = firstDelta(args[pi])
					}
					return a.shapeOf(sig.Results().At(0).Type(), d)
				}
				return pOther
			}
			if pi >= 0 && pi < len(args) {
				if args[pi].k == pkBot {
					return pBot
				}
				if args[pi].k == pkPS {
					return shift(s, args[pi].d)
				}
			}
			return s
		}
		// external callee
		if sig != nil && sig.Results().Len() == 1 {
			var d delta
			for _, x := range args {
				if dd, ok := firstDelta(x); ok {
					d = dd
					break
				}
			}
			return a.shapeOf(instResult(f, sig), d)
		}
		return pOther
	case *ir.Lam, *ir.PApp, *ir.Param:
		if p, ok := fun.(*ir.Param); ok {
			a.cxParamApplied(p, args)
		}
		return a.applyFn(pval{k: pkFn, fn: fun, env: env}, args)
	case *ir.Local:
		if v, ok := env[f.Obj]; ok && v.k == pkFn {
			return a.applyFn(v, args)
		}
		// unknown local function value: assumed balanced like a parameter
		var d delta
		for _, x := range args {
			if dd, ok := firstDelta(x); ok {
				d = dd
				break
			}
		}
		if sig, ok := f.Obj.Type().Underlying().(*types.Signature); ok && sig.Results().Len() == 1 {
			return a.shapeOf(sig.Results().At(0).Type(), d)
		}
		return pOther
	}
	return pOther
}

// instResult: result type of a (possibly generic) external function reference.
func instResult(f *ir.FuncRef, sig *types.Signature) types.Type {
	return sig.Results().At(0).Type()
}

func (a *pairAn) eval(t ir.Term, env penv) pval {
	switch x := t.(type) {
	case nil:
		return pOther
	case *ir.Param:
		if a.isPS(x.Obj.Type()) {
			return pPS(delta{})
		}
		if _, ok := x.Obj.Type().Underlying().(*types.Signature); ok {
			return pval{k: pkFn, fn: x}
		}
		return a.shapeOf(x.Obj.Type(), delta{})
	case *ir.Local:
		if v, ok := env[x.Obj]; ok {
			return v
		}
		return a.shapeOf(x.Obj.Type(), delta{})
	case *ir.Lam:
		return pval{k: pkFn, fn: x, env: env}
	case *ir.PApp:
		if a.cx != nil {
			if fr, ok := x.Fun.(*ir.FuncRef); ok {
				if idx, ok := a.cx.binderFns[fr.Key]; ok && idx < len(x.First) {
					a.cxSite(strings.TrimPrefix(fr.Key, a.f.Path+"."), x.Pos(), x.First[idx], env)
				}
			}
		}
		return pval{k: pkFn, fn: x, env: env}
	case *ir.FuncRef:
		return pval{k: pkFn, fn: x}
	case *ir.Tuple:
		r := pval{k: pkTup}
		for _, e := range x.Elems {
			v := a.eval(e, env)
			if v.k == pkBot {
				return pBot
			}
			if v.k == pkTop {
				return v
			}
			r.el = append(r.el, v)
		}
		return r
	case *ir.Proj:
		v := a.eval(x.X, env)
		switch v.k {
		case pkTup:
			if x.I < len(v.el) {
				return v.el[x.I]
			}
		case pkBot, pkTop:
			return v
		}
		return pOther
	case *ir.If:
		a.eval(x.Cond, env)
		r := a.eval(x.Then.Ret, env)
		if x.Else != nil {
			r = pjoin(r, a.eval(x.Else.Ret, env))
		} else {
			r = pjoin(r, pOther)
		}
		return r
	case *ir.IfT:
		a.eval(x.Cond, env)
		return pjoin(a.eval(x.Then, env), a.eval(x.Else, env))
	case *ir.Match:
		a.eval(x.Scrut, env)
		r := pBot
		for _, arm := range x.Arms {
			r = pjoin(r, a.eval(arm.Body.Ret, env))
		}
		if x.Default != nil && !x.NeverReached {
			r = pjoin(r, a.eval(x.Default.Ret, env))
		}
		return r
	case *ir.StrMatch:
		r := pBot
		for _, arm := range x.Arms {
			r = pjoin(r, a.eval(arm.Body.Ret, env))
		}
		if x.Default != nil {
			r = pjoin(r, a.eval(x.Default.Ret, env))
		}
		return r
	case *ir.Seq:
		for _, e := range x.Effs {
			if a.eval(e, env).k == pkBot && panics(e, a.nr) {
				return pBot
			}
		}
		if x.Ret == nil {
			return pOther
		}
		return a.eval(x.Ret, env)
	case *ir.App:
		var args []pval
		for _, arg := range x.Args {
			args = append(args, a.eval(arg, env))
		}
		if b, ok := x.Fun.(*ir.Builtin); ok {
			if b.Name == "panic" {
				return pBot
			}
			return pOther
		}
		if a.cx != nil {
			if fr, ok := x.Fun.(*ir.FuncRef); ok {
				if idx, ok := a.cx.binderFns[fr.Key]; ok && idx < len(x.Args) {
					a.cxSite(strings.TrimPrefix(fr.Key, a.f.Path+"."), x.Pos(), x.Args[idx], env)
				}
			}
		}
		return a.call(x.Fun, args, env, x.Args)
	case *ir.Record:
		for _, fv := range x.Fields {
			a.eval(fv.Val, env)
		}
		if a.isPS(x.Type) {
			return pval{k: pkTop, why: "a ParseState is built by a composite literal outside the pinned constructors"}
		}
		return pOther
	case *ir.Field:
		a.eval(x.X, env)
		return pOther
	default:
		first := true
		ir.Walk(t, func(y ir.Term) bool {
			if first {
				first = false
				return true
			}
			a.eval(y, env)
			return false
		})
		return pOther
	}
}

// runPair computes summaries to a fixpoint and reports P1/P2.  Returns the analysis for further queries.
func runPair(c *Ctx, f *FC, nr map[string]bool) *pairAn {
	r := c.R
	r.Rule("PAIR", "ParseState stack discipline: every function's summary is definite (P1) and every callback binding and entry point is balanced (P2)", 150)
	r.Rule("PAIR.pins", "the six depth-changing primitives and the field-preserving constructors have their pinned closed forms; nobody else may build a ParseState", 20)
	a := &pairAn{c: c, f: f, nr: nr, sum: map[string]pval{}, psParam: map[string]int{}, obls: map[string]bool{}}
	// pins
	for _, name := range sortedKeys(pairPins) {
		c.expectNF(f, "PAIR.pins", name, []string{pairPins[name]}, "closed form the depth bookkeeping relies on")
	}
	// who-may-call
	callers := map[string]map[string]bool{}
	litBuilders := map[string]bool{}
	for _, at := range f.Attributed() {
		fn := at.Owner
		ir.WalkFunc(at.Body, func(t ir.Term) bool {
			switch x := t.(type) {
			case *ir.FuncRef:
				name := strings.TrimPrefix(x.Key, f.Path+".")
				if _, ok := pairWhoMayCall[name]; ok {
					if callers[name] == nil {
						callers[name] = map[string]bool{}
					}
					callers[name][fn.Name] = true
				}
			case *ir.Record:
				if a.isPS(x.Type) {
					litBuilders[fn.Name] = true
				}
			}
			return true
		})
	}
	for _, name := range sortedKeys(pairWhoMayCall) {
		allowed := map[string]bool{}
		for _, n := range pairWhoMayCall[name] {
			allowed[n] = true
		}
		var extra []string
		for cl := range callers[name] {
			if !allowed[cl] {
				extra = append(extra, cl)
			}
		}
		sort.Strings(extra)
		r.Check(len(extra) == 0, "PAIR.pins", name, "who-may-call", "fc", name+" is referenced only by "+strings.Join(pairWhoMayCall[name], ", "),
			name+" is also referenced by "+strings.Join(extra, ", ")+": a ParseState component can change outside the six primitives")
	}
	delete(litBuilders, "newParse")
	r.Check(len(litBuilders) == 0, "PAIR.pins", "ParseState", "literal-constructors", "fc", "only newParse builds a ParseState literal",
		"ParseState literals are also built in "+strings.Join(sortedKeysB(litBuilders), ", "))

	// ParseState parameter index per function
	for _, fn := range f.Prog.Funcs {
		idx := -1
		for i, p := range fn.Params {
			if a.isPS(p.Type()) {
				if idx >= 0 {
					idx = -2 // several: relative to the first
					break
				}
				idx = i
			}
		}
		if idx == -2 {
			for i, p := range fn.Params {
				if a.isPS(p.Type()) {
					idx = i
					break
				}
			}
		}
		a.psParam[fn.Key] = idx
	}
	threads := func(fn *ir.Func) bool {
		if a.psParam[fn.Key] >= 0 {
			return true
		}
		if fn.Results != nil {
			for i := 0; i < fn.Results.Len(); i++ {
				if hasPS(a.shapeOf(fn.Results.At(i).Type(), delta{})) {
					return true
				}
			}
		}
		return false
	}
	var fns []*ir.Func
	for _, fn := range f.Prog.Funcs {
		name := fn.Name
		if _, prim := pairPrims[name]; prim {
			continue
		}
		if _, pres := pairPreserve[name]; pres {
			continue
		}
		if _, ctor := pairWhoMayCall[name]; ctor {
			continue
		}
		if name == "initParse" || name == "ParseList" || name == "ParseList2" {
			continue
		}
		if threads(fn) {
			fns = append(fns, fn)
		}
	}
	for _, fn := range fns {
		a.sum[fn.Key] = pBot
	}
	if init, ok := f.Prog.ByName["initParse"]; ok {
		a.sum[init.Key] = pPS(delta{})
	}
	for iter := 0; iter < 100; iter++ {
		changed := false
		for _, fn := range fns {
			a.cur = fn
			v := a.eval(f.N.Func(fn), penv{})
			nv := pjoin(a.sum[fn.Key], v)
			if !psame(nv, a.sum[fn.Key]) {
				a.sum[fn.Key] = nv
				changed = true
			}
		}
		if !changed {
			break
		}
		if iter == 99 {
			r.Undecided("PAIR", "-", "fixpoint", "fc", "summaries did not stabilise")
		}
	}
	// reporting pass
	a.report = true
	for _, fn := range fns {
		a.cur = fn
		v := a.eval(f.N.Func(fn), penv{})
		pos := c.Pos(f.M.Fset, fn.Decl.Pos())
		s := pjoin(a.sum[fn.Key], v)
		if s.k == pkTop {
			r.Bad("PAIR", fn.Name, "P1-definite", pos, "the function's result is not definite — "+s.why+" (a push without its pop on one path, or a pop moved/dropped)")
		} else {
			r.OK("PAIR", fn.Name, "P1-definite", pos, "summary "+s.String())
		}
	}
	r.Unit("parse_state_threading_functions", len(fns))
	pushSites, popSites := 0, 0
	for _, fn := range f.Prog.Funcs {
		ir.WalkFunc(fn, func(t ir.Term) bool {
			if fr, ok := t.(*ir.FuncRef); ok {
				if d, ok := pairPrims[strings.TrimPrefix(fr.Key, f.Path+".")]; ok {
					if d.s+d.o+d.t > 0 {
						pushSites++
					} else {
						popSites++
					}
				}
			}
			return true
		})
	}
	r.Unit("push_sites", pushSites)
	r.Unit("pop_sites", popSites)
	if pushSites < 8 || popSites < 8 {
		r.Undecided("PAIR", "-", "sites", "fc", sprintf("%d push and %d pop sites found; at least 8 of each were confirmed by hand", pushSites, popSites))
	}
	// P2 entries
	for _, name := range []string{"ParseAll", "parseRootOneStmt", "parseRootStmts", "transpileOne"} {
		fn, ok := f.Prog.ByName[name]
		if !ok {
			r.Undecided("PAIR", name, "P2-entry", "fc", "anchor function not found")
			continue
		}
		s := a.sum[fn.Key]
		d, has := firstDelta(s)
		r.Check(s.k != pkTop && has && d.zero(), "PAIR", name, "P2-entry", c.Pos(f.M.Fset, fn.Decl.Pos()),
			"entry point is balanced: "+s.String(), "entry point is not balanced: "+s.String())
	}
	// P3 (information)
	var nz []string
	for _, fn := range fns {
		if d, ok := firstDelta(a.sum[fn.Key]); ok && !d.zero() {
			nz = append(nz, fn.Name+d.String())
		}
	}
	sort.Strings(nz)
	a.runPairDepth(fns)
	a.runPairTypeParams(fns)
	// PAIR.drop: a state-returning call whose new state is discarded (the parse continues from a state that has
	// not consumed what the call consumed, or without the scope/offside change it made)
	r.Rule("PAIR.drop", "no parse state is dropped: every call whose result carries a ParseState has that component bound, returned or passed on", 100)
	checkResultsNotDropped(c, f, "PAIR.drop", func(t types.Type) []int {
		if t == nil {
			return nil
		}
		if a.isPS(t) {
			return []int{-1}
		}
		if n, ok := t.(*types.Named); ok && n.Obj().Pkg() != nil && n.Obj().Pkg().Path() == ir.FrtPath && strings.HasPrefix(n.Obj().Name(), "Tuple") {
			var res []int
			for i := 0; i < n.TypeArgs().Len(); i++ {
				if a.isPS(n.TypeArgs().At(i)) {
					res = append(res, i)
				}
			}
			return res
		}
		return nil
	}, "parse state", "the tokens the call consumed and the scope/offside changes it made are lost, so the same input is parsed again or a binder is registered in the wrong scope", "state_producing_calls")
	r.Note("PAIR P3: non-primitive functions with a non-zero summary (legal when compensated by their callers): %s", strings.Join(nz, ", "))
	return a
}
