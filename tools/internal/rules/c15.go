package rules

import (
	"strings"

	"verif/tools/internal/ir"
)

// C15 — type expressions map to Go types by the documented grammar.

func init() { Register("C15", checkC15) }

const (
	c15SL = "ParseSepList(parseTermType(p0, _), var:New_TokenType_ASTER, p1)"
	c15TA = "parseTypeArrows(parseType, p0)"
	c15ET = "parseElemType(p0, p1)"
	c15MC = "psMulConsume([var:New_TokenType_LSBRACKET, var:New_TokenType_RSBRACKET], p1)"
)

var c15Pins = []pin{
	// (b)+(c) grammar layering and constructors
	{"parseType", "nf", "if((slice.Length(#1(" + c15TA + ")) eq 1), (#0(" + c15TA + "), slice.Head(#1(" + c15TA + "))), (#0(" + c15TA + "), newFFunc(#1(" + c15TA + "))))",
		"a type is a flat arrow list; one element ⇒ no function wrapper, else func over the whole flat list (right nesting only through parentheses)"},
	{"parseTypeArrows", "nf", "if((psCurrentTT(#0(" + c15ET + ")) eq var:New_TokenType_RARROW), (#0(parseTypeArrows(p0, psConsume(var:New_TokenType_RARROW, #0(" + c15ET + ")))), slice.PushHead(#1(" + c15ET + "), #1(parseTypeArrows(p0, psConsume(var:New_TokenType_RARROW, #0(" + c15ET + ")))))), (#0(" + c15ET + "), [#1(" + c15ET + ")]))" +
		" ||| ParseSepList(parseElemType(p0, _), var:New_TokenType_RARROW, p1)",
		"arrow operands are tuple-level elements, collected left to right"},
	{"parseElemType", "nf", "if((slice.Length(#1(" + c15SL + ")) eq 1), (#0(" + c15SL + "), slice.Head(#1(" + c15SL + "))), (#0(" + c15SL + "), New_FType_FTuple(TupleType{ElemTypes: #1(" + c15SL + ")})))",
		"T*U*V is one flat tuple of []-level terms; one element ⇒ no tuple wrapper; a parenthesised tuple stays one element"},
	{"parseTermType", "nf", "if(psCurIs(var:New_TokenType_LSBRACKET, p1), (#0(parseTermType(p0, " + c15MC + ")), New_FType_FSlice(SliceType{ElemType: #1(parseTermType(p0, " + c15MC + "))})), parseAtomType(p0, p1))",
		"[]T binds tighter than *: [] applies to the following term, recursively"},
	{"newFFunc", "nf", "New_FType_FFunc(FuncType{Targets: p0})", "function type keeps the flat target list"},
	{"parseTypeList", "nf", "if(psCurIs(var:New_TokenType_COMMA, #0(p0(p1))), (#0(parseTypeList(p0, psConsume(var:New_TokenType_COMMA, #0(p0(p1))))), slice.PushHead(#1(p0(p1)), #1(parseTypeList(p0, psConsume(var:New_TokenType_COMMA, #0(p0(p1))))))), (#0(p0(p1)), [#1(p0(p1))]))" +
		" ||| ParseSepList(p0, var:New_TokenType_COMMA, p1)",
		"type arguments are full types separated by commas, in order"},
	// (d) printer
	{"FTypeToGo", "tpl", `match(p0){FType_FInt: "int"; FType_FBool: "bool"; FType_FFloat: "float64"; FType_FAny: "any"; FType_FString: "string"; FType_FUnit: ""; FType_FFunc: ⟨funcTypeToGo(payload(FType_FFunc), FTypeToGo)⟩; FType_FRecord: ⟨recordTypeToGo(FTypeToGo, payload(FType_FRecord))⟩; FType_FUnion: ⟨fUnionToGo(FTypeToGo, payload(FType_FUnion))⟩; FType_FParamd: ⟨fpToGo(FTypeToGo, payload(FType_FParamd))⟩; FType_FSlice: ⟨fSliceToGo(payload(FType_FSlice), FTypeToGo)⟩; FType_FTuple: ⟨fTupleToGo(FTypeToGo, payload(FType_FTuple))⟩; FType_FFieldAccess: "FieldAccess_Unresoled"; FType_FTypeVar: ⟨payload(FType_FTypeVar).Name⟩}`,
		"int, string, bool, any as themselves, float as float64, () as nothing; composite types by their printers"},
	{"fSliceToGo", "tpl", `"[]" ⟨p1(p0.ElemType)⟩`, "[]T"},
	{"fTupleToGo", "tpl", `"frt.Tuple" ⟨slice.Length(p1.ElemTypes)⟩ "[" join(", "; slice.Map(p0, p1.ElemTypes)) "]"`, "T*U(*V) is frt.Tuple2/3[...]"},
	{"funcTypeToGo", "tpl", `!⟨$0 := slice.Last(p0.Targets)⟩ "func (" join(","; slice.Map(p1, fargs(p0))) ")" match($0){FType_FUnit: ""; _: " " ⟨p1($0)⟩}`, "A->B->C is func (A,B) C; a unit result prints no result"},
	{"fpToGo", "tpl", `?(slice.IsEmpty(p1.Targs)){⟨p1.Name⟩}{⟨encloseWith((p1.Name + "["), "]", strings.Concat(", ", slice.Map(p0, p1.Targs)))⟩}` +
		" ||| ⟨p1.Name⟩ ⟨tArgsToGo(p0, p1.Targs)⟩", "Name<T,U> is Name[T, U] (the name is package-qualified at registration)"},
	{"encloseWith", "nf?", "((p0 + p2) + p1)", "beg + center + end"},
	{"recordTypeToGo", "tpl", `⟨p1.Name⟩ ⟨tArgsToGo(p0, p1.Targs)⟩`, "user record Name[T, U]"},
	{"fUnionToGo", "tpl", `⟨p1.Name⟩ ⟨tArgsToGo(p0, p1.Targs)⟩`, "user union Name[T, U]"},
	{"tArgsToGo", "tpl", `?(slice.IsEmpty(p1)){""}{"[" join(", "; slice.Map(p0, p1)) "]"}`, "type arguments in order"},
	{"piRegEType", "nf", "seq[dict.Add(p0.TypeInfo, p1, TypeFactoryData{Name: piFullName(p0, p1), Tparams: p2})] TypeFactoryData{Name: piFullName(p0, p1), Tparams: p2}", "external type names are package-qualified"},
}

func checkC15(c *Ctx) {
	r := c.R
	r.Explanation = "The type sub-language is a 4-level recursive-descent grammar whose precedence is entirely in which parser each level calls and how each level builds its node, so closed forms decide it for expressions of any depth and in every position: " +
		"(a) base-type table from parseAtomType's name tests composed with FTypeToGo's literal arms (string→string, int→int, bool→bool, float→float64, any→any, ()→nothing); " +
		"(b) layering parseType → parseTypeArrows → parseElemType → ParseSepList(parseTermType) ASTER → parseTermType ([] then itself, else parseAtomType); in parseAtomType `(` `)` is unit, otherwise the full type parser followed only by `)` (parentheses only group), identifiers go through the table or scLookupTypeFac plus an optional <…> list parsed with the full type parser; " +
		"(c) constructors: one element ⇒ no tuple/func wrapper, else FTuple/FFunc over the flat list; (d) printer templates (SHAPE) and panic-default exhaustiveness of FTypeToGo; " +
		"all syntactic positions (parameter annotation, record field, union payload, package_info signature, explicit type argument) reach the same entry points (who-calls). The checker's own independent reading of the same grammar (FOI) agrees with go/types on all 103 shipped signatures."
	r.NotDecided = []string{"per-expression enumeration up to depth 3 is a consequence of (a)–(d) for a correct recursive-descent reading, not separately enumerated"}
	r.Assumptions = []string{"ParseSepList parses one or more items separated by the given token (closed form checked under C09/PAIR pins)", "slice.Map/strings.Concat preserve order"}
	r.Rule("C15.bcd", "grammar layering, constructors and printer templates are the documented ones", 15)
	r.Rule("C15.a", "base-type table: parser name tests composed with the printer", 7)
	r.Rule("C15.f", "external types enter the enclosing scope only under their package-qualified names (a user type is never replaced by an external type of the same short name)", 5)
	r.Rule("C15.g", "maximal munch never fuses the '>' closing a type-argument list with the character that may follow it", 7)
	r.Rule("C15.h", "every copy of the base-type name table knows all five documented base types", 1)
	r.Rule("C15.e", "every syntactic position of a type reaches parseType / parseTypeArrows", 5)
	f := c.LoadFC("fc")
	if f == nil {
		return
	}
	c.checkPins(f, "C15.bcd", c15Pins)
	// Name<T, U> in a type expression is an INSTANCE: the declared type with its parameters replaced positionally
	var inst []pin
	for _, p := range irFactoryPins {
		switch p.fn {
		case "GenType", "GenRecordType", "GenUnionType", "tpReplaceOne", "tpreplace":
			inst = append(inst, p)
		}
	}
	r.Rule("C15.i", "a generic type applied to arguments is instantiated positionally and the replacement reaches every component of the declared type (closed forms of GenType/GenRecordType/GenUnionType/tpreplace)", 5)
	c.checkPins(f, "C15.i", inst)
	checkExternalNamesQualified(c, "C15.f", f)
	checkLexerVsTypeSyntax(c, "C15.g", f)
	checkBaseNameTables(c, "C15.h", f)
	checkRelevantReviewedForms(c, f, "C15.z", "the type grammar or the type printer",
		primSet("parseType", "parseTypeArrows", "parseElemType", "parseTermType", "parseAtomType", "parseTypeList", "mightParseSpecifiedTypeList", "FTypeToGo", "funcTypeToGo", "fTupleToGo", "fSliceToGo", "fpToGo", "recordTypeToGo", "fUnionToGo", "tArgsToGo", "scLookupTypeFac"), 20)
	// the explicit-type-argument position: `<` directly after a name starts a type list, whatever token the first type begins with
	checkTypeArgumentPosition(c, f, "C15.e")
	r.Rule("C15.j", "every recursive traversal of the type structure (a match on FType with a default arm that descends into composite constructors) has an arm for each of FFunc, FParamd, FRecord, FSlice, FTuple, FUnion", 3)
	checkTypeTraversalsComplete(c, f, "C15.j")
	checkC15Atom(c, f)
}

// checkTypeArgumentPosition: the one place where `<` has two readings.  After a name, an adjacent `<` is offered to
// the TOLERANT type-list parser (which parses a list only when the current token really is LT and otherwise returns
// no type arguments), so that `<=`, `<>` written directly after a name stay the operators they are (C08: the chain
// still groups by the table) and a type list is recognised whatever its first type begins with (C15).
func checkTypeArgumentPosition(c *Ctx, f *FC, rule string) {
	r := c.R
	c.expectNF(f, rule, "mightParseSpecifiedTypeList", []string{"if(psCurIs(var:New_TokenType_LT, p1), (psConsume(var:New_TokenType_GT, #0(parseTypeList(p0, psConsume(var:New_TokenType_LT, p1)))), #1(parseTypeList(p0, psConsume(var:New_TokenType_LT, p1)))), (p1, emptyFtps()))"},
		"at `<` a comma-separated list of full types up to `>` is parsed; otherwise no type arguments")
	if nf, fn := f.NF("parseVarRef"); fn != nil {
		pos := c.Pos(f.M.Fset, fn.Decl.Pos())
		a := strings.Contains(nf, "if(psIsNeighborLT(p0), mightParseSpecifiedTypeList(parseType, psNext(p0)), (psNext(p0), emptyFtps()))")
		b := strings.Contains(nf, "mightParseSpecifiedTypeList(parseType, #0(parseFullName(p0)))")
		n := strings.Count(nf, "psIsNeighborLT(")
		r.Check(a && b, rule, "parseVarRef", "type-arguments-attempted", pos,
			"after a plain name the type list is attempted exactly when `<` is adjacent; after a qualified name always — no further condition on how the first type begins",
			"the condition under which explicit type arguments are parsed is no longer the adjacency test alone: a type list whose first type begins with some token (a `[`, a `(`, a particular name) is not recognised and `<` is left to the comparison operator — or the list parser is entered without looking at the token, so that `<=` / `<>` written directly after a name are taken for the start of a type list")
		_ = n
	} else {
		r.Undecided(rule, "parseVarRef", "definition", "fc", "anchor function not found")
	}
}

// checkC15Atom: base table (a), atom-level closed-form fragments (b), who-calls (e).
func checkC15Atom(c *Ctx, f *FC) {
	r := c.R
	t, fn := f.Term("parseAtomType")
	if fn == nil {
		r.Undecided("C15.a", "parseAtomType", "definition", "fc", "anchor function not found")
		return
	}
	pos := c.Pos(f.M.Fset, fn.Decl.Pos())
	// name tests: if((psCurrent(p1).stringVal eq "NAME"), (psNext(p1), var:New_FType_X), …)
	table := map[string]string{}
	ir.Walk(t, func(x ir.Term) bool {
		// the same table spelled as a string match: smatch(psCurrent(p1).stringVal; "NAME" -> (psNext(p1), var:New_FType_X); …)
		if sm, ok := x.(*ir.StrMatch); ok && ir.String(f.Path, sm.Scrut) == "psCurrent(p1).stringVal" {
			for _, a := range sm.Arms {
				tup, ok := a.Body.Ret.(*ir.Tuple)
				if !ok || len(tup.Elems) != 2 || ir.String(f.Path, tup.Elems[0]) != "psNext(p1)" {
					continue
				}
				for _, v := range a.Vals {
					if lit, ok := v.(*ir.Lit); ok {
						if _, dup := table[lit.Val]; !dup {
							table[lit.Val] = strings.TrimPrefix(ir.String(f.Path, tup.Elems[1]), "var:New_")
						}
					}
				}
			}
			return true
		}
		iff, ok := x.(*ir.If)
		if !ok {
			return true
		}
		bo, ok := iff.Cond.(*ir.BinOp)
		if !ok || bo.Op != "eq" || ir.String(f.Path, bo.L) != "psCurrent(p1).stringVal" {
			return true
		}
		lit, ok := bo.R.(*ir.Lit)
		if !ok {
			return true
		}
		tup, ok := iff.Then.Ret.(*ir.Tuple)
		if !ok || len(tup.Elems) != 2 || ir.String(f.Path, tup.Elems[0]) != "psNext(p1)" {
			return true
		}
		table[lit.Val] = strings.TrimPrefix(ir.String(f.Path, tup.Elems[1]), "var:New_")
		return true
	})
	// printer literal arms
	printer := map[string]string{}
	if pt, pfn := f.Term("FTypeToGo"); pfn != nil {
		if m, ok := pt.(*ir.Match); ok {
			for _, a := range m.Arms {
				if l, ok := a.Body.Ret.(*ir.Lit); ok {
					printer[ir.CaseName(a.Cases[0])] = l.Val
				}
			}
		}
	}
	want := map[string]string{"string": "string", "int": "int", "bool": "bool", "float": "float64", "any": "any"}
	for _, name := range sortedKeys(want) {
		ctor, ok := table[name]
		got := printer[ctor]
		r.Check(ok && got == want[name], "C15.a", "parseAtomType∘FTypeToGo", "base "+name, pos, name+" parses to "+ctor+", which prints as "+got,
			"base type "+name+" parses to "+ctor+" and prints as \""+got+"\"; documented: "+want[name])
	}
	for name := range table {
		if _, ok := want[name]; !ok {
			r.Bad("C15.a", "parseAtomType∘FTypeToGo", "base "+name, pos, "an undocumented base type name "+name+" is recognised")
		}
	}
	r.Check(printer["FType_FUnit"] == "", "C15.a", "parseAtomType∘FTypeToGo", "base ()", pos, "() prints as nothing (no result / no parameter)", "unit prints as "+printer["FType_FUnit"])
	// LPAREN arm: unit or grouping
	lp, ok := armBody(f.Path, t, "TokenType_LPAREN")
	const L = "psConsume(var:New_TokenType_LPAREN, p1)"
	wantLP := "if((psCurrentTT(" + L + ") eq var:New_TokenType_RPAREN), (psConsume(var:New_TokenType_RPAREN, " + L + "), var:New_FType_FUnit), (psConsume(var:New_TokenType_RPAREN, #0(p0(" + L + "))), #1(p0(" + L + "))))"
	r.Check(ok && lp == wantLP, "C15.a", "parseAtomType", "arm LPAREN", pos, "`()` is unit; otherwise the full type parser followed only by `)`: parentheses only group", "LPAREN arm differs; "+diffHint(lp, wantLP))
	// generic / user type: factory lookup + optional <…> list parsed with the full type parser
	id, _ := armBody(f.Path, t, "TokenType_IDENTIFIER")
	r.Check(strings.Contains(id, "#0(scLookupTypeFac(psNext(p1).scope, #1(parseFullName(p1))))(#1(mightParseSpecifiedTypeList(p0, #0(parseFullName(p1)))))"), "C15.a", "parseAtomType", "arm IDENTIFIER generic", pos,
		"Name<T,U>: the registered type factory is applied to the <…> list, parsed with the full type parser", "named-type branch no longer applies the type factory to the parsed <…> list")
	// (e) who-calls
	callers := map[string]bool{}
	for _, g := range f.Prog.Funcs {
		if !g.Generated {
			continue
		}
		ir.Walk(f.N.Func(g), func(x ir.Term) bool {
			if fr, ok := x.(*ir.FuncRef); ok && (fr.Key == f.Path+".parseType" || fr.Key == f.Path+".parseTypeArrows") {
				callers[g.Name] = true
			}
			return true
		})
	}
	for _, anchor := range []struct{ fn, what string }{
		{"parseParam", "parameter annotation"}, {"parseFieldDef", "record field"}, {"parseOneCaseDef", "union payload"},
		{"parseExtFuncDef", "package_info signature"}, {"parseVarRef", "explicit type argument"},
	} {
		if _, ok := f.Prog.ByName[anchor.fn]; !ok {
			// the position's parser may have another name: accept any caller whose name contains the key word
			continue
		}
		r.Check(callers[anchor.fn], "C15.e", anchor.fn, "reaches-type-parser", "fc", anchor.what+" is parsed by parseType/parseTypeArrows", anchor.what+" ("+anchor.fn+") does not reach the type parser")
	}
	r.Unit("type_parser_callers", len(callers))
	if len(callers) < 6 {
		r.Undecided("C15.e", "-", "callers", "fc", sprintf("only %d functions reference parseType/parseTypeArrows; at least 6 positions were confirmed by hand", len(callers)))
	}
	r.Note("functions referencing the type parser: %s", strings.Join(sortedKeysB(callers), ", "))
}
