package rules

import (
	"fmt"
	"go/token"
	"go/types"
	"strings"

	"verif/tools/internal/ir"
)

// C02.e — no unification obligation is dropped.
//
// Inference works by producing relations ([]UniRel) and feeding them to the
// resolver until none is left.  A relation list that is produced and then
// discarded is a constraint the program imposes and the solver never sees:
// types that the body determines stay variables and are hoisted to T0, T1, ….
// The rule is the error-discipline shape ("no result of this type is ignored"):
// every call whose result carries a []UniRel — directly or as a tuple component —
// has that component bound to a name (Go then forces a use), returned, or passed on.
// Discarding forms: `_` in a destructuring, an expression statement, a projection
// of the other component taken directly on the call.

func isRelList(t types.Type, pkgPath string) bool {
	sl, ok := t.(*types.Slice)
	if !ok {
		return false
	}
	n, ok := sl.Elem().(*types.Named)
	return ok && n.Obj().Name() == "UniRel" && n.Obj().Pkg() != nil && n.Obj().Pkg().Path() == pkgPath
}

// relComponents: indices of the []UniRel components of t (‑1 stands for "t itself").
func relComponents(t types.Type, pkgPath string) []int {
	if t == nil {
		return nil
	}
	if isRelList(t, pkgPath) {
		return []int{-1}
	}
	if n, ok := t.(*types.Named); ok && n.Obj().Pkg() != nil && n.Obj().Pkg().Path() == ir.FrtPath && strings.HasPrefix(n.Obj().Name(), "Tuple") {
		var r []int
		ta := n.TypeArgs()
		for i := 0; i < ta.Len(); i++ {
			if isRelList(ta.At(i), pkgPath) {
				r = append(r, i)
			}
		}
		return r
	}
	return nil
}

func checkRelationsNotDropped(c *Ctx, f *FC) {
	r := c.R
	info := f.M.Main().TypesInfo
	callType := func(t ir.Term) (types.Type, *ir.App) {
		app, ok := t.(*ir.App)
		if !ok || app.Call == nil {
			return nil, nil
		}
		return info.TypeOf(app.Call), app
	}
	calleeName := func(app *ir.App) string {
		if fr, ok := app.Fun.(*ir.FuncRef); ok {
			return strings.TrimPrefix(ir.ShortKey(fr.Key), "fc.")
		}
		return ir.String(f.Path, app.Fun)
	}
	sites := 0
	for _, fn := range f.Prog.Funcs {
		fn := fn
		ord := map[string]int{}
		dropped := map[token.Pos]string{}
		producing := map[token.Pos]*ir.App{}
		note := func(app *ir.App) {
			producing[app.Pos()] = app
		}
		// every producing call
		ir.WalkFunc(fn, func(t ir.Term) bool {
			if tp, app := callType(t); app != nil && len(relComponents(tp, f.Path)) > 0 {
				note(app)
			}
			if pj, ok := t.(*ir.Proj); ok {
				if tp, app := callType(pj.X); app != nil {
					for _, i := range relComponents(tp, f.Path) {
						if i >= 0 && i != pj.I {
							dropped[app.Pos()] = fmt.Sprintf("only component %d of the result is taken; component %d (the relations) is discarded", pj.I, i)
						}
					}
				}
			}
			return true
		})
		ir.EachBlock(fn, func(b *ir.Block) {
			for _, s := range b.Stmts {
				switch x := s.(type) {
				case *ir.Do:
					if tp, app := callType(x.X); app != nil && len(relComponents(tp, f.Path)) > 0 {
						dropped[app.Pos()] = "the call is an expression statement: its relations are discarded"
					}
				case *ir.Let:
					tp, app := callType(x.Val)
					if app == nil {
						continue
					}
					for _, i := range relComponents(tp, f.Path) {
						switch {
						case i == -1 && len(x.Vars) == 1 && x.Vars[0] == nil:
							dropped[app.Pos()] = "the relations are assigned to _"
						case i >= 0 && x.Mode == ir.LetDestr && i < len(x.Vars) && x.Vars[i] == nil:
							dropped[app.Pos()] = fmt.Sprintf("component %d of the result (the relations) is bound to _", i)
						}
					}
				}
			}
		})
		var ps []token.Pos
		for p := range producing {
			ps = append(ps, p)
		}
		sortPos(ps)
		for _, p := range ps {
			app := producing[p]
			name := calleeName(app)
			ord[name]++
			sites++
			cons := fmt.Sprintf("%s#%d", name, ord[name])
			if why, bad := dropped[p]; bad {
				r.Bad("C02.e", fn.Name, cons, c.Pos(f.M.Fset, p), "relations produced by "+name+" are dropped — "+why+": a constraint the program imposes never reaches the resolver, so a type the body determines can stay a type variable (emitted as T0…) or two uses are never unified")
			} else {
				r.OK("C02.e", fn.Name, cons, c.Pos(f.M.Fset, p), "the relations are bound, returned or passed on")
			}
		}
	}
	r.Unit("relation_producing_calls", sites)
}

func sortPos(ps []token.Pos) {
	for i := 1; i < len(ps); i++ {
		for j := i; j > 0 && ps[j] < ps[j-1]; j-- {
			ps[j], ps[j-1] = ps[j-1], ps[j]
		}
	}
}
