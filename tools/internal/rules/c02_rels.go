package rules

import (
	"fmt"
	"go/token"
	"go/types"
	"strings"

	"verif/tools/internal/ir"
)

// C02.e — no unification obligation is dropped.
//
// Inference works by producing relations ([]UniRel) and feeding them to the
// resolver until none is left.  A relation list that is produced and then
// discarded is a constraint the program imposes and the solver never sees:
// types that the body determines stay variables and are hoisted to T0, T1, ….
// The rule is the error-discipline shape ("no result of this type is ignored"):
// every call whose result carries a []UniRel — directly or as a tuple component —
// has that component bound to a name (Go then forces a use), returned, or passed on.
// Discarding forms: `_` in a destructuring, an expression statement, a projection
// of the other component taken directly on the call.

func isRelList(t types.Type, pkgPath string) bool {
	sl, ok := t.(*types.Slice)
	if !ok {
		return false
	}
	n, ok := sl.Elem().(*types.Named)
	return ok && n.Obj().Name() == "UniRel" && n.Obj().Pkg() != nil && n.Obj().Pkg().Path() == pkgPath
}

// relComponents: indices of the []UniRel components of t (‑1 stands for "t itself").
func relComponents(t types.Type, pkgPath string) []int {
	if t == nil {
		return nil
	}
	if isRelList(t, pkgPath) {
		return []int{-1}
	}
	if n, ok := t.(*types.Named); ok && n.Obj().Pkg() != nil && n.Obj().Pkg().Path() == ir.FrtPath && strings.HasPrefix(n.Obj().Name(), "Tuple") {
		var r []int
		ta := n.TypeArgs()
		for i := 0; i < ta.Len(); i++ {
			if isRelList(ta.At(i), pkgPath) {
				r = append(r, i)
			}
		}
		return r
	}
	return nil
}

func checkRelationsNotDropped(c *Ctx, f *FC) {
	checkResultsNotDropped(c, f, "C02.e", func(t types.Type) []int { return relComponents(t, f.Path) }, "relation list",
		"a constraint the program imposes never reaches the resolver, so a type the body determines can stay a type variable (emitted as T0…) or two uses are never unified", "relation_producing_calls")
}

// checkResultsNotDropped: the error-discipline rule for a result type that carries an obligation.
// droppedResultExceptions: rule|function|callee -> reason
var droppedResultExceptions = map[string]string{
	"PAIR.drop|transpileFiles|slice.Fold": "the state after the last file is not needed: the run ends",
}

func checkResultsNotDropped(c *Ctx, f *FC, rule string, components func(types.Type) []int, noun, consequence, unit string) {
	r := c.R
	info := f.M.Main().TypesInfo
	callType := func(t ir.Term) (types.Type, *ir.App) {
		app, ok := t.(*ir.App)
		if !ok || app.Call == nil {
			return nil, nil
		}
		return info.TypeOf(app.Call), app
	}
	calleeName := func(app *ir.App) string {
		if fr, ok := app.Fun.(*ir.FuncRef); ok {
			return strings.TrimPrefix(ir.ShortKey(fr.Key), "fc.")
		}
		return ir.String(f.Path, app.Fun)
	}
	sites := 0
	for _, fn := range f.Prog.Funcs {
		fn := fn
		ord := map[string]int{}
		dropped := map[token.Pos]string{}
		producing := map[token.Pos]*ir.App{}
		note := func(app *ir.App) {
			producing[app.Pos()] = app
		}
		// every producing call
		ir.WalkFunc(fn, func(t ir.Term) bool {
			if tp, app := callType(t); app != nil && len(components(tp)) > 0 {
				note(app)
			}
			if pj, ok := t.(*ir.Proj); ok {
				if tp, app := callType(pj.X); app != nil {
					for _, i := range components(tp) {
						if i >= 0 && i != pj.I {
							dropped[app.Pos()] = fmt.Sprintf("only component %d of the result is taken; component %d (the "+noun+") is discarded", pj.I, i)
						}
					}
				}
			}
			return true
		})
		ir.EachBlock(fn, func(b *ir.Block) {
			for _, s := range b.Stmts {
				switch x := s.(type) {
				case *ir.Do:
					if tp, app := callType(x.X); app != nil && len(components(tp)) > 0 {
						dropped[app.Pos()] = "the call is an expression statement: the " + noun + " is discarded"
					}
				case *ir.Let:
					tp, app := callType(x.Val)
					if app == nil {
						continue
					}
					for _, i := range components(tp) {
						switch {
						case i == -1 && len(x.Vars) == 1 && x.Vars[0] == nil:
							dropped[app.Pos()] = "the " + noun + " is assigned to _"
						case i >= 0 && x.Mode == ir.LetDestr && i < len(x.Vars) && x.Vars[i] == nil:
							dropped[app.Pos()] = fmt.Sprintf("component %d of the result (the "+noun+") is bound to _", i)
						}
					}
				}
			}
		})
		var ps []token.Pos
		for p := range producing {
			ps = append(ps, p)
		}
		sortPos(ps)
		for _, p := range ps {
			app := producing[p]
			name := calleeName(app)
			ord[name]++
			sites++
			cons := fmt.Sprintf("%s#%d", name, ord[name])
			why, bad := dropped[p]
			if bad {
				if ex, ok := droppedResultExceptions[rule+"|"+fn.Name+"|"+name]; ok {
					r.OK(rule, fn.Name, cons, c.Pos(f.M.Fset, p), "frozen exception: "+ex)
					continue
				}
				// a callee that returns its own argument unchanged: nothing is lost by not taking the result
				if fr, ok := app.Fun.(*ir.FuncRef); ok {
					if g, ok := f.Prog.ByKey[fr.Key]; ok {
						nf := f.N.Func(g)
						if sq, ok := nf.(*ir.Seq); ok {
							nf = sq.Ret
						}
						if pr, ok := nf.(*ir.Param); ok && len(components(pr.Obj.Type())) > 0 {
							r.OK(rule, fn.Name, cons, c.Pos(f.M.Fset, p), name+" returns its own argument "+pr.Obj.Name()+" unchanged; not taking the result loses nothing")
							continue
						}
					}
				}
			}
			if bad {
				r.Bad(rule, fn.Name, cons, c.Pos(f.M.Fset, p), "the "+noun+" produced by "+name+" is dropped — "+why+": "+consequence)
			} else {
				r.OK(rule, fn.Name, cons, c.Pos(f.M.Fset, p), "the "+noun+" is bound, returned or passed on")
			}
		}
	}
	r.Unit(unit, sites)
}

func sortPos(ps []token.Pos) {
	for i := 1; i < len(ps); i++ {
		for j := i; j > 0 && ps[j] < ps[j-1]; j-- {
			ps[j], ps[j-1] = ps[j-1], ps[j]
		}
	}
}

// C02.f — each record/union instance is handled once per traversal, and correctly.
//
// The FType traversals reach a union's cases and a record's fields through a global table, so a
// recursive type would loop; a per-traversal table cuts the cycle.  Two ways to get it wrong were
// both present in the unchanged tree (§4 #19, #20): a key that does not identify the *instance*
// (Opt<Opt<T>>: the inner instance is taken for a recursive occurrence), and a hit that returns the
// untranslated input for a *sibling* occurrence (Opt<A> * Opt<B>).  Decided:
//
//	(1) every key handed to SSetHasKey/SSetPut/TMemoTryFind/TMemoPut is uniToKey / rtToKey of the
//	    arm's payload (name and type arguments; closed forms pinned);
//	(2) a *visited set* (hit ⇒ skip) is used only where skipping a repeated instance loses nothing:
//	    the hit branch yields the empty list (the results are concatenated and deduplicated later);
//	(3) a *memo* (TMemo) follows the placeholder discipline, read off the un-normalised blocks:
//	    the hit branch returns the looked-up value; the miss branch first stores the traversal's own
//	    input under the key (a recursive occurrence gets the original type and ends the recursion),
//	    and before returning stores the value it returns (a sibling occurrence gets the translation).
var guardPins = map[string]string{
	"SSetHasKey":   "#1(dict.TryFind(p0.Dict, p1))",
	"SSetPut":      "seq[dict.Add(p0.Dict, p1, true)]",
	"NewSSet":      "SSet{Dict: dict.New()}",
	"NewTMemo":     "TMemo{Dict: dict.New()}",
	"TMemoTryFind": "dict.TryFind(p0.Dict, p1)",
	"TMemoPut":     "seq[dict.Add(p0.Dict, p1, p2)]",
	"uniToKey":     "encodedKey(p0.Name, p0.Targs)",
	"rtToKey":      "encodedKey(p0.Name, p0.Targs)",
	"encodedKey":   `frt.SInterP("%s_%s", p0, strings.Concat("_", slice.Map(FTypeToGo, p1)))`,
}

func checkGuardDiscipline(c *Ctx, f *FC) {
	r := c.R
	for _, name := range sortedKeys(guardPins) {
		c.expectNF(f, "C02.f", name, []string{guardPins[name]}, "closed form of the visited-set / memo primitive")
	}
	callTo := func(t ir.Term, name string) *ir.App {
		app, ok := isCallTo(t, f.Path+"."+name)
		if !ok {
			return nil
		}
		return app
	}
	prims := []string{"SSetHasKey", "SSetPut", "TMemoTryFind", "TMemoPut"}
	sites := 0
	for _, fn := range f.Prog.Funcs {
		fn := fn
		if _, isPrim := guardPins[fn.Name]; isPrim {
			continue
		}
		pos := c.Pos(f.M.Fset, fn.Decl.Pos())
		nf := f.N.Func(fn)
		// (1) keys, on the normal form (the key is inlined there)
		keyN := map[string]int{}
		ir.Walk(nf, func(t ir.Term) bool {
			for _, prim := range prims {
				app := callTo(t, prim)
				if app == nil || len(app.Args) < 2 {
					continue
				}
				k := ir.String(f.Path, app.Args[1])
				inst := false
				if ka, ok := app.Args[1].(*ir.App); ok && len(ka.Args) == 1 {
					if fr, ok := ka.Fun.(*ir.FuncRef); ok && (fr.Key == f.Path+".uniToKey" || fr.Key == f.Path+".rtToKey") {
						if _, ok := ka.Args[0].(*ir.Payload); ok {
							inst = true
						}
					}
				}
				keyN[prim]++
				sites++
				r.Check(inst, "C02.f", fn.Name, sprintf("%s-key#%d", prim, keyN[prim]), pos, "keyed by the instance: "+k,
					"the table is keyed by "+k+", which does not identify the instance (name and type arguments): another instance of the same generic type inside the guarded subtree (the inner Opt<T> of Opt<Opt<T>>) is taken for a recursive occurrence and skipped")
			}
			return true
		})
		// (2) visited sets: hit => empty list
		nv := 0
		ir.Walk(nf, func(t ir.Term) bool {
			iff, ok := t.(*ir.If)
			if !ok || callTo(iff.Cond, "SSetHasKey") == nil {
				return true
			}
			nv++
			hit := ir.String(f.Path, iff.Then.Ret)
			r.Check(hit == "slice.New()" || hit == "[]", "C02.f", fn.Name, sprintf("visited-hit#%d", nv), pos,
				"a repeated instance contributes the empty list: skipping it loses nothing (the results are concatenated and deduplicated)",
				"on a repeated instance the traversal yields "+short(hit, 80)+" instead of the neutral element: a visited set that is never cleared may only be used where skipping loses nothing — for a translation, a sibling occurrence (Opt<A> * Opt<B>) would come back untranslated")
			return true
		})
		// (3) memo discipline on the un-normalised blocks
		nm := 0
		ir.EachBlock(fn, func(b *ir.Block) {
			// find `a, ok := frt.Destr2(TMemoTryFind(M, K))` followed by an if on ok
			for i, st := range b.Stmts {
				let, ok := st.(*ir.Let)
				if !ok || let.Mode != ir.LetDestr || len(let.Vars) != 2 || let.Vars[0] == nil || let.Vars[1] == nil {
					continue
				}
				look := callTo(let.Val, "TMemoTryFind")
				if look == nil || len(look.Args) != 2 {
					continue
				}
				nm++
				cons := sprintf("memo#%d", nm)
				mk := ir.String(f.Path, look.Args[0]) + ", " + ir.String(f.Path, look.Args[1])
				var problems []string
				// the conditional on ok is the rest of the block
				var iff *ir.If
				rest := b.Stmts[i+1:]
				if len(rest) == 0 {
					iff, _ = b.Ret.(*ir.If)
				}
				if iff == nil || iff.Else == nil {
					r.Undecided("C02.f", fn.Name, cons, pos, "the memo lookup is not followed directly by `if ok then … else …` as the block's result")
					continue
				}
				if lc, ok := iff.Cond.(*ir.Local); !ok || lc.Obj != let.Vars[1] {
					problems = append(problems, "the branch is not taken on the lookup's ok flag")
				}
				if lc, ok := iff.Then.Ret.(*ir.Local); !ok || lc.Obj != let.Vars[0] || len(iff.Then.Stmts) != 0 {
					problems = append(problems, "the hit branch does not return the looked-up value (a sibling occurrence of a finished instance must get its translation)")
				}
				eb := iff.Else
				// first statement: TMemoPut(M, K, <traversal input>)
				first := (*ir.App)(nil)
				if len(eb.Stmts) > 0 {
					if d, ok := eb.Stmts[0].(*ir.Do); ok {
						first = callTo(d.X, "TMemoPut")
					}
				}
				if first == nil || len(first.Args) != 3 || ir.String(f.Path, first.Args[0])+", "+ir.String(f.Path, first.Args[1]) != mk {
					problems = append(problems, "the miss branch does not start by storing a placeholder under the same key (a recursive occurrence would not end the recursion)")
				} else if _, isParam := first.Args[2].(*ir.Param); !isParam {
					problems = append(problems, "the placeholder is not the traversal's own input")
				}
				// last: TMemoPut(M, K, res) with res the returned local
				n := len(eb.Stmts)
				last := (*ir.App)(nil)
				if n >= 2 {
					if d, ok := eb.Stmts[n-1].(*ir.Do); ok {
						last = callTo(d.X, "TMemoPut")
					}
				}
				retL, _ := eb.Ret.(*ir.Local)
				if last == nil || len(last.Args) != 3 || ir.String(f.Path, last.Args[0])+", "+ir.String(f.Path, last.Args[1]) != mk {
					problems = append(problems, "the miss branch does not store its result under the same key before returning (a later sibling occurrence would get the untranslated placeholder)")
				} else if lc, ok := last.Args[2].(*ir.Local); !ok || retL == nil || lc.Obj != retL.Obj {
					problems = append(problems, "the value stored last is not the value returned")
				}
				if len(problems) == 0 {
					r.OK("C02.f", fn.Name, cons, pos, "placeholder discipline: hit returns the stored value; miss stores the input first and the result last ("+mk+")")
				} else {
					r.Bad("C02.f", fn.Name, cons, pos, strings.Join(problems, "; "))
				}
			}
		})
		// every TMemoTryFind of the function was seen in that shape
		total := 0
		ir.WalkFunc(fn, func(t ir.Term) bool {
			if callTo(t, "TMemoTryFind") != nil {
				total++
			}
			return true
		})
		if total > nm {
			r.Undecided("C02.f", fn.Name, "memo-lookup-shape", pos, sprintf("%d memo lookup(s) are not of the form `let (v, ok) = TMemoTryFind m k` heading a block", total-nm))
		}
	}
	r.Unit("guard_and_memo_key_sites", sites)
	if sites < 8 {
		r.Undecided("C02.f", "-", "sites", "fc", sprintf("%d visited-set/memo operations found; the record and union arms of collectTVarFTypeWithSet and transTVFTypeWithSet (8+) were confirmed by hand", sites))
	}
}

// C02.a2 — the sibling traversals agree on the components they visit, arm by arm.
//
// collectTVarFTypeWithSet decides which type variables exist (they are hoisted to T0, T1, …) and
// transTVFTypeWithSet substitutes them.  A type-carrying component of a constructor that one of them
// visits and the other does not is a variable that is substituted but never hoisted, or hoisted but
// never substituted.  For every arm of the two functions the set of visited components is computed from
// the normal form (helpers that receive the payload are inlined): the payload's fields of type FType or
// []FType, plus "#info" when the arm unfolds the named type through the global table
// (lookupRecInfo / utCases).  The two sets must be equal.
func checkSiblingComponents(c *Ctx, f *FC) {
	r := c.R
	funcs := []string{"collectTVarFTypeWithSet", "transTVFTypeWithSet"}
	sc := f.M.Main().Types.Scope()
	ft, _ := sc.Lookup("FType").(*types.TypeName)
	if ft == nil {
		r.Undecided("C02.a2", "FType", "definition", "fc", "anchor type not found")
		return
	}
	carries := func(t types.Type) bool {
		if n, ok := t.(*types.Named); ok && n.Obj() == ft {
			return true
		}
		if sl, ok := t.(*types.Slice); ok {
			if n, ok := sl.Elem().(*types.Named); ok && n.Obj() == ft {
				return true
			}
		}
		return false
	}
	comps := map[string]map[string]map[string]bool{} // func -> arm -> components
	for _, name := range funcs {
		fn, ok := f.Prog.ByName[name]
		if !ok {
			r.Undecided("C02.a2", name, "definition", "fc", "anchor function not found")
			return
		}
		// inline helpers that receive the payload
		n := ir.NewNormalizer()
		for k, v := range f.N.Inline {
			n.Inline[k] = v
		}
		var nf ir.Term
		for round := 0; round < 3; round++ {
			n2 := ir.NewNormalizer()
			for k, v := range n.Inline {
				n2.Inline[k] = v
			}
			nf = n2.Func(fn)
			added := false
			ir.Walk(nf, func(t ir.Term) bool {
				app, ok := t.(*ir.App)
				if !ok {
					return true
				}
				fr, ok := app.Fun.(*ir.FuncRef)
				if !ok {
					return true
				}
				g, ok := f.Prog.ByKey[fr.Key]
				if !ok || g == fn || n.Inline[g.Key] != nil || g.Name == "lookupRecInfo" || g.Name == "utCases" || g.Name == "rtToKey" || g.Name == "uniToKey" {
					return true
				}
				for _, a := range app.Args {
					if _, ok := a.(*ir.Payload); ok {
						n.Inline[g.Key] = g
						added = true
					}
				}
				return true
			})
			if !added {
				break
			}
		}
		m, ok := nf.(*ir.Match)
		if !ok {
			r.Undecided("C02.a2", name, "shape", "fc", "the function is not a single match over FType")
			return
		}
		comps[name] = map[string]map[string]bool{}
		for _, arm := range m.Arms {
			an := strings.TrimPrefix(ir.CaseName(arm.Cases[0]), "FType_")
			set := map[string]bool{}
			ir.Walk(arm.Body.Ret, func(t ir.Term) bool {
				switch x := t.(type) {
				case *ir.Field:
					if p, ok := x.X.(*ir.Payload); ok && p.Of == arm.Binder && x.Obj != nil && carries(x.Obj.Type()) {
						set[x.Name] = true
					}
				case *ir.App:
					if fr, ok := x.Fun.(*ir.FuncRef); ok && (fr.Key == f.Path+".lookupRecInfo" || fr.Key == f.Path+".utCases") && len(x.Args) == 1 {
						if p, ok := x.Args[0].(*ir.Payload); ok && p.Of == arm.Binder {
							set["#info"] = true
						}
					}
				}
				return true
			})
			comps[name][an] = set
		}
	}
	a, b := comps[funcs[0]], comps[funcs[1]]
	arms := map[string]bool{}
	for k := range a {
		arms[k] = true
	}
	for k := range b {
		arms[k] = true
	}
	n := 0
	for _, arm := range sortedKeysB(arms) {
		sa, sb := sortedKeysB(a[arm]), sortedKeysB(b[arm])
		if len(sa) == 0 && len(sb) == 0 {
			continue
		}
		n++
		r.Check(strings.Join(sa, ",") == strings.Join(sb, ","), "C02.a2", "FType_"+arm, "components", "fc/gen_ast_util.go",
			"both traversals visit {"+strings.Join(sa, ", ")+"}",
			funcs[0]+" visits {"+strings.Join(sa, ", ")+"} but "+funcs[1]+" visits {"+strings.Join(sb, ", ")+"}: a type variable in a component only one of them visits is substituted but never hoisted to a type parameter, or hoisted but never substituted (type Tag<T> = | MkTag of int: the T of Tag<_T1> appears only in the type arguments)")
	}
	if n < 5 {
		r.Undecided("C02.a2", "-", "arms", "fc", sprintf("%d component-carrying arms compared; 7 were confirmed by hand", n))
	}
}

// C02.c2 — a type-variable generator that is handed to a function is used by it.
// Fresh instantiation (every reference to a generic function, every literal of a generic record gets its own
// inference variables) is implemented by threading a generator `() -> TypeVar`.  A function that receives the
// generator and neither applies it nor passes it on has stopped instantiating freshly — typically by reusing
// the declared type-parameter names, which conflates two uses inside one definition.
var generatorExceptions = map[string]string{
	"emptyVarFac": "the placeholder factory returned by a failed lookup; it panics when called",
}

func checkGeneratorsUsed(c *Ctx, f *FC) {
	r := c.R
	isGen := func(t types.Type) bool {
		sig, ok := t.Underlying().(*types.Signature)
		if !ok || sig.Params().Len() != 0 || sig.Results().Len() != 1 {
			return false
		}
		n, ok := sig.Results().At(0).Type().(*types.Named)
		return ok && n.Obj().Name() == "TypeVar" && n.Obj().Pkg() != nil && n.Obj().Pkg().Path() == f.Path
	}
	n := 0
	for _, fn := range f.Prog.Funcs {
		if !fn.Generated {
			continue
		}
		for i, p := range fn.Params {
			if !isGen(p.Type()) {
				continue
			}
			n++
			used := false
			ir.Walk(f.N.Func(fn), func(t ir.Term) bool {
				if pr, ok := t.(*ir.Param); ok && pr.Idx == i {
					used = true
				}
				return !used
			})
			if why, ok := generatorExceptions[fn.Name]; ok && !used {
				r.OK("C02.c2", fn.Name, "generator "+p.Name(), c.Pos(f.M.Fset, fn.Decl.Pos()), "frozen exception: "+why)
				continue
			}
			r.Check(used, "C02.c2", fn.Name, "generator "+p.Name(), c.Pos(f.M.Fset, fn.Decl.Pos()),
				"the type-variable generator is applied or passed on",
				"the type-variable generator "+p.Name()+" is received but never applied nor passed on: this instantiation no longer draws fresh inference variables, so two uses inside one definition share their variables (two literals of a generic record at different types are unified with each other)")
		}
	}
	r.Unit("generator_parameters", n)
	if n < 10 {
		r.Undecided("C02.c2", "-", "sites", "fc", sprintf("%d generator parameters found; at least 10 were confirmed by hand", n))
	}
}

// C02.c3 — a fresh type variable is drawn per element, not once for a whole list.
// Where the types of several binders (the names of a destructuring let, parameters, type parameters) are produced by
// mapping over the list of names, the generator must be applied inside the mapped function.  A partial application
// `slice.Map (f (gen ())) names` evaluates `gen ()` once (fc's closures evaluate supplied arguments at each call, but
// the *normal form* shows where the source put the application): every element then shares one inference variable
// and the components of `let (a, b) = p` are forced to one type.
func checkFreshPerElement(c *Ctx, f *FC) {
	r := c.R
	info := f.M.Main().TypesInfo
	isTV := func(t types.Type) bool {
		n, ok := t.(*types.Named)
		return ok && n.Obj().Name() == "TypeVar" && n.Obj().Pkg() != nil && n.Obj().Pkg().Path() == f.Path
	}
	isGen := func(t types.Type) bool {
		sig, ok := t.Underlying().(*types.Signature)
		return ok && sig.Params().Len() == 0 && sig.Results().Len() == 1 && isTV(sig.Results().At(0).Type())
	}
	// drawing functions: they apply a generator parameter in their own body, outside any lambda
	drawing := map[string]bool{}
	for _, fn := range f.Prog.Funcs {
		for i, p := range fn.Params {
			if !isGen(p.Type()) {
				continue
			}
			found := false
			ir.WalkFunc(fn, func(t ir.Term) bool {
				if _, isLam := t.(*ir.Lam); isLam {
					return false
				}
				if app, ok := t.(*ir.App); ok && len(app.Args) == 0 {
					if pr, ok := app.Fun.(*ir.Param); ok && pr.Idx == i {
						found = true
					}
				}
				return !found
			})
			if found {
				drawing[fn.Key] = true
			}
		}
	}
	draws := func(t ir.Term) bool {
		found := false
		ir.Walk(t, func(x ir.Term) bool {
			if _, isLam := x.(*ir.Lam); isLam {
				return false // inside a lambda the application happens per call
			}
			if app, ok := x.(*ir.App); ok {
				if len(app.Args) == 0 && app.Call != nil && isTV(info.TypeOf(app.Call)) {
					found = true
				}
				if fr, ok := app.Fun.(*ir.FuncRef); ok && drawing[fr.Key] {
					found = true
				}
			}
			return !found
		})
		return found
	}
	mentions := func(t ir.Term, v *types.Var) bool {
		found := false
		ir.Walk(t, func(x ir.Term) bool {
			if lc, ok := x.(*ir.Local); ok && lc.Obj == v {
				found = true
			}
			return !found
		})
		return found
	}
	sites, maps := 0, 0
	for _, fn := range f.Prog.Funcs {
		if !fn.Generated {
			continue
		}
		fn := fn
		// variables holding something drawn once, and let-bound function values
		once := map[*types.Var]ir.Term{}
		fvals := map[*types.Var]ir.Term{}
		ir.EachBlock(fn, func(b *ir.Block) {
			for _, st := range b.Stmts {
				let, ok := st.(*ir.Let)
				if !ok || len(let.Vars) != 1 || let.Vars[0] == nil {
					continue
				}
				switch let.Val.(type) {
				case *ir.Lam, *ir.PApp:
					fvals[let.Vars[0]] = let.Val
				}
				if draws(let.Val) {
					once[let.Vars[0]] = let.Val
				}
			}
		})
		n := 0
		ir.WalkFunc(fn, func(t ir.Term) bool {
			app, ok := t.(*ir.App)
			if !ok || len(app.Args) != 2 {
				return true
			}
			fr, ok := app.Fun.(*ir.FuncRef)
			if !ok || (fr.Key != slicePath+".Map" && fr.Key != slicePath+".Mapi" && fr.Key != slicePath+".Collect") {
				return true
			}
			maps++
			fv := app.Args[0]
			if lc, ok := fv.(*ir.Local); ok {
				if v, ok := fvals[lc.Obj]; ok {
					fv = v
				}
			}
			// a partial application that itself draws in a supplied argument
			if pa, ok := fv.(*ir.PApp); ok {
				for _, a := range pa.First {
					if draws(a) {
						n++
						sites++
						r.Bad("C02.c3", fn.Name, sprintf("shared-variable#%d", n), c.Pos(f.M.Fset, fn.Decl.Pos()),
							"a fresh type variable is drawn in the supplied argument "+short(ir.String(f.Path, a), 80)+" of the function mapped over "+short(ir.String(f.Path, app.Args[1]), 60)+": the source asks for one variable shared by every element")
					}
				}
			}
			for v, val := range once {
				if mentions(fv, v) {
					n++
					sites++
					r.Bad("C02.c3", fn.Name, sprintf("shared-variable#%d", n), c.Pos(f.M.Fset, fn.Decl.Pos()),
						"the variable "+v.Name()+" holds a type variable drawn once ("+short(ir.String(f.Path, val), 80)+") and is used inside the function mapped over "+short(ir.String(f.Path, app.Args[1]), 60)+": every element shares that one inference variable, so the element types are unified with each other (the components of `let (a, b) = p` get one type)")
				}
			}
			return true
		})
	}
	r.Unit("maps_examined_for_shared_variables", maps)
	if sites == 0 {
		r.OK("C02.c3", "fc", "no-shared-variable", "fc", sprintf("%d applications of slice.Map/Mapi/Collect examined: no mapped function uses a type variable that was drawn once outside it", maps))
	}
	if maps < 100 {
		r.Undecided("C02.c3", "-", "sites", "fc", sprintf("only %d applications of slice.Map/Mapi/Collect found in fc", maps))
	}
}
