package rules

import (
	"fmt"
	"go/token"
	"go/types"
	"strings"

	"verif/tools/internal/ir"
)

// C02.e — no unification obligation is dropped.
//
// Inference works by producing relations ([]UniRel) and feeding them to the
// resolver until none is left.  A relation list that is produced and then
// discarded is a constraint the program imposes and the solver never sees:
// types that the body determines stay variables and are hoisted to T0, T1, ….
// The rule is the error-discipline shape ("no result of this type is ignored"):
// every call whose result carries a []UniRel — directly or as a tuple component —
// has that component bound to a name (Go then forces a use), returned, or passed on.
// Discarding forms: `_` in a destructuring, an expression statement, a projection
// of the other component taken directly on the call.

func isRelList(t types.Type, pkgPath string) bool {
	sl, ok := t.(*types.Slice)
	if !ok {
		return false
	}
	n, ok := sl.Elem().(*types.Named)
	return ok && n.Obj().Name() == "UniRel" && n.Obj().Pkg() != nil && n.Obj().Pkg().Path() == pkgPath
}

// relComponents: indices of the []UniRel components of t (‑1 stands for "t itself").
func relComponents(t types.Type, pkgPath string) []int {
	if t == nil {
		return nil
	}
	if isRelList(t, pkgPath) {
		return []int{-1}
	}
	if n, ok := t.(*types.Named); ok && n.Obj().Pkg() != nil && n.Obj().Pkg().Path() == ir.FrtPath && strings.HasPrefix(n.Obj().Name(), "Tuple") {
		var r []int
		ta := n.TypeArgs()
		for i := 0; i < ta.Len(); i++ {
			if isRelList(ta.At(i), pkgPath) {
				r = append(r, i)
			}
		}
		return r
	}
	return nil
}

func checkRelationsNotDropped(c *Ctx, f *FC) {
	checkResultsNotDropped(c, f, "C02.e", func(t types.Type) []int { return relComponents(t, f.Path) }, "relation list",
		"a constraint the program imposes never reaches the resolver, so a type the body determines can stay a type variable (emitted as T0…) or two uses are never unified", "relation_producing_calls")
}

// checkResultsNotDropped: the error-discipline rule for a result type that carries an obligation.
// droppedResultExceptions: rule|function|callee -> reason
var droppedResultExceptions = map[string]string{
	"PAIR.drop|transpileFiles|slice.Fold": "the state after the last file is not needed: the run ends",
}

func checkResultsNotDropped(c *Ctx, f *FC, rule string, components func(types.Type) []int, noun, consequence, unit string) {
	r := c.R
	info := f.M.Main().TypesInfo
	callType := func(t ir.Term) (types.Type, *ir.App) {
		app, ok := t.(*ir.App)
		if !ok || app.Call == nil {
			return nil, nil
		}
		return info.TypeOf(app.Call), app
	}
	calleeName := func(app *ir.App) string {
		if fr, ok := app.Fun.(*ir.FuncRef); ok {
			return strings.TrimPrefix(ir.ShortKey(fr.Key), "fc.")
		}
		return ir.String(f.Path, app.Fun)
	}
	sites := 0
	for _, fn := range f.Prog.Funcs {
		fn := fn
		ord := map[string]int{}
		dropped := map[token.Pos]string{}
		producing := map[token.Pos]*ir.App{}
		note := func(app *ir.App) {
			producing[app.Pos()] = app
		}
		// every producing call
		ir.WalkFunc(fn, func(t ir.Term) bool {
			if tp, app := callType(t); app != nil && len(components(tp)) > 0 {
				note(app)
			}
			if pj, ok := t.(*ir.Proj); ok {
				if tp, app := callType(pj.X); app != nil {
					for _, i := range components(tp) {
						if i >= 0 && i != pj.I {
							dropped[app.Pos()] = fmt.Sprintf("only component %d of the result is taken; component %d (the "+noun+") is discarded", pj.I, i)
						}
					}
				}
			}
			return true
		})
		ir.EachBlock(fn, func(b *ir.Block) {
			for _, s := range b.Stmts {
				switch x := s.(type) {
				case *ir.Do:
					if tp, app := callType(x.X); app != nil && len(components(tp)) > 0 {
						dropped[app.Pos()] = "the call is an expression statement: the " + noun + " is discarded"
					}
				case *ir.Let:
					tp, app := callType(x.Val)
					if app == nil {
						continue
					}
					for _, i := range components(tp) {
						switch {
						case i == -1 && len(x.Vars) == 1 && x.Vars[0] == nil:
							dropped[app.Pos()] = "the " + noun + " is assigned to _"
						case i >= 0 && x.Mode == ir.LetDestr && i < len(x.Vars) && x.Vars[i] == nil:
							dropped[app.Pos()] = fmt.Sprintf("component %d of the result (the "+noun+") is bound to _", i)
						}
					}
				}
			}
		})
		var ps []token.Pos
		for p := range producing {
			ps = append(ps, p)
		}
		sortPos(ps)
		for _, p := range ps {
			app := producing[p]
			name := calleeName(app)
			ord[name]++
			sites++
			cons := fmt.Sprintf("%s#%d", name, ord[name])
			why, bad := dropped[p]
			if bad {
				if ex, ok := droppedResultExceptions[rule+"|"+fn.Name+"|"+name]; ok {
					r.OK(rule, fn.Name, cons, c.Pos(f.M.Fset, p), "frozen exception: "+ex)
					continue
				}
				// a callee that returns its own argument unchanged: nothing is lost by not taking the result
				if fr, ok := app.Fun.(*ir.FuncRef); ok {
					if g, ok := f.Prog.ByKey[fr.Key]; ok {
						nf := f.N.Func(g)
						if sq, ok := nf.(*ir.Seq); ok {
							nf = sq.Ret
						}
						if pr, ok := nf.(*ir.Param); ok && len(components(pr.Obj.Type())) > 0 {
							r.OK(rule, fn.Name, cons, c.Pos(f.M.Fset, p), name+" returns its own argument "+pr.Obj.Name()+" unchanged; not taking the result loses nothing")
							continue
						}
					}
				}
			}
			if bad {
				r.Bad(rule, fn.Name, cons, c.Pos(f.M.Fset, p), "the "+noun+" produced by "+name+" is dropped — "+why+": "+consequence)
			} else {
				r.OK(rule, fn.Name, cons, c.Pos(f.M.Fset, p), "the "+noun+" is bound, returned or passed on")
			}
		}
	}
	r.Unit(unit, sites)
}

func sortPos(ps []token.Pos) {
	for i := 1; i < len(ps); i++ {
		for j := i; j > 0 && ps[j] < ps[j-1]; j-- {
			ps[j], ps[j-1] = ps[j-1], ps[j]
		}
	}
}

// C02.f — visited sets guard recursion only (stack discipline).
//
// The FType traversals reach a union's cases through a global table, so a
// recursive union would loop; a mutable "visited" set cuts the cycle.  If the
// entry outlives the guarded subtree the guard also skips *sibling* occurrences
// of the same union (Opt<A> * Opt<B>): their variables are neither substituted
// nor collected, and inference variables leak into the emitted signature.
// Decided on the un-normalised blocks (statement order matters):
//   every `SSetPut(S, K)` statement is (1) in the else-branch of `if SSetHasKey(S, K)`,
//   (2) followed in the same block by `SSetRemove(S, K)` with no branching statement between,
//   (3) and the key identifies the *instance* (uniToKey / rtToKey of the arm's payload: name and
//       type arguments), because the cases of Opt<Opt<T>> contain another instance of Opt
//       that is not a recursive occurrence.
var guardPins = map[string]string{
	"SSetHasKey": "(#1(dict.TryFind(p0.Dict, p1)) && #0(dict.TryFind(p0.Dict, p1)))",
	"SSetPut":    "seq[dict.Add(p0.Dict, p1, true)]",
	"SSetRemove": "seq[dict.Add(p0.Dict, p1, false)]",
	"NewSSet":    "SSet{Dict: dict.New()}",
	"uniToKey":   "encodedKey(p0.Name, p0.Targs)",
	"rtToKey":    "encodedKey(p0.Name, p0.Targs)",
	"encodedKey": `frt.SInterP("%s_%s", p0, strings.Concat("_", slice.Map(FTypeToGo, p1)))`,
}

func checkGuardDiscipline(c *Ctx, f *FC) {
	r := c.R
	for _, name := range sortedKeys(guardPins) {
		c.expectNF(f, "C02.f", name, []string{guardPins[name]}, "closed form of the visited-set primitive")
	}
	callTo := func(t ir.Term, name string) *ir.App {
		app, ok := isCallTo(t, f.Path+"."+name)
		if !ok {
			return nil
		}
		return app
	}
	sites := 0
	for _, fn := range f.Prog.Funcs {
		fn := fn
		pos := c.Pos(f.M.Fset, fn.Decl.Pos())
		// the guards: if SSetHasKey(S,K) then … else <block>
		guardOf := map[*ir.Block]string{}
		ir.WalkFunc(fn, func(t ir.Term) bool {
			if iff, ok := t.(*ir.If); ok && iff.Else != nil {
				if app := callTo(iff.Cond, "SSetHasKey"); app != nil && len(app.Args) == 2 {
					guardOf[iff.Else] = ir.String(f.Path, app.Args[0]) + ", " + ir.String(f.Path, app.Args[1])
				}
			}
			return true
		})
		n := 0
		nested := 0
		keyN := map[string]int{}
		ir.WalkFunc(fn, func(t ir.Term) bool {
			if callTo(t, "SSetPut") != nil {
				nested++
			}
			return true
		})
		ir.EachBlock(fn, func(b *ir.Block) {
			for i, s := range b.Stmts {
				do, ok := s.(*ir.Do)
				if !ok {
					continue
				}
				put := callTo(do.X, "SSetPut")
				if put == nil || len(put.Args) != 2 {
					continue
				}
				n++
				sites++
				cons := fmt.Sprintf("SSetPut#%d", n)
				key := ir.String(f.Path, put.Args[0]) + ", " + ir.String(f.Path, put.Args[1])
				var problems []string
				if g, ok := guardOf[b]; !ok || g != key {
					problems = append(problems, "the insertion is not the first thing done in the else-branch of `if SSetHasKey("+key+")`")
				}
				j := -1
				for k := i + 1; k < len(b.Stmts); k++ {
					if d2, ok := b.Stmts[k].(*ir.Do); ok {
						if rm := callTo(d2.X, "SSetRemove"); rm != nil && len(rm.Args) == 2 && ir.String(f.Path, rm.Args[0])+", "+ir.String(f.Path, rm.Args[1]) == key {
							j = k
							break
						}
					}
				}
				if j < 0 {
					problems = append(problems, "no SSetRemove("+key+") follows in the same block: the entry outlives the guarded subtree, so a later sibling occurrence of the same name (Opt<A> * Opt<B>) is skipped — its type variables are neither substituted nor collected")
				} else {
					for k := i + 1; k < j; k++ {
						switch b.Stmts[k].(type) {
						case *ir.Let, *ir.Do:
						default:
							problems = append(problems, "a branching statement lies between the insertion and the removal")
						}
					}
				}
				if len(problems) == 0 {
					r.OK("C02.f", fn.Name, cons, pos, "inserted under its own membership test and removed when the guarded subtree is done ("+key+")")
				} else {
					r.Bad("C02.f", fn.Name, cons, pos, strings.Join(problems, "; "))
				}
			}
		})
		// (3) on the normal form, where the key is inlined
		ir.Walk(f.N.Func(fn), func(t ir.Term) bool {
			for _, prim := range []string{"SSetHasKey", "SSetPut", "SSetRemove"} {
				app := callTo(t, prim)
				if app == nil || len(app.Args) != 2 {
					continue
				}
				k := ir.String(f.Path, app.Args[1])
				inst := false
				if ka, ok := app.Args[1].(*ir.App); ok && len(ka.Args) == 1 {
					if fr, ok := ka.Fun.(*ir.FuncRef); ok && (fr.Key == f.Path+".uniToKey" || fr.Key == f.Path+".rtToKey") {
						if _, ok := ka.Args[0].(*ir.Payload); ok {
							inst = true
						}
					}
				}
				keyN[prim]++
				cons := fmt.Sprintf("%s-key#%d", prim, keyN[prim])
				r.Check(inst, "C02.f", fn.Name, cons, pos, "keyed by the instance: "+k,
					"the visited set is keyed by "+k+", which does not identify the instance (name and type arguments): another instance of the same generic type inside the guarded subtree (the inner Opt<T> of Opt<Opt<T>>) is taken for a recursive occurrence and skipped")
			}
			return true
		})
		if nested > n {
			r.Undecided("C02.f", fn.Name, "SSetPut-in-expression", pos, sprintf("%d SSetPut call(s) are not plain statements of a block; the discipline cannot be read off", nested-n))
		}
	}
	r.Unit("visited_set_insertions", sites)
	if sites < 2 {
		r.Undecided("C02.f", "-", "sites", "fc", sprintf("%d visited-set insertions found; the union arms of collectTVarFTypeWithSet and transTVFTypeWithSet (2) were confirmed by hand", sites))
	}
}
