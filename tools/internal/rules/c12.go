package rules

import (
	"go/token"
	"go/types"
	"sort"
	"strings"

	"golang.org/x/tools/go/ssa"
	"golang.org/x/tools/go/ssa/ssautil"
)

// C12 — slice library functions are pure.
//
// Sound ownership invariant over pkg/slice (go/ssa, generic bodies analysed
// uninstantiated): no instruction writes into memory reachable from a slice
// that existed before the call.  See DESIGN.md §C12.

func init() { Register("C12", checkC12) }

type sclass int

const (
	clFresh sclass = iota // backing array allocated in this invocation, or zero capacity
	clClip                // len == cap view of borrowed memory: append can never write in place
	clBorrowed
)

func (c sclass) String() string { return [...]string{"FRESH", "CLIP", "BORROWED"}[c] }

func isSliceT(t types.Type) bool {
	_, ok := t.Underlying().(*types.Slice)
	return ok
}

// callee name of a static call: "pkgpath.Name" of the generic origin.
func ssaCalleeName(fn *ssa.Function) string {
	if fn == nil {
		return ""
	}
	if o := fn.Origin(); o != nil {
		fn = o
	}
	if fn.Pkg != nil {
		return fn.Pkg.Pkg.Path() + "." + fn.Name()
	}
	if obj := fn.Object(); obj != nil && obj.Pkg() != nil {
		return obj.Pkg().Path() + "." + fn.Name()
	}
	return fn.String()
}

var c12Mutators = map[string]bool{
	"slices.SortFunc": true, "slices.Sort": true, "slices.SortStableFunc": true, "slices.Reverse": true,
	"sort.Slice": true, "sort.SliceStable": true, "sort.Sort": true, "sort.Stable": true,
	"sort.Ints": true, "sort.Strings": true, "slices.Insert": true, "slices.Delete": true,
	"slices.Compact": true, "slices.CompactFunc": true, "slices.DeleteFunc": true, "slices.Replace": true,
	"slices.Grow": true, "slices.Clip": false,
}

var c12ReadOnly = map[string]bool{
	"cmp.Compare": true, "cmp.Less": true,
	"github.com/karino2/folang/pkg/frt.NewTuple2": true, "github.com/karino2/folang/pkg/frt.NewTuple3": true,
	"slices.Contains": true, "slices.Index": true, "slices.Equal": true, "slices.IndexFunc": true, "slices.ContainsFunc": true,
}

type c12fn struct {
	c     *Ctx
	fset  *token.FileSet
	fn    *ssa.Function
	name  string
	class map[ssa.Value]sclass
	selfP string
	fresh map[*ssa.Function]int // same-package callees: 1 computing, 2 returns a fresh slice, 3 does not
}

func (a *c12fn) cls(v ssa.Value) sclass {
	if c, ok := a.class[v]; ok {
		return c
	}
	return clFresh // optimistic start for the fixpoint
}

func isZeroConst(v ssa.Value) bool {
	c, ok := v.(*ssa.Const)
	if !ok || c.Value == nil {
		return false
	}
	return c.Value.ExactString() == "0"
}

func isLenOf(v ssa.Value, x ssa.Value) bool {
	call, ok := v.(*ssa.Call)
	if !ok {
		return false
	}
	b, ok := call.Call.Value.(*ssa.Builtin)
	return ok && b.Name() == "len" && len(call.Call.Args) == 1 && call.Call.Args[0] == x
}

// localArray reports whether v is a pointer to an array allocated in this invocation.
func localArray(v ssa.Value) (*ssa.Alloc, bool) {
	al, ok := v.(*ssa.Alloc)
	if !ok {
		return nil, false
	}
	p, ok := al.Type().Underlying().(*types.Pointer)
	if !ok {
		return nil, false
	}
	_, isArr := p.Elem().Underlying().(*types.Array)
	return al, isArr
}

// atLeastOne: the spread operand of append is a varargs array of length >= 1.
func atLeastOne(v ssa.Value) bool {
	sl, ok := v.(*ssa.Slice)
	if !ok {
		return false
	}
	al, ok := localArray(sl.X)
	if !ok {
		return false
	}
	arr := al.Type().Underlying().(*types.Pointer).Elem().Underlying().(*types.Array)
	return arr.Len() >= 1 && sl.Low == nil && sl.High == nil
}

func (a *c12fn) compute(v ssa.Value) sclass {
	switch x := v.(type) {
	case *ssa.Const:
		if x.Value == nil { // nil slice
			return clFresh
		}
		return clBorrowed
	case *ssa.Parameter, *ssa.FreeVar, *ssa.Global:
		return clBorrowed
	case *ssa.MakeSlice:
		return clFresh
	case *ssa.Slice:
		if _, ok := localArray(x.X); ok {
			return clFresh
		}
		if !isSliceT(x.X.Type()) {
			return clBorrowed
		}
		if x.Max != nil && isZeroConst(x.Max) {
			return clFresh // zero capacity: nothing can be written through it, append reallocates
		}
		if a.cls(x.X) == clFresh {
			return clFresh
		}
		if x.Max != nil && x.High != nil {
			if x.Max == x.High || (isLenOf(x.Max, x.X) && isLenOf(x.High, x.X)) {
				return clClip
			}
			if ch, ok1 := x.High.(*ssa.Const); ok1 {
				if cm, ok2 := x.Max.(*ssa.Const); ok2 && ch.Value != nil && cm.Value != nil && ch.Value.ExactString() == cm.Value.ExactString() {
					return clClip
				}
			}
		}
		return clBorrowed
	case *ssa.Call:
		if b, ok := x.Call.Value.(*ssa.Builtin); ok && b.Name() == "append" && len(x.Call.Args) == 2 {
			switch a.cls(x.Call.Args[0]) {
			case clFresh:
				return clFresh
			case clClip:
				if atLeastOne(x.Call.Args[1]) {
					return clFresh
				}
				return clClip
			}
			return clBorrowed
		}
		if callee := x.Call.StaticCallee(); callee != nil && !x.Call.IsInvoke() && isSliceT(x.Type()) {
			name := ssaCalleeName(callee)
			if name == "slices.Clone" {
				return clFresh // documented: a shallow copy in a new backing array
			}
			if strings.HasPrefix(name, a.selfP+".") && callee.Parent() == nil && a.returnsFresh(callee) {
				return clFresh
			}
		}
		return clBorrowed
	case *ssa.Phi:
		c := clFresh
		for _, e := range x.Edges {
			if ec := a.cls(e); ec > c {
				c = ec
			}
		}
		return c
	case *ssa.ChangeType:
		return a.cls(x.X)
	case *ssa.Convert:
		return a.cls(x.X)
	}
	return clBorrowed
}

// returnsFresh: a function of the same package hands its caller a slice nobody else holds — every return value is
// FRESH in the callee's own analysis (its parameters BORROWED), and the callee can keep no second reference: it
// stores no slice anywhere but in its own locals, builds no closure and calls nothing but builtins (the package
// has no package-level variables, C12.package).  clone(s) = append(s[:0:0], s...) is the instance.
func (a *c12fn) returnsFresh(callee *ssa.Function) bool {
	if o := callee.Origin(); o != nil {
		callee = o
	}
	if a.fresh == nil {
		a.fresh = map[*ssa.Function]int{}
	}
	switch a.fresh[callee] {
	case 1, 3:
		return false // being computed (recursion) or known not to
	case 2:
		return true
	}
	a.fresh[callee] = 1
	ok := callee.Blocks != nil && len(callee.Blocks) > 0
	sub := &c12fn{c: a.c, fset: a.fset, fn: callee, name: callee.Name(), class: map[ssa.Value]sclass{}, selfP: a.selfP, fresh: a.fresh}
	if ok {
		sub.solve()
	}
	rets := 0
	for _, b := range callee.Blocks {
		for _, in := range b.Instrs {
			switch x := in.(type) {
			case *ssa.Return:
				if len(x.Results) != 1 || !isSliceT(x.Results[0].Type()) || sub.cls(x.Results[0]) != clFresh {
					ok = false
				}
				rets++
			case *ssa.Store:
				if _, local := x.Addr.(*ssa.Alloc); !local || isSliceT(x.Val.Type()) {
					ok = false
				}
			case *ssa.MakeClosure, *ssa.Go, *ssa.Defer, *ssa.Send, *ssa.MapUpdate:
				ok = false
			case *ssa.Call:
				if _, builtin := x.Call.Value.(*ssa.Builtin); !builtin {
					ok = false
				}
			}
		}
	}
	if rets == 0 {
		ok = false
	}
	a.fresh[callee] = 3
	if ok {
		a.fresh[callee] = 2
	}
	return ok
}

func (a *c12fn) solve() {
	var vals []ssa.Value
	for _, p := range a.fn.Params {
		vals = append(vals, p)
	}
	for _, fv := range a.fn.FreeVars {
		vals = append(vals, fv)
	}
	for _, b := range a.fn.Blocks {
		for _, in := range b.Instrs {
			if v, ok := in.(ssa.Value); ok {
				vals = append(vals, v)
			}
			for _, op := range in.Operands(nil) {
				if *op != nil {
					if c, ok := (*op).(*ssa.Const); ok {
						vals = append(vals, c)
					}
				}
			}
		}
	}
	for iter := 0; iter < 100; iter++ {
		changed := false
		for _, v := range vals {
			n := a.compute(v)
			if o, ok := a.class[v]; !ok || o != n {
				if ok && n < o {
					n = o // monotone
				}
				if !ok || n != o {
					a.class[v] = n
					changed = true
				}
			}
		}
		if !changed {
			return
		}
	}
	panic("C12: class fixpoint did not converge in " + a.name)
}

func (a *c12fn) describe(v ssa.Value) string {
	switch x := v.(type) {
	case *ssa.Parameter:
		return "parameter " + x.Name()
	case *ssa.Phi:
		if x.Comment != "" {
			return "variable " + x.Comment
		}
	case *ssa.Slice:
		return "sub-slice of " + a.describe(x.X)
	case *ssa.Const:
		return "nil"
	}
	if n := v.Name(); n != "" {
		return n + ":" + strings.TrimPrefix(v.String(), n+" = ")
	}
	return v.String()
}

func (a *c12fn) check() {
	r := a.c.R
	ord := map[string]int{}
	key := func(kind string) string {
		ord[kind]++
		return sprintf("%s#%d", kind, ord[kind])
	}
	for _, b := range a.fn.Blocks {
		for _, in := range b.Instrs {
			pos := a.c.Pos(a.fset, in.Pos())
			switch x := in.(type) {
			case *ssa.Go, *ssa.Defer, *ssa.Send, *ssa.Select:
				r.Undecided("C12.effects", a.name, key("concurrency-or-defer"), pos, "go/defer/send/select in a library that must be a pure function: no transfer function")
			case *ssa.MapUpdate:
				_, fresh := x.Map.(*ssa.MakeMap)
				r.Check(fresh, "C12.store", a.name, key("mapupdate"), pos,
					"map written is allocated in this invocation", "map update on a map that was not created in this invocation")
			case *ssa.Store:
				a.checkStore(x, key, pos)
			case ssa.CallInstruction:
				a.checkCall(x, key, pos)
			case *ssa.MakeClosure:
				for _, bnd := range x.Bindings {
					if isSliceT(bnd.Type()) && a.cls(bnd) == clFresh {
						if _, isnil := bnd.(*ssa.Const); !isnil {
							r.Undecided("C12.escape", a.name, key("closure-capture"), pos, "a fresh slice is captured by a closure; later writes to it could be observed")
						}
					}
				}
			}
		}
	}
}

func (a *c12fn) checkStore(x *ssa.Store, key func(string) string, pos string) {
	r := a.c.R
	switch ad := x.Addr.(type) {
	case *ssa.Alloc:
		// a spilled local variable
		r.OK("C12.store", a.name, key("store-local"), pos, "store into a local variable cell")
	case *ssa.IndexAddr:
		if _, ok := localArray(ad.X); ok {
			r.OK("C12.store", a.name, key("store-elem"), pos, "element store into an array allocated in this invocation (varargs/literal)")
			return
		}
		if isSliceT(ad.X.Type()) {
			c := a.cls(ad.X)
			r.Check(c == clFresh, "C12.store", a.name, key("store-elem"), pos,
				"element store into a FRESH slice ("+a.describe(ad.X)+")",
				"element store into "+c.String()+" memory: "+a.describe(ad.X)+" may share its backing array with a slice that existed before the call")
			return
		}
		r.Undecided("C12.store", a.name, key("store-elem"), pos, "element store through "+ad.X.String()+": no transfer function")
	case *ssa.FieldAddr:
		if _, ok := ad.X.(*ssa.Alloc); ok {
			r.OK("C12.store", a.name, key("store-field"), pos, "field store into a local struct")
			return
		}
		r.Undecided("C12.store", a.name, key("store-field"), pos, "field store through a non-local pointer")
	case *ssa.Global:
		r.Bad("C12.store", a.name, key("store-global"), pos, "package-level variable "+ad.Name()+" is written: library state survives the call")
	default:
		r.Undecided("C12.store", a.name, key("store"), pos, "store through "+x.Addr.String()+": no transfer function")
	}
}

func (a *c12fn) checkCall(ci ssa.CallInstruction, key func(string) string, pos string) {
	r := a.c.R
	com := ci.Common()
	if b, ok := com.Value.(*ssa.Builtin); ok {
		switch b.Name() {
		case "append":
			dst := com.Args[0]
			c := a.cls(dst)
			r.Check(c != clBorrowed, "C12.append", a.name, key("append"), pos,
				"append onto "+c.String()+" ("+a.describe(dst)+"): cannot write into pre-existing memory",
				"append onto BORROWED "+a.describe(dst)+": when it has spare capacity the element is written into a backing array shared with existing slice values")
		case "copy":
			dst := com.Args[0]
			c := a.cls(dst)
			r.Check(c == clFresh, "C12.copy", a.name, key("copy"), pos,
				"copy into FRESH destination", "copy into "+c.String()+" destination "+a.describe(dst))
		case "clear":
			dst := com.Args[0]
			if isSliceT(dst.Type()) {
				c := a.cls(dst)
				r.Check(c == clFresh, "C12.copy", a.name, key("clear"), pos, "clear of FRESH slice", "clear of "+c.String()+" slice "+a.describe(dst))
			} else if _, ok := dst.(*ssa.MakeMap); !ok {
				r.Bad("C12.copy", a.name, key("clear"), pos, "clear of a map not created in this invocation")
			}
		case "delete":
			if _, ok := com.Args[0].(*ssa.MakeMap); !ok {
				r.Bad("C12.store", a.name, key("delete"), pos, "delete on a map not created in this invocation")
			}
		case "len", "cap", "panic", "print", "println", "min", "max", "new", "make", "ssa:wrapnilchk":
		default:
			r.Undecided("C12.call", a.name, key("builtin-"+b.Name()), pos, "builtin "+b.Name()+": no transfer function")
		}
		return
	}
	if com.IsInvoke() {
		for _, arg := range com.Args {
			if isSliceT(arg.Type()) {
				r.Undecided("C12.call", a.name, key("invoke-"+com.Method.Name()), pos, "slice passed to an interface method")
			}
		}
		return
	}
	callee := com.StaticCallee()
	if callee == nil {
		// dynamic call: a callback parameter or a local closure.  Borrowed and
		// element arguments are fine (callbacks are assumed not to mutate, see
		// assumptions); a FRESH slice handed out could be retained.
		for _, arg := range com.Args {
			if isSliceT(arg.Type()) && a.cls(arg) == clFresh {
				if _, isnil := arg.(*ssa.Const); !isnil {
					r.Undecided("C12.escape", a.name, key("callback-arg"), pos, "a fresh slice is passed to a callback and may be retained while this function keeps writing to it")
				}
			}
		}
		return
	}
	name := ssaCalleeName(callee)
	if strings.HasPrefix(name, a.selfP+".") || callee.Parent() != nil {
		// same package (verified on its own under the BORROWED assumption) or a local closure
		return
	}
	if mut, ok := c12Mutators[name]; ok && mut {
		dst := com.Args[0]
		c := a.cls(dst)
		r.Check(c == clFresh, "C12.mutator", a.name, key("mutator-"+name), pos,
			name+" applied to FRESH "+a.describe(dst),
			name+" mutates its argument in place and is applied to "+c.String()+" "+a.describe(dst))
		return
	}
	if c12ReadOnly[name] {
		return
	}
	hasRef := false
	for _, arg := range com.Args {
		switch arg.Type().Underlying().(type) {
		case *types.Slice, *types.Pointer, *types.Map:
			hasRef = true
		}
	}
	if hasRef {
		r.Undecided("C12.call", a.name, key("call-"+name), pos, "slice/pointer/map passed to "+name+", which is neither in the read-only nor in the mutator table")
	}
}

func checkC12(c *Ctx) {
	r := c.R
	r.Explanation = "Decided whole as a sound ownership invariant over pkg/slice (go/ssa; generic bodies analysed uninstantiated): " +
		"no instruction of the package writes into memory reachable from a slice that existed before the call. " +
		"Every slice-typed SSA value is classified FRESH (backing array allocated in this invocation, or zero capacity), " +
		"CLIP (len==cap view of borrowed memory) or BORROWED (parameters, their sub-slices, callback results, phi with a borrowed operand; fixpoint over phi cycles); " +
		"append needs a FRESH or CLIP destination, element stores/copy/clear/in-place mutators need FRESH, " +
		"no package-level state, imports restricted, no fresh slice escapes to a callback. " +
		"If that holds for every function, sub-slice aliasing (Tail, PopLast) is harmless and every slice value keeps its contents forever, for all call histories and capacities."
	r.NotDecided = []string{"nothing of the statement; relies on the assumptions listed"}
	r.Assumptions = []string{
		"Go language specification of append, slicing and full slice expressions",
		"callbacks passed to the library do not mutate their arguments (true of Folang code by induction: only this package could)",
		"slices.SortFunc and the other table entries mutate only their first argument; cmp.Compare / frt.NewTuple2 are read-only",
	}
	r.Rule("C12.append", "every append has a FRESH or CLIP destination", 10)
	r.Rule("C12.store", "every store targets memory allocated in this invocation", 3)
	r.Rule("C12.mutator", "in-place mutators (slices.Sort*, sort.*, …) are applied to FRESH slices only", 1)
	r.Rule("C12.copy", "copy/clear destinations are FRESH", 0)
	r.Rule("C12.call", "slices are passed only to read-only callees", 0)
	r.Rule("C12.escape", "no FRESH slice escapes to a callback or closure while it is still written", 0)
	r.Rule("C12.effects", "no goroutines, defers, channel operations", 0)
	r.Rule("C12.package", "no package-level variables; imports within {cmp, slices, frt}", 2)

	m := c.Load("pkg/slice", true)
	if m == nil {
		return
	}
	pkg := m.Main()
	sp := m.SSAPkg(pkg)

	// package-level rules
	okImports := map[string]bool{"cmp": true, "slices": true, "github.com/karino2/folang/pkg/frt": true}
	var bad []string
	for path := range pkg.Imports {
		if !okImports[path] {
			bad = append(bad, path)
		}
	}
	sort.Strings(bad)
	r.Check(len(bad) == 0, "C12.package", "-", "imports", "pkg/slice/slice.go",
		"imports are within {cmp, slices, frt}", "imports outside the analysed allow-list: "+strings.Join(bad, ", ")+" (unsafe/reflect/sort etc. need their own transfer functions)")
	var globals []string
	for name, mem := range sp.Members {
		if _, ok := mem.(*ssa.Global); ok && name != "init$guard" {
			globals = append(globals, name)
		}
	}
	sort.Strings(globals)
	r.Check(len(globals) == 0, "C12.package", "-", "package-variables", "pkg/slice/slice.go",
		"the package has no package-level variable", "package-level variables exist: "+strings.Join(globals, ", "))

	// functions
	var fns []*ssa.Function
	for fn := range ssautil.AllFunctions(m.Prog) {
		if fn.Synthetic != "" && fn.Name() != "init" {
			continue
		}
		root := fn
		for root.Parent() != nil {
			root = root.Parent()
		}
		if root.Pkg != sp || fn.Blocks == nil || fn.Name() == "init" {
			continue
		}
		if fn.Origin() != nil {
			continue // instantiation
		}
		fns = append(fns, fn)
	}
	sort.Slice(fns, func(i, j int) bool { return fns[i].String() < fns[j].String() })
	exported := 0
	fresh := map[*ssa.Function]int{}
	for _, fn := range fns {
		if fn.Parent() == nil && token.IsExported(fn.Name()) {
			exported++
		}
		a := &c12fn{c: c, fset: m.Fset, fn: fn, name: fn.Name(), class: map[ssa.Value]sclass{}, selfP: pkg.PkgPath, fresh: fresh}
		a.solve()
		a.check()
	}
	r.Unit("ssa_functions_analysed", len(fns))
	r.Unit("exported_functions", exported)
	if exported < 25 {
		r.Undecided("C12.package", "-", "exported-functions", "pkg/slice/slice.go", sprintf("only %d exported functions found; the package is expected to hold the ~30 library functions", exported))
	}
}
