package rules

import (
	"go/types"
	"sort"
	"strings"

	"verif/tools/internal/ir"
)

// C02 — inferred Go signatures are the principal Folang types.
// Correctness of unification and generalisation over all constraint graphs is
// value-level and NOT decided.  Decided are structural necessary conditions.

func init() { Register("C02", checkC02) }

var c02Pins = []pin{
	{"resolveOneTypeVarD", "nf", `seq[if((p1 > 1000), seq[PanicNow("Too deep type resolution, maybe cyclic type, give up")])] match(rsLookupEI(p0, p2.Name).resType; FType_FTypeVar -> if((payload(FType_FTypeVar).Name eq p2.Name), rsLookupEI(p0, p2.Name).resType, transTVFType(resolveOneTypeVarD(p0, (p1 + 1), _), rsLookupEI(p0, p2.Name).resType)); _ -> transTVFType(resolveOneTypeVarD(p0, (p1 + 1), _), rsLookupEI(p0, p2.Name).resType))`,
		"a variable resolves to what its equivalence class currently says, re-resolved through the current state at every use (no cache of earlier answers); depth-guarded"},
	{"resolveOneTypeVar", "nf", `resolveOneTypeVarD(p0, 0, p1)`,
		"resolution starts at depth 0"},
	{"resolveType", "nf", `transTVFType(resolveOneTypeVar(p0, _), p1)`,
		"a type is resolved by substituting every variable through the resolver"},
	{"updateFunCallFunType", "nf", `match(p2; VarRef_VRVar -> match(payload(VarRef_VRVar).Ftype; FType_FFunc -> p2; FType_FTypeVar -> seq[updateResolver(p1, [UniRel{SrcV: payload(FType_FTypeVar).Name, Dest: newFFunc(slice.PushLast(New_FType_FTypeVar(p0()), slice.Map(ExprToType, p3)))}])] New_VarRef_VRVar(Var{Name: payload(VarRef_VRVar).Name, Ftype: newFFunc(slice.PushLast(New_FType_FTypeVar(p0()), slice.Map(ExprToType, p3)))}); _ -> seq[PanicNow("Unknown funcall first arg type.")] p2); VarRef_VRSVar -> p2; _ -> never)`,
		"an applied variable whose type is still a variable gets the function type [types of the arguments in order; a fresh result variable], recorded as a relation and in the returned reference; a variable already of function type is left alone"},
	{"collectTVarFTypeWithSet", "nf", `match(p1; FType_FTypeVar -> [payload(FType_FTypeVar).Name]; FType_FSlice -> collectTVarFTypeWithSet(p0, payload(FType_FSlice).ElemType); FType_FTuple -> slice.Collect(collectTVarFTypeWithSet(p0, _), payload(FType_FTuple).ElemTypes); FType_FFieldAccess -> collectTVarFTypeWithSet(p0, payload(FType_FFieldAccess).RecType); FType_FRecord -> if(SSetHasKey(p0, rtToKey(payload(FType_FRecord))), slice.New(), seq[SSetPut(p0, rtToKey(payload(FType_FRecord)))] slice.Append(slice.Collect(collectTVarFTypeWithSet(p0, _), slice.Map(\x0. x0.Ftype, lookupRecInfo(payload(FType_FRecord)).Fields)), slice.Collect(collectTVarFTypeWithSet(p0, _), payload(FType_FRecord).Targs))); FType_FUnion -> if(SSetHasKey(p0, uniToKey(payload(FType_FUnion))), slice.New(), seq[SSetPut(p0, uniToKey(payload(FType_FUnion)))] slice.Append(slice.Collect(collectTVarFTypeWithSet(p0, _), slice.Map(\x1. x1.Ftype, utCases(payload(FType_FUnion)))), slice.Collect(collectTVarFTypeWithSet(p0, _), payload(FType_FUnion).Targs))); FType_FFunc -> slice.Collect(collectTVarFTypeWithSet(p0, _), payload(FType_FFunc).Targets); FType_FParamd -> slice.Collect(collectTVarFTypeWithSet(p0, _), payload(FType_FParamd).Targs); _ -> slice.New())`,
		"the free-variable collector visits every component of every type constructor unconditionally (type arguments and, through the info table, fields and case payloads of records and unions — generic or not), each named instance once"},
	{"transTVFTypeWithSet", "nf", `match(p2; FType_FTypeVar -> p1(payload(FType_FTypeVar)); FType_FSlice -> New_FType_FSlice(SliceType{ElemType: transTVFTypeWithSet(p0, p1, payload(FType_FSlice).ElemType)}); FType_FTuple -> New_FType_FTuple(TupleType{ElemTypes: slice.Map(transTVFTypeWithSet(p0, p1, _), payload(FType_FTuple).ElemTypes)}); FType_FFieldAccess -> faResolve(FieldAccessType{RecType: transTVFTypeWithSet(p0, p1, payload(FType_FFieldAccess).RecType), FieldName: payload(FType_FFieldAccess).FieldName}); FType_FFunc -> newFFunc(slice.Map(transTVFTypeWithSet(p0, p1, _), payload(FType_FFunc).Targets)); FType_FParamd -> New_FType_FParamd(ParamdType{Name: payload(FType_FParamd).Name, Targs: slice.Map(transTVFTypeWithSet(p0, p1, _), payload(FType_FParamd).Targs)}); FType_FRecord -> if(#1(TMemoTryFind(p0, rtToKey(payload(FType_FRecord)))), #0(TMemoTryFind(p0, rtToKey(payload(FType_FRecord)))), seq[TMemoPut(p0, rtToKey(payload(FType_FRecord)), p2); TMemoPut(p0, rtToKey(payload(FType_FRecord)), New_FType_FRecord(newRecTypeWith(slice.Map(transTVFTypeWithSet(p0, p1, _), slice.Map(\x0. x0.Ftype, lookupRecInfo(payload(FType_FRecord)).Fields)), transTVFTypeWithSet(p0, p1, _), payload(FType_FRecord))))] New_FType_FRecord(newRecTypeWith(slice.Map(transTVFTypeWithSet(p0, p1, _), slice.Map(\x1. x1.Ftype, lookupRecInfo(payload(FType_FRecord)).Fields)), transTVFTypeWithSet(p0, p1, _), payload(FType_FRecord)))); FType_FUnion -> if(#1(TMemoTryFind(p0, uniToKey(payload(FType_FUnion)))), #0(TMemoTryFind(p0, uniToKey(payload(FType_FUnion)))), seq[TMemoPut(p0, uniToKey(payload(FType_FUnion)), p2); updateUniInfo(UnionType{Name: payload(FType_FUnion).Name, Targs: slice.Map(transTVFTypeWithSet(p0, p1, _), payload(FType_FUnion).Targs)}, UnionTypeInfo{Cases: slice.Map(\x2. newNTPair(#0(x2), #1(x2)), slice.Zip(slice.Map(\x3. x3.Name, utCases(payload(FType_FUnion))), slice.Map(transTVFTypeWithSet(p0, p1, _), slice.Map(\x4. x4.Ftype, utCases(payload(FType_FUnion))))))}); TMemoPut(p0, uniToKey(payload(FType_FUnion)), New_FType_FUnion(UnionType{Name: payload(FType_FUnion).Name, Targs: slice.Map(transTVFTypeWithSet(p0, p1, _), payload(FType_FUnion).Targs)}))] New_FType_FUnion(UnionType{Name: payload(FType_FUnion).Name, Targs: slice.Map(transTVFTypeWithSet(p0, p1, _), payload(FType_FUnion).Targs)})); _ -> p2)`,
		"the substitution rebuilds every component of every type constructor (element-wise images), memoised per named instance with the placeholder discipline"},
	{"transStmt", "nf", `match(p2; Stmt_SLetVarDef -> match(payload(Stmt_SLetVarDef); LLetVarDef_LLOneVarDef -> New_Stmt_SLetVarDef(New_LLetVarDef_LLOneVarDef(LetVarDef{Lvar: p0(payload(LLetVarDef_LLOneVarDef).Lvar), Rhs: p1(payload(LLetVarDef_LLOneVarDef).Rhs)})); LLetVarDef_LLDestVarDef -> New_Stmt_SLetVarDef(New_LLetVarDef_LLDestVarDef(LetDestVarDef{Lvars: slice.Map(p0, payload(LLetVarDef_LLDestVarDef).Lvars), Rhs: p1(payload(LLetVarDef_LLDestVarDef).Rhs)})); _ -> never); Stmt_SExprStmt -> New_Stmt_SExprStmt(p1(payload(Stmt_SExprStmt))); _ -> never)`,
		"a substitution over a statement reaches the variable(s) it binds — the single one and every destructured one — and its right-hand side (a bound variable left with its parse-time type variable is hoisted as a type parameter that occurs nowhere in the signature)"},
	{"transBlock", "nf", `Block{Stmts: slice.Map(p1, p2.Stmts), FinalExpr: p0(p2.FinalExpr)}`, "a substitution over a block reaches every statement and the final expression"},
	{"collectExprRel", "nf", `match(p0; Expr_EFunCall -> slice.Append(slice.Concat(slice.Map(collectExprRel, payload(Expr_EFunCall).Args)), collectFunCall(payload(Expr_EFunCall))); Expr_EBinOpCall -> slice.Concat([collectExprRel(payload(Expr_EBinOpCall).Lhs), collectExprRel(payload(Expr_EBinOpCall).Rhs), unifyType(ExprToType(payload(Expr_EBinOpCall).Lhs), ExprToType(payload(Expr_EBinOpCall).Rhs)), match(payload(Expr_EBinOpCall).Rtype; FType_FBool -> emptyRels(); _ -> unifyType(payload(Expr_EBinOpCall).Rtype, ExprToType(payload(Expr_EBinOpCall).Lhs)))]); Expr_ETupleExpr -> slice.Concat(slice.Map(collectExprRel, payload(Expr_ETupleExpr))); Expr_ELambda -> collectBlock(collectExprRel, collectStmtRel(collectExprRel, _), payload(Expr_ELambda).Body); Expr_ESlice -> slice.Append(slice.Concat(slice.Map(collectExprRel, payload(Expr_ESlice))), collectSlice(payload(Expr_ESlice))); Expr_ERecordGen -> slice.Append(slice.Concat(slice.Map(collectExprRel, slice.Map(\x0. x0.Expr, payload(Expr_ERecordGen).FieldsNV))), slice.Concat(slice.Map(recNTUnify(payload(Expr_ERecordGen).RecordType, _), slice.Map(NEPToNT, payload(Expr_ERecordGen).FieldsNV)))); Expr_ELazyBlock -> collectBlock(collectExprRel, collectStmtRel(collectExprRel, _), payload(Expr_ELazyBlock).Block); Expr_EReturnableExpr -> match(payload(Expr_EReturnableExpr); ReturnableExpr_RBlock -> collectBlock(collectExprRel, collectStmtRel(collectExprRel, _), payload(ReturnableExpr_RBlock)); ReturnableExpr_RMatchExpr -> slice.Append(collectExprRel(payload(ReturnableExpr_RMatchExpr).Target), slice.Concat(slice.Map(collectBlock(collectExprRel, collectStmtRel(collectExprRel, _), _), mrsToBlocks(payload(ReturnableExpr_RMatchExpr).Rules)))); _ -> never); _ -> emptyRels())`,
		"constraint generation per expression kind: sub-expressions first; a binary operator relates its operands to each other and — unless its result is bool (a comparison constrains nothing further) — its result to them; slices, record literals, calls and matches add their own anchor relations"},
	// numbering of leftover variables: first occurrence in the function type (parameters then result), then parameters, then body
	{"collectTVarLfd", "nf", `slice.Concat([collectTVarFType(p0.Fvar.Ftype), slice.Collect(collectTVarFType, slice.Map(\x0. x0.Ftype, p0.Params)), collectTVarBlockFacade(p0.Body)])`,
		"leftover type variables are collected from the function's own type first (parameter list then result), in order"},
	{"InferLfd", "nf", `seq[updateResolver(p0.resolver, collectLfdRels(p1))] RootFuncDef{Tparams: #0(hoistTVar(slice.Distinct(collectTVarLfd(resolveLfd(p0.resolver, p1))), resolveLfd(p0.resolver, p1))), Lfd: #1(hoistTVar(slice.Distinct(collectTVarLfd(resolveLfd(p0.resolver, p1))), resolveLfd(p0.resolver, p1)))}`,
		"constraints are solved, the definition is resolved, its distinct leftover variables (first-occurrence order) are hoisted"},
	{"hoistTVar", "nf", `(slice.Mapi(newTName, p0), transTypeLfd(replaceSDict(dict.ToDict(slice.Zip(p0, slice.Mapi(newTName, p0))), _), p1))`, "the i-th leftover variable becomes Ti everywhere in the definition"},
	{"newTName", "nf", `frt.Sprintf1("T%d", p0)`, "type parameters are named T0, T1, …"},
	{"resolveLfd", "nf", "transTypeLfd(resolveOneTypeVar(p0, _), p1)", "every type of the definition is resolved"},
	{"transTypeLfd", "nf", "LetFuncDef{Fvar: transTVVar(p0, p1.Fvar), Params: slice.Map(transTVVar(p0, _), p1.Params), Body: transTVBlock(p0, p1.Body)}", "substitution reaches the function's own type, its parameters and its body"},
	// annotations and body constrain the same variables
	{"collectLfdRels", "nf", "slice.Append(collectExprRel(blockToExpr(p0.Body)), unifyType(lfdRetType(p0), ExprToType(p0.Body.FinalExpr)))", "the declared/fresh result type is unified with the type of the body's final expression"},
	{"lfdRetType", "nf", `match(p0.Fvar.Ftype; FType_FFunc -> freturn(payload(FType_FFunc)); _ -> seq[PanicNow("LetFuncDef's fvar is not FFunc type.")] var:New_FType_FUnit)`, "the result type is the last target of the function's own type"},
	{"unifyType", "nf", "#1(compositeTp(p0, p1))", "unification = relations produced by the structural composite"},
	{"InferExpr", "nf", "seq[updateResolver(p0.resolver, collectExprRel(p1))] resolveExprType(p0.resolver, p1)", "a let-bound expression is inferred from its own constraints"},
	{"updateResolver", "nf", "updateResolverD(p0, 0, p1)", "the worklist starts at round 0"},
	{"updateResolverD", "nf", `seq[if((p1 > 1000), seq[PanicNow("Too deep unification, maybe cyclic type, give up")])] if(slice.IsEmpty(slice.Concat(slice.Map(updateResOne(p0, _), p2))), p0, updateResolverD(p0, (p1 + 1), slice.Concat(slice.Map(updateResOne(p0, _), p2))))`,
		"constraints are applied until no new relation appears (relations in list order); the rounds are counted and bounded (a cyclic type ends in a diagnostic)"},
	{"collectSlice", "nf", "if((slice.Length(p0) <= 1), emptyRels(), slice.Concat(slice.Map(unifyType(ExprToType(slice.Head(p0)), _), slice.Map(ExprToType, slice.Tail(p0)))))", "all elements of a slice literal are unified with the first"},
	{"collectFunCall", "nf", `match(varRefVarType(p0.TargetFunc); FType_FFunc -> slice.Concat(slice.Map(unifyTupArg, slice.Zip(slice.Map(ExprToType, p0.Args), slice.Take(slice.Length(slice.Map(ExprToType, p0.Args)), fargs(payload(FType_FFunc)))))); _ -> seq[PanicNow("funcall with non func first arg, possibly TypeVar, NYI.")] emptyRels())`, "each supplied argument is unified with the parameter at the same position"},
	// independent instantiation of generic functions
	{"GenFuncVar", "nf", "if(slice.IsEmpty(p2), New_VarRef_VRVar(Var{Name: p0, Ftype: New_FType_FFunc(GenFunc(p1, p2, p3))}), New_VarRef_VRSVar(SpecVar{Var: Var{Name: p0, Ftype: New_FType_FFunc(GenFunc(p1, p2, p3))}, SpecList: p2}))", "every reference instantiates the factory again"},
	{"GenFunc", "nf", `seq[if((slice.Len(p1) > slice.Len(p0.Tparams)), seq[PanicNow("Too many type specified.")])] FuncType{Targets: slice.Map(tpreplace(dict.ToDict(slice.Mapi(tpname2tvtp(p2, p1, _, _), p0.Tparams)), _), p0.Targets)}`, "type parameters are replaced positionally in all targets"},
	{"tpname2tvtp", "nf", "if((slice.Len(p1) > p2), (p3, slice.Item(p2, p1)), (p3, New_FType_FTypeVar(p0())))", "an explicit type argument if given, else a FRESH type variable from the generator"},
	{"GenRecordTypeByTgen", "nf", `GenRecordType(p0, slice.Map(\x0. New_FType_FTypeVar(p1()), p0.Tparams))`, "a literal of a generic record gets one FRESH type variable per type parameter"},
	{"scRegFunFac", "nf", "seq[scRegisterVarFac(p0, p1, GenFuncVar(p1, p2, _, _))]", "a function name resolves through the factory at every reference"},
}

func checkC02(c *Ctx) {
	r := c.R
	r.Explanation = "Correctness of unification and generalisation over all constraint graphs (principality, annotation-erasure invariance) is value-level and NOT decided. Decided are structural necessary conditions, for all programs at once: " +
		"(a) traversal constructor coverage (sibling agreement): each of the four FType traversals — the binary unifier compositeTp, the substitution transTVFTypeWithSet, the free-variable collector collectTVarFTypeWithSet and the printer FTypeToGo — has an explicit arm for every component-carrying constructor of FType, computed from the type declarations (the unifier's missing FRecord/FUnion arms were a genuine defect and are repaired); " +
		"(b) constraint collection is complete (TRAV): collectExprRel, the type-variable collector and the substitution visit every Expr-bearing component of every AST node on every path (helpers inlined, so an early return in a helper is a path); " +
		"(c) closed forms of the numbering chain (leftover variables collected from the function type first, distinct in first-occurrence order, named Ti by position), of the anchor unifications (declared/fresh result type ↔ body, arguments ↔ parameters by position, slice elements ↔ first element) and of fresh instantiation per reference (GenFuncVar/GenFunc/tpname2tvtp); " +
		"(d) the result type of a let function is its annotation when present, else a fresh variable; the numbering chain uses only order-preserving library functions (C05.d)."
	r.NotDecided = []string{"principality, annotation-erasure invariance, Go type-checking of emitted packages for arbitrary programs", "the unifier's case analysis itself (compositeTp is 60 lines of nested matches)"}
	r.Assumptions = []string{"slice.Distinct/Mapi/Zip/Concat preserve order (C13)"}
	r.Rule("C02.a", "every FType traversal has an arm for every component-carrying constructor", 4)
	r.Rule("C02.b", "constraint collection, type-variable collection and substitution visit every sub-expression on every path (TRAV)", 20)
	r.Rule("C02.c", "closed forms of the numbering chain, anchor unifications and fresh instantiation", 15)
	r.Rule("C02.d", "result annotation feeds the function's own type (declared and returned)", 2)
	r.Rule("C02.f", "each record/union instance is handled once per traversal and correctly: instance keys; a never-cleared visited set only where a repeated instance contributes the empty list; memo tables follow the placeholder discipline (hit returns the stored value, miss stores the input first and its result last)", 15)
	r.Import("C15.", "C02.g", "the inferred types are printed by the documented type mapping (the C15 conditions: base-type table, printer templates, grammar of annotations)", 20, func() { checkC15(c) })
	r.Rule("C02.a2", "the type-variable collector and the substitution visit the same components of every FType constructor (payload fields carrying types, unfolding through the info table)", 5)
	r.Rule("C02.c2", "every type-variable generator handed to a function is applied or passed on by it (fresh instantiation is not silently replaced by reuse of names)", 10)
	r.Rule("C02.h", "typing rules of expressions (ExprToType and its helpers) have their reviewed closed forms", 15)
	r.Rule("C02.c3", "a fresh type variable is drawn per element of a mapped list, never once for the whole list", 1)
	r.Rule("C02.e", "no unification obligation is dropped: every call result carrying a []UniRel is bound, returned or passed on", 40)
	f := c.LoadFC("fc")
	if f == nil {
		return
	}
	// (j) which operands a binary operator relates is decided by how the expression groups
	r.Import("C08.", "C02.j", "binary operators group by the published table (the C08 conditions): `a > b + 1` relates a with b + 1 and has type bool only if + binds tighter than > — a re-levelled table turns it into (a > b) + 1, and the inferred signature with it", 40, func() { checkC08(c) })
	// (i) names resolve by lexical scope: one binder, one type variable
	if _, frtProg, _ := libProg(c, "pkg/frt"); frtProg != nil {
		nr := noReturn(f.Prog, frtProg)
		r.Import("PAIR", "C02.i", "a name's type is the type of the binder lexical scoping gives it (the scope discipline of C01/C07: push/pop pairing, binders never in the root scope, binders of an expression in a scope of their own) — a parameter or pattern variable that leaks into the enclosing scope unifies the types of two different variables, and the signature is no longer principal", 100, func() { runPair(c, f, nr) })
	}
	// (a)
	sc := f.M.Main().Types.Scope()
	ft, ok := sc.Lookup("FType").(*types.TypeName)
	if !ok {
		r.Undecided("C02.a", "FType", "definition", "fc", "anchor type not found")
		return
	}
	_, un, _ := unionMarker(ft.Type())
	var K []string
	for _, impl := range implementers(un.Obj().Pkg(), un) {
		tn := sc.Lookup(impl).(*types.TypeName)
		pt := payloadType(tn.Type())
		if pt == nil {
			continue
		}
		carries := false
		var visit func(t types.Type, depth int)
		visit = func(t types.Type, depth int) {
			if depth > 3 || carries {
				return
			}
			switch x := t.(type) {
			case *types.Named:
				if x.Obj() == ft {
					carries = true
					return
				}
				if st, ok := x.Underlying().(*types.Struct); ok && x.Obj().Pkg() == ft.Pkg() {
					for i := 0; i < st.NumFields(); i++ {
						visit(st.Field(i).Type(), depth+1)
					}
				}
			case *types.Slice:
				visit(x.Elem(), depth+1)
			}
		}
		visit(pt, 0)
		if carries {
			K = append(K, impl)
		}
	}
	sort.Strings(K)
	r.Unit("component_carrying_ftype_constructors", len(K))
	if len(K) < 5 {
		r.Undecided("C02.a", "FType", "constructors", "fc", "fewer than 5 component-carrying constructors found")
	}
	for _, trav := range []string{"compositeTp", "transTVFTypeWithSet", "collectTVarFTypeWithSet", "FTypeToGo"} {
		fn, ok := f.Prog.ByName[trav]
		if !ok {
			r.Undecided("C02.a", trav, "definition", "fc", "anchor function not found")
			continue
		}
		// union of the case types of every type switch over an FType value in the function
		have := map[string]bool{}
		ir.WalkFunc(fn, func(t ir.Term) bool {
			if m, ok := t.(*ir.Match); ok {
				if _, u2, ok := unionMarker(m.ScrutType); ok && u2.Obj() == ft {
					for _, a := range m.Arms {
						for _, cs := range a.Cases {
							have[ir.CaseName(cs)] = true
						}
					}
				}
			}
			return true
		})
		var missing []string
		for _, k := range K {
			if !have[k] {
				missing = append(missing, strings.TrimPrefix(k, "FType_"))
			}
		}
		r.Check(len(missing) == 0, "C02.a", trav, strings.Join(missing, ","), c.Pos(f.M.Fset, fn.Decl.Pos()),
			"has an explicit arm for every component-carrying constructor ("+strings.Join(K, ", ")+")",
			"no explicit arm for "+strings.Join(missing, ", ")+": values of these constructors fall into the default, so their component types are never visited by this traversal")
	}
	// (e)
	checkRelationsNotDropped(c, f)
	// (f)
	checkGuardDiscipline(c, f)
	// (a2)
	checkSiblingComponents(c, f)
	// (c2)
	checkGeneratorsUsed(c, f)
	// (c3)
	checkFreshPerElement(c, f)
	checkRelevantReviewedForms(c, f, "C02.z", "an inference primitive (type-variable generators, unification, the resolver, substitution, instantiation)",
		primSet("psTypeVarGen", "psNewTypeVar", "tvgen2ftvgen", "tvcToTypeVarGen", "tdctxTVFAlloc", "unifyType", "unifyTupArg", "compositeTp", "compositeTpList", "InferExpr", "InferLfd", "updateResolver", "updateResolverD", "updateResOne",
			"collectTVarFType", "collectTVarFTypeWithSet", "transTVFType", "transTVFTypeWithSet", "resolveOneTypeVar", "resolveType", "resolveExprType", "GenFunc", "GenFuncVar", "GenRecordType", "GenRecordTypeByTgen", "GenUnionType", "tpreplace", "hoistTVar", "New_FType_FTypeVar"), 40)
	// (b)
	checkTraversals(c, f, "C02.b")
	r.Rule("C02.k", "every recursive traversal of the type structure has an arm for each composite constructor (imported from C15.j: a type variable below a constructor without an arm is neither collected nor substituted)", 3)
	checkTypeTraversalsComplete(c, f, "C02.k")
	// (c)
	c.checkPins(f, "C02.c", c02Pins)
	// (h)
	c.checkPins(f, "C02.h", exprTypePins)
	c.checkPins(f, "C02.h", irFactoryPins)
	// (d)
	if nf, fn := f.NF("parseLetFuncDef"); fn != nil {
		// psNewTypeVar(ps) is the allocation psTypeVarGen(ps)() under a name (parseParam spells it that way): when the
		// helper's own form is exactly that, both spellings are read as the allocation
		if h, hfn := f.NF("psNewTypeVar"); hfn != nil && h == "psTypeVarGen(p0)()" {
			nf = expandTinyOnce(nf, map[string]tinyDef{"psNewTypeVar": {1, h}})
		}
		const P = "parseParams(psNext(psPushScope(psConsume(var:New_TokenType_LET, p1))))"
		want := "Ftype: newFFunc(slice.PushLast(#1(if(psCurIs(var:New_TokenType_COLON, #0(" + P + ")), parseType(psConsume(var:New_TokenType_COLON, #0(" + P + "))), (#0(" + P + "), New_FType_FTypeVar(psTypeVarGen(#0(" + P + "))())))), slice.Map(\\x0. x0.Ftype, #1(" + P + "))))"
		r.Check(strings.Contains(nf, want), "C02.d", "parseLetFuncDef", "result-type", c.Pos(f.M.Fset, fn.Decl.Pos()),
			"the function's own type is parameters ++ [annotation if present else a fresh variable]", "the function's own type is no longer built from the parameter types and the result annotation (or a fresh variable)")
		// the type of the returned definition: annotation unless it is still a type variable, in which case the body's type
		RT := "#1(if(psCurIs(var:New_TokenType_COLON, #0(" + P + ")), parseType(psConsume(var:New_TokenType_COLON, #0(" + P + "))), (#0(" + P + "), New_FType_FTypeVar(psTypeVarGen(#0(" + P + "))()))))"
		want2a := "LetFuncDef{Fvar: Var{Name: psIdentName(psPushScope(psConsume(var:New_TokenType_LET, p1))), Ftype: newFFunc(if((slice.Length(#1(" + P + ")) eq 0), [var:New_FType_FUnit, match(" + RT + "; FType_FTypeVar -> ExprToType(blockToExpr(#1(parseBlock("
		want2b := "; _ -> " + RT + ")]"
		r.Check(strings.Contains(nf, want2a) && strings.Contains(nf, want2b), "C02.d", "parseLetFuncDef", "returned-type", c.Pos(f.M.Fset, fn.Decl.Pos()),
			"the returned definition's result type is the annotation, or the body's type when no annotation was given",
			"the returned definition's result type is no longer the annotation when one is given: a result annotation stops constraining inference")
	} else {
		r.Undecided("C02.d", "parseLetFuncDef", "definition", "fc", "anchor function not found")
	}
}

// checkTraversals: TRAV on the three whole-AST passes (constraint collection, type-variable collection, the generic
// transformer that applies the solved types): every Expr-bearing component of every node is visited on every path.
func checkTraversals(c *Ctx, f *FC, rule string) {
	tv := newTravAn(c, f)
	tv.checkTraversal(rule, "collectExprRel", []string{"collectBlock", "collectStmtRel", "collectSlice"}, 6)
	tv.checkTraversal(rule, "collectTVarExpr", []string{"collectTVarBlock", "collectTVarStmt"}, 6)
	tv.checkTraversal(rule, "transExpr", []string{"transBlock", "transStmt", "transExprNE"}, 6)
}
