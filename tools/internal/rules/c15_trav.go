package rules

import (
	"sort"
	"strings"

	"verif/tools/internal/ir"
)

// C15.j — a traversal of the type structure visits every composite constructor.
//
// A recursive function that matches on FType, descends into some composite constructors and sends everything else
// to a default arm is a traversal of the type structure with a hole: a type that sits under a constructor it has no
// arm for is not visited (a placeholder under dict.Dict<…> is not resolved, a type variable under a tuple not
// collected).  The three traversals of the reviewed tree (collectTVarFTypeWithSet, transTVFTypeWithSet, compositeTp)
// have an arm for each of FFunc, FTuple, FSlice, FParamd, FRecord and FUnion; the rule requires the same of every
// function — reviewed or added later — that can reach itself and whose match on FType has a default and arms for at
// least two of these constructors.  Not decided: what an arm does with the children (TRAV decides that for the
// named traversals), and traversals written without a default (Go reports a missing case of those as a panic, and
// EXH decides their exhaustiveness).
var ftypeComposite = []string{"FType_FFunc", "FType_FParamd", "FType_FRecord", "FType_FSlice", "FType_FTuple", "FType_FUnion"}

func checkTypeTraversalsComplete(c *Ctx, f *FC, rule string) {
	r := c.R
	n := 0
	for _, fn := range f.Prog.Funcs {
		if !fn.Generated || fn.Decl == nil || !reachesItself(f.Prog, fn) {
			continue
		}
		ir.Walk(f.N.Func(fn), func(t ir.Term) bool {
			m, ok := t.(*ir.Match)
			if !ok || m.Default == nil || m.NeverReached {
				return true
			}
			have := map[string]bool{}
			for _, a := range m.Arms {
				for _, cs := range a.Cases {
					have[ir.CaseName(cs)] = true
				}
			}
			k := 0
			var missing []string
			for _, cn := range ftypeComposite {
				if have[cn] {
					k++
				} else {
					missing = append(missing, strings.TrimPrefix(cn, "FType_"))
				}
			}
			if k < 2 {
				return true
			}
			n++
			sort.Strings(missing)
			r.Check(len(missing) == 0, rule, fn.Name, "match on FType", c.Pos(f.M.Fset, fn.Decl.Pos()),
				"the recursive match on FType has an arm for every composite constructor (FFunc, FParamd, FRecord, FSlice, FTuple, FUnion)",
				"a recursive traversal of the type structure has a default arm and no arm for "+strings.Join(missing, ", ")+": a type below that constructor is not visited")
			return true
		})
	}
	r.Unit("type_structure_traversals", n)
}
