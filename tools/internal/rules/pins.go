package rules

import "verif/tools/internal/ir"

// pin is one pinned canonical form (normal form "nf" or emission template "tpl") of a function,
// with the documented fact it formalises.
type pin struct {
	fn   string
	kind string // "nf" | "tpl"
	want string
	why  string
}

// checkPins compares each pinned function with its canonical form on the current tree.
func (c *Ctx) checkPins(f *FC, rule string, pins []pin) {
	var sh *shaper
	for _, p := range pins {
		switch p.kind {
		case "nf":
			c.expectNF(f, rule, p.fn, []string{p.want}, p.why)
		case "ksnf":
			// normal form with cell identity kept (hand-written imperative emitters)
			fn, ok := f.Prog.ByName[p.fn]
			if !ok {
				c.R.Undecided(rule, p.fn, "definition", f.M.Dir, "anchor function not found (renamed or removed): "+p.why)
				continue
			}
			ks := ir.NewNormalizer()
			ks.KeepShared = true
			got := ir.String(f.Path, ks.Func(fn))
			c.R.Check(got == p.want, rule, p.fn, "closed-form", c.Pos(f.M.Fset, fn.Decl.Pos()), p.why,
				"closed form is not the reviewed one ("+p.why+"); "+diffHint(got, p.want))
		case "tpl":
			if sh == nil {
				sh = newShaper(f)
			}
			got, fn := sh.Template(p.fn)
			if fn == nil {
				c.R.Undecided(rule, p.fn, "definition", f.M.Dir, "anchor function not found (renamed or removed): "+p.why)
				continue
			}
			c.R.Check(got == p.want, rule, p.fn, "template", c.Pos(f.M.Fset, fn.Decl.Pos()), p.why+": "+short(got, 300),
				"emission template is not the documented one ("+p.why+"); "+diffHint(got, p.want))
		}
	}
}
