package rules

import (
	"path/filepath"
	"regexp"
	"sort"
	"strings"

	"verif/tools/internal/ir"
)

// pin is one pinned canonical form (normal form "nf" or emission template "tpl") of a function,
// with the documented fact it formalises.
type pin struct {
	fn   string
	kind string // "nf" | "tpl"
	want string
	why  string
}

// checkPins compares each pinned function with its canonical form on the current tree.
func (c *Ctx) checkPins(f *FC, rule string, pins []pin) {
	var sh *shaper
	for _, p := range pins {
		switch p.kind {
		case "nf?":
			// a private helper: when it no longer exists nothing can flow through it (a renamed one is recovered by
			// its form; a changed one is a new function, whose body the callers' forms contain)
			if _, ok := f.Prog.ByName[p.fn]; !ok {
				c.R.OK(rule, p.fn, "closed-form", f.M.Dir, p.why+" (the helper no longer exists: nothing is emitted through it)")
				continue
			}
			c.expectNF(f, rule, p.fn, strings.Split(p.want, " ||| "), p.why)
		case "nf":
			// " ||| " separates equally accepted spellings of the same specification
			c.expectNF(f, rule, p.fn, strings.Split(p.want, " ||| "), p.why)
		case "ksnf":
			// normal form with cell identity kept (hand-written imperative emitters)
			fn, ok := f.Prog.ByName[p.fn]
			if !ok {
				c.R.Undecided(rule, p.fn, "definition", f.M.Dir, "anchor function not found (renamed or removed): "+p.why)
				continue
			}
			ks := ir.NewNormalizer()
			ks.KeepShared = true
			got := f.canon(ir.String(f.Path, ks.Func(fn)))
			p.want = f.canonSpec(p.want)
			if got != p.want {
				if got2, helpers := f.nfInliningNewHelpers(fn, true); len(helpers) > 0 && f.canon(got2) == p.want {
					c.R.OK(rule, p.fn, "closed-form", c.Pos(f.M.Fset, fn.Decl.Pos()), p.why+" (after inlining the helper(s) added since the review: "+strings.Join(helpers, ", ")+")")
					continue
				}
			}
			c.R.Check(got == p.want, rule, p.fn, "closed-form", c.Pos(f.M.Fset, fn.Decl.Pos()), p.why,
				"closed form is not the reviewed one ("+p.why+"); "+diffHint(got, p.want))
		case "tpl":
			if sh == nil {
				sh = newShaper(f)
			}
			got, fn := sh.Template(p.fn)
			if fn == nil {
				c.R.Undecided(rule, p.fn, "definition", f.M.Dir, "anchor function not found (renamed or removed): "+p.why)
				continue
			}
			got = f.canon(got)
			// " ||| " separates equally accepted spellings of the same specification
			alts := strings.Split(p.want, " ||| ")
			p.want = f.canonSpec(alts[0])
			for _, a := range alts[1:] {
				if a = f.canonSpec(a); a == got {
					p.want = a
				}
			}
			if got != p.want {
				if _, isTiny := f.tinyTemplates()[p.fn]; isTiny && equalUpToParamOrder(got, p.want, len(fn.Params)) {
					c.R.OK(rule, p.fn, "template", c.Pos(f.M.Fset, fn.Decl.Pos()), p.why+" (parameters reordered; the call sites are compared in the callers' templates): "+short(got, 300))
					continue
				}
			}
			c.R.Check(got == p.want, rule, p.fn, "template", c.Pos(f.M.Fset, fn.Decl.Pos()), p.why+": "+short(got, 300),
				"emission template is not the documented one ("+p.why+"); "+diffHint(got, p.want))
		}
	}
}

// nfInliningNewHelpers: the normal form of fn with every package-local function that did not exist when the pins
// were reviewed (baselineFuncs) inlined at its calls — so that extracting a helper out of a pinned function, the
// most common behaviour-preserving refactoring, does not change the compared form.  Returns the helpers inlined.
func (f *FC) nfInliningNewHelpers(fn *ir.Func, keepShared bool) (string, []string) {
	base, ok := baselineFuncs[filepath.Base(f.M.Dir)]
	if !ok {
		return "", nil
	}
	inl := map[string]*ir.Func{}
	for k, v := range f.N.Inline {
		inl[k] = v
	}
	var names []string
	got := ""
	for round := 0; round < 4; round++ {
		n := ir.NewNormalizer()
		n.KeepShared = keepShared
		for k, v := range inl {
			n.Inline[k] = v
		}
		t := n.Func(fn)
		got = ir.String(f.Path, t)
		added := false
		ir.Walk(t, func(x ir.Term) bool {
			if fr, ok := x.(*ir.FuncRef); ok {
				if g, ok := f.Prog.ByKey[fr.Key]; ok && g != fn && !base[g.Name] && inl[g.Key] == nil && !reachesItself(f.Prog, g) {
					inl[g.Key] = g
					names = append(names, g.Name)
					added = true
				}
			}
			return true
		})
		if !added {
			break
		}
	}
	sort.Strings(names)
	return got, names
}

// canonDiag replaces the message literal of a no-return diagnostic call by <msg>: the wording of diagnostics is
// not fixed by any property, so rewording one must not change a compared form.  (Text that is *emitted into the
// program* — e.g. the never-reached panic of a match — sits inside a larger literal with escaped quotes and is
// not touched.)
var diagRes = []*regexp.Regexp{
	regexp.MustCompile(`\b(PanicNow|panic|frt\.Panic)\("(?:[^"\\]|\\.)*"\)`),
	regexp.MustCompile(`\b(psPanic\([^"]*?, )"(?:[^"\\]|\\.)*"\)`),
	regexp.MustCompile(`\b(frt\.Panicf[0-9]\()"(?:[^"\\]|\\.)*"`),
}

var diagFmtRe = regexp.MustCompile(`\b(PanicNow|panic|frt\.Panic)\(frt\.Sprintf[0-9]\("(?:[^"\\]|\\.)*"(?:, [^()]*)?\)\)`)

func canonDiag(s string) string {
	s = diagFmtRe.ReplaceAllString(s, "$1(<msg>)")
	s = diagRes[0].ReplaceAllString(s, "$1(<msg>)")
	s = diagRes[1].ReplaceAllString(s, "$1<msg>)")
	s = diagRes[2].ReplaceAllString(s, "$1<msg>")
	return canonShape(s)
}
