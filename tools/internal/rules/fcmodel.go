package rules

import (
	"go/ast"
	"go/constant"
	"go/types"
	"path/filepath"
	"sort"
	"strings"

	"verif/tools/internal/core"
	"verif/tools/internal/ir"
)

// FC is the lowered model of a transpiler package (fc, build_sample_md).
type FC struct {
	M         *core.Module
	Prog      *ir.Program
	N         *ir.Normalizer
	Path      string
	nf        map[string]string
	attr      []attributed
	tiny      map[string]tinyDef
	tinyTpl   map[string]tinyDef
	tinyUnary map[string]string
}

var fcCache = map[string]*FC{}

// LoadFC loads and lowers a module holding fc-generated Go.  The tiny tuple
// combinators MapL/MapR/PairL/PairR are inlined in normal forms.
func (c *Ctx) LoadFC(dir string) *FC {
	key := c.Repo.Root + "|" + dir
	if f, ok := fcCache[key]; ok {
		return f
	}
	m := c.Load(dir, false)
	if m == nil {
		return nil
	}
	prog := ir.LowerPackage(m.Main())
	mkNorm := func(skip string) *ir.Normalizer {
		n := ir.NewNormalizer()
		for _, k := range []string{"MapL", "MapR", "PairL", "PairR"} {
			if f, ok := prog.ByName[k]; ok && f.Generated {
				n.Inline[f.Key] = f
			}
		}
		// helpers added since the pins were reviewed are inlined, so that every rule reading a normal form sees through
		// an extracted helper (the most common behaviour-preserving refactoring); see baseline_funcs.go
		if base, ok := baselineFuncs[filepath.Base(m.Dir)]; ok {
			for _, g := range prog.Funcs {
				if (g.Generated || isExpressionFunc(g)) && !base[g.Name] && g.Key != skip && !reachesItself(prog, g) {
					n.Inline[g.Key] = g
				}
			}
		}
		return n
	}
	if filepath.Base(m.Dir) == "fc" {
		recoverRenames(c, prog, m.Main().PkgPath, mkNorm)
	}
	n := mkNorm("")
	gen, opq := 0, 0
	for _, f := range prog.Funcs {
		if f.Generated {
			gen++
			opq += f.Opaques
		}
	}
	c.R.Unit("generated_functions_lowered", gen)
	c.R.Unit("opaque_nodes_in_generated_code", opq)
	f := &FC{M: m, Prog: prog, N: n, Path: m.Main().PkgPath, nf: map[string]string{}}
	fcCache[key] = f
	return f
}

// NF returns the printed normal form of a function ("" if absent).
func (f *FC) NF(name string) (string, *ir.Func) {
	fn, ok := f.Prog.ByName[name]
	if !ok {
		return "", nil
	}
	if s, ok := f.nf[name]; ok {
		return s, fn
	}
	s := ir.String(f.Path, f.N.Func(fn))
	f.nf[name] = s
	return s, fn
}

func (f *FC) Term(name string) (ir.Term, *ir.Func) {
	fn, ok := f.Prog.ByName[name]
	if !ok {
		return nil, nil
	}
	return f.N.Func(fn), fn
}

// expectNF checks that function name has one of the accepted normal forms.
func (c *Ctx) expectNF(f *FC, rule, name string, accept []string, why string) bool {
	nf, fn := f.NF(name)
	if fn == nil {
		c.R.Undecided(rule, name, "definition", f.M.Dir, "anchor function not found (renamed or removed): "+why)
		return false
	}
	ok := false
	nf = f.canon(nf)
	for i := range accept {
		accept[i] = f.canonSpec(accept[i])
	}
	for _, a := range accept {
		if specRegexp(a).MatchString(nf) {
			ok = true
		}
	}
	if !ok {
		if nf2, helpers := f.nfInliningNewHelpers(fn, false); len(helpers) > 0 {
			for _, a := range accept {
				if specRegexp(a).MatchString(f.canon(nf2)) {
					c.R.OK(rule, name, "closed-form", c.Pos(f.M.Fset, fn.Decl.Pos()), why+" (after inlining the helper(s) added since the review: "+strings.Join(helpers, ", ")+"): "+nf2)
					return true
				}
			}
		}
	}
	if !ok {
		// a tiny helper with its parameters reordered: every call of it is expanded into its caller's form, where
		// an argument list that was not adapted shows
		if _, isTiny := f.tinyHelpers()[name]; isTiny {
			for _, a := range accept {
				if equalUpToParamOrder(nf, a, len(fn.Params)) {
					return c.R.Check(true, rule, name, "closed-form", c.Pos(f.M.Fset, fn.Decl.Pos()), why+" (parameters reordered; the call sites are compared in the callers' forms): "+nf, "")
				}
			}
		}
	}
	return c.R.Check(ok, rule, name, "closed-form", c.Pos(f.M.Fset, fn.Decl.Pos()), why+": "+nf,
		"closed form is not the specification term ("+why+"); "+diffHint(nf, accept[0]))
}

// BinOpEntry is one row of fc's operator table.
type BinOpEntry struct {
	Token  string // PIPE, AMPAMP, …
	Prec   int
	GoOp   string
	IsBool bool
	Pos    string
}

// binOpTable evaluates the composite literal binOpMap (constant evaluation on typed syntax).
func (c *Ctx) binOpTable(m *core.Module, varName string, tokenPrefix string) ([]BinOpEntry, string, bool) {
	pkg := m.Main()
	for _, file := range pkg.Syntax {
		for _, d := range file.Decls {
			gd, ok := d.(*ast.GenDecl)
			if !ok {
				continue
			}
			for _, sp := range gd.Specs {
				vs, ok := sp.(*ast.ValueSpec)
				if !ok || len(vs.Names) != 1 || vs.Names[0].Name != varName || len(vs.Values) != 1 {
					continue
				}
				cl, ok := vs.Values[0].(*ast.CompositeLit)
				if !ok {
					return nil, c.Pos(m.Fset, vs.Pos()), false
				}
				var res []BinOpEntry
				for _, el := range cl.Elts {
					kv, ok := el.(*ast.KeyValueExpr)
					if !ok {
						return nil, c.Pos(m.Fset, el.Pos()), false
					}
					kid, ok := kv.Key.(*ast.Ident)
					if !ok {
						return nil, c.Pos(m.Fset, el.Pos()), false
					}
					e := BinOpEntry{Token: strings.TrimPrefix(kid.Name, tokenPrefix), Pos: c.Pos(m.Fset, kv.Pos())}
					vl, ok := kv.Value.(*ast.CompositeLit)
					if !ok {
						return nil, e.Pos, false
					}
					var st *types.Struct
					if tv, ok := pkg.TypesInfo.Types[vl]; ok {
						st, _ = tv.Type.Underlying().(*types.Struct)
					}
					for i, fe := range vl.Elts {
						name := ""
						val := fe
						if fkv, ok := fe.(*ast.KeyValueExpr); ok {
							if id, ok := fkv.Key.(*ast.Ident); ok {
								name = id.Name
							}
							val = fkv.Value
						} else if st != nil && i < st.NumFields() {
							name = st.Field(i).Name()
						}
						tv := pkg.TypesInfo.Types[val]
						if tv.Value == nil {
							return nil, e.Pos, false
						}
						switch tv.Value.Kind() {
						case constant.Int:
							n, _ := constant.Int64Val(tv.Value)
							e.Prec = int(n)
						case constant.String:
							e.GoOp = constant.StringVal(tv.Value)
						case constant.Bool:
							e.IsBool = constant.BoolVal(tv.Value)
						}
						_ = name
					}
					res = append(res, e)
				}
				return res, c.Pos(m.Fset, vs.Pos()), true
			}
		}
	}
	return nil, "", false
}

// diffHint shows where a normal form departs from the expected one.
func diffHint(got, want string) string {
	i := 0
	for i < len(got) && i < len(want) && got[i] == want[i] {
		i++
	}
	lo := i - 60
	if lo < 0 {
		lo = 0
	}
	cut := func(s string) string {
		hi := i + 60
		if hi > len(s) {
			hi = len(s)
		}
		if lo > len(s) {
			return ""
		}
		return strings.ToValidUTF8(s[lo:hi], "")
	}
	return "first difference at offset " + sprintf("%d", i) + ": got …" + cut(got) + "… expected …" + cut(want) + "…"
}

// reachesItself: g is (directly or mutually) recursive — such a function is never inlined.
func reachesItself(prog *ir.Program, g *ir.Func) bool {
	seen := map[string]bool{}
	var visit func(fn *ir.Func) bool
	visit = func(fn *ir.Func) bool {
		found := false
		ir.WalkFunc(fn, func(t ir.Term) bool {
			if found {
				return false
			}
			if fr, ok := t.(*ir.FuncRef); ok {
				if fr.Key == g.Key {
					found = true
					return false
				}
				if callee, ok := prog.ByKey[fr.Key]; ok && !seen[fr.Key] {
					seen[fr.Key] = true
					if visit(callee) {
						found = true
					}
				}
			}
			return !found
		})
		return found
	}
	return visit(g)
}

// Attribution of helper bodies.  A helper added since the review is inlined into every normal form; the rules that
// walk RAW bodies (who-may-reference / who-may-write / who-may-call tables, frozen per function) see it as a
// function of its own, which no table lists.  Attributed() gives such rules the same view the normal forms have:
// the body of a new, inlinable helper is attributed to each reviewed function that (transitively) refers to it;
// a reviewed function is attributed to itself; a new helper nobody refers to is dropped.
type attributed struct {
	Owner *ir.Func // the function the table knows
	Body  *ir.Func // the body to walk
}

// isExpressionFunc: a hand-written function whose whole body is `return <expression>` (a predicate extracted from
// a loop condition); like a generated helper it is read as the expression it stands for.
func isExpressionFunc(g *ir.Func) bool {
	if g.Decl == nil || g.Decl.Recv != nil || g.Decl.Body == nil || len(g.Decl.Body.List) != 1 || len(g.Params) == 0 {
		return false
	}
	rs, ok := g.Decl.Body.List[0].(*ast.ReturnStmt)
	return ok && len(rs.Results) == 1
}

// IsNewHelper: fn was added since the review and is inlined into every normal form that calls it; a rule that
// walks the normal form of every function skips it (its callers' forms contain it).
func (f *FC) IsNewHelper(fn *ir.Func) bool {
	if _, ok := f.N.Inline[fn.Key]; !ok {
		return false
	}
	base, has := baselineFuncs[filepath.Base(f.M.Dir)]
	return has && (fn.Generated || isExpressionFunc(fn)) && !base[fn.Name]
}

func (f *FC) Attributed() []attributed {
	if f.attr != nil {
		return f.attr
	}
	isNew := func(g *ir.Func) bool {
		_, ok := f.N.Inline[g.Key]
		if !ok {
			return false
		}
		base, has := baselineFuncs[filepath.Base(f.M.Dir)]
		return has && (g.Generated || isExpressionFunc(g)) && !base[g.Name]
	}
	// raw references
	callers := map[string]map[*ir.Func]bool{}
	for _, fn := range f.Prog.Funcs {
		fn := fn
		ir.WalkFunc(fn, func(t ir.Term) bool {
			if fr, ok := t.(*ir.FuncRef); ok {
				if callers[fr.Key] == nil {
					callers[fr.Key] = map[*ir.Func]bool{}
				}
				callers[fr.Key][fn] = true
			}
			return true
		})
	}
	var owners func(g *ir.Func, seen map[*ir.Func]bool) []*ir.Func
	owners = func(g *ir.Func, seen map[*ir.Func]bool) []*ir.Func {
		var res []*ir.Func
		for cl := range callers[g.Key] {
			if seen[cl] {
				continue
			}
			seen[cl] = true
			if isNew(cl) {
				res = append(res, owners(cl, seen)...)
			} else {
				res = append(res, cl)
			}
		}
		return res
	}
	for _, fn := range f.Prog.Funcs {
		if !isNew(fn) {
			f.attr = append(f.attr, attributed{fn, fn})
			continue
		}
		os := owners(fn, map[*ir.Func]bool{fn: true})
		sort.Slice(os, func(i, j int) bool { return os[i].Key < os[j].Key })
		for _, o := range os {
			f.attr = append(f.attr, attributed{o, fn})
		}
	}
	return f.attr
}
