// Package rules holds the repository-specific static rules, one file per property.
package rules

import (
	"fmt"
	"go/token"
	"sort"

	"verif/tools/internal/core"
)

// Ctx is what a property check gets.
type Ctx struct {
	Repo *core.Repo
	R    *core.Report
	Tier string
}

// Load loads a module or records an undecided obligation (an unloadable unit
// is never skipped silently).
func (c *Ctx) Load(dir string, ssa bool) *core.Module {
	m, err := c.Repo.Load(dir, ssa)
	if err != nil {
		c.R.Rule("load", "every analysed module loads and type-checks from source", 0)
		c.R.Undecided("load", dir, "module", dir, err.Error())
		return nil
	}
	c.R.Unit("modules", 1)
	c.R.Unit("packages", len(m.Pkgs))
	c.R.Unit("files", m.Files)
	c.R.Unit("functions", m.Funcs)
	return m
}

func (c *Ctx) Pos(fset *token.FileSet, p token.Pos) string { return c.Repo.Rel(fset, p) }

// Check is a registered property check.
type Check func(c *Ctx)

var Registry = map[string]Check{}

func Register(id string, f Check) { Registry[id] = f }

func IDs() []string {
	var ids []string
	for k := range Registry {
		ids = append(ids, k)
	}
	sort.Strings(ids)
	return ids
}

func sprintf(f string, a ...any) string { return fmt.Sprintf(f, a...) }
