// Package rules holds the repository-specific static rules, one file per property.
package rules

import (
	"fmt"
	"go/ast"
	"go/token"
	"go/types"
	"sort"

	"verif/tools/internal/core"
)

// Ctx is what a property check gets.
type Ctx struct {
	Repo *core.Repo
	R    *core.Report
	Tier string
}

// Load loads a module or records an undecided obligation (an unloadable unit
// is never skipped silently).
func (c *Ctx) Load(dir string, ssa bool) *core.Module {
	m, err := c.Repo.Load(dir, ssa)
	if err != nil {
		c.R.Rule("load", "every analysed module loads and type-checks from source", 0)
		c.R.Undecided("load", dir, "module", dir, err.Error())
		return nil
	}
	// ordered comparisons: not((a >= b)) is (a < b) for integers, not for floats (NaN).  The law is applied to every
	// ordered comparison only while no loaded module of this tree compares floats (or values of a type parameter).
	if hasFloatOrderedComparison(m) {
		floatOrdered[c.Repo.Root] = true
	}
	orderedAreIntegers = !floatOrdered[c.Repo.Root]
	c.R.Unit("modules", 1)
	c.R.Unit("packages", len(m.Pkgs))
	c.R.Unit("files", m.Files)
	c.R.Unit("functions", m.Funcs)
	return m
}

var (
	floatOrdered       = map[string]bool{}
	orderedAreIntegers bool
)

func hasFloatOrderedComparison(m *core.Module) bool {
	found := false
	for _, p := range m.Pkgs {
		if p.TypesInfo == nil {
			continue
		}
		for _, f := range p.Syntax {
			ast.Inspect(f, func(n ast.Node) bool {
				be, ok := n.(*ast.BinaryExpr)
				if !ok {
					return true
				}
				switch be.Op {
				case token.LSS, token.LEQ, token.GTR, token.GEQ:
					for _, e := range []ast.Expr{be.X, be.Y} {
						if tv, ok := p.TypesInfo.Types[e]; ok && tv.Type != nil {
							if _, isTP := tv.Type.(*types.TypeParam); isTP {
								found = true
							}
							if b, ok := tv.Type.Underlying().(*types.Basic); ok && b.Info()&types.IsFloat != 0 {
								found = true
							}
						}
					}
				}
				return true
			})
		}
	}
	return found
}

func (c *Ctx) Pos(fset *token.FileSet, p token.Pos) string { return c.Repo.Rel(fset, p) }

// Check is a registered property check.
type Check func(c *Ctx)

var Registry = map[string]Check{}

func Register(id string, f Check) { Registry[id] = f }

func IDs() []string {
	var ids []string
	for k := range Registry {
		ids = append(ids, k)
	}
	sort.Strings(ids)
	return ids
}

func sprintf(f string, a ...any) string { return fmt.Sprintf(f, a...) }
