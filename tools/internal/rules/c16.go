package rules

import (
	"go/types"
	"sort"
	"strings"
	"unicode/utf8"

	"verif/tools/internal/ir"
)

// C16 — fc always terminates with either complete output or a diagnostic.
// Termination in general is not decided; decided clauses (DESIGN.md §C16):
// (a) I/O error discipline, (b) complete-before-write, (c) single
// recover/exit site, (d) hand-written loops exit at end of input and make
// progress, (e) unfolding of named/cyclic data is guarded.

func init() { Register("C16", checkC16) }

// noReturn computes the set of functions (by key) every call of which panics.
func noReturn(progs ...*ir.Program) map[string]bool {
	set := map[string]bool{}
	n := ir.NewNormalizer()
	var definitely func(t ir.Term) bool
	definitely = func(t ir.Term) bool {
		switch x := t.(type) {
		case *ir.App:
			switch f := x.Fun.(type) {
			case *ir.Builtin:
				return f.Name == "panic"
			case *ir.FuncRef:
				return set[f.Key]
			}
		case *ir.Seq:
			for _, e := range x.Effs {
				if definitely(e) {
					return true
				}
			}
			return x.Ret != nil && definitely(x.Ret)
		case *ir.If:
			return x.Else != nil && definitely(x.Then.Ret) && definitely(x.Else.Ret)
		case *ir.IfT:
			return x.Then != nil && x.Else != nil && definitely(x.Then) && definitely(x.Else)
		case *ir.Match:
			for _, a := range x.Arms {
				if !definitely(a.Body.Ret) {
					return false
				}
			}
			return x.Default != nil && (x.NeverReached || definitely(x.Default.Ret))
		}
		return false
	}
	for changed := true; changed; {
		changed = false
		for _, p := range progs {
			for _, f := range p.Funcs {
				if f.Key == "" || set[f.Key] {
					continue
				}
				if definitely(n.Func(f)) {
					set[f.Key] = true
					changed = true
				}
			}
		}
	}
	return set
}

// panics reports whether evaluating t certainly reaches a no-return call (top level, unconditionally).
func panics(t ir.Term, nr map[string]bool) bool {
	switch x := t.(type) {
	case *ir.App:
		switch f := x.Fun.(type) {
		case *ir.Builtin:
			if f.Name == "panic" {
				return true
			}
		case *ir.FuncRef:
			if nr[f.Key] {
				return true
			}
		}
		for _, a := range x.Args {
			if panics(a, nr) {
				return true
			}
		}
	case *ir.Seq:
		for _, e := range x.Effs {
			if panics(e, nr) {
				return true
			}
		}
		return x.Ret != nil && panics(x.Ret, nr)
	case *ir.If:
		return x.Else != nil && panics(x.Then.Ret, nr) && panics(x.Else.Ret, nr)
	case *ir.IfT:
		return x.Then != nil && x.Else != nil && panics(x.Then, nr) && panics(x.Else, nr)
	}
	return false
}

func isCallTo(t ir.Term, key string) (*ir.App, bool) {
	app, ok := t.(*ir.App)
	if !ok {
		return nil, false
	}
	fr, ok := app.Fun.(*ir.FuncRef)
	if !ok || fr.Key != key {
		return nil, false
	}
	return app, true
}

const sysPath = "github.com/karino2/folang/pkg/sys"

// strictlyContains: is t the term printed `want`, or a string that extends it — strings.AppendHead(x, ·),
// strings.AppendTail(x, ·) or a `+` concatenation with it?  Then the complete text is evaluated before the call
// that receives t, and all of it is part of t.
func strictlyContains(path string, t ir.Term, want string) bool {
	if ir.String(path, t) == want {
		return true
	}
	switch x := t.(type) {
	case *ir.App:
		if fr, ok := x.Fun.(*ir.FuncRef); ok && len(x.Args) == 2 &&
			(fr.Key == "github.com/karino2/folang/pkg/strings.AppendHead" || fr.Key == "github.com/karino2/folang/pkg/strings.AppendTail") {
			return strictlyContains(path, x.Args[1], want)
		}
	case *ir.BinOp:
		if x.Op == "+" {
			return strictlyContains(path, x.L, want) || strictlyContains(path, x.R, want)
		}
	}
	return false
}

// checkIOResults: rule C16.a (and C18.c) on one lowered package.
// Every call of sys.ReadFile / sys.WriteFile must have its ok result tested,
// the failing side must reach a no-return call, and every other use of the
// call's results must lie on the success side of that test.
func checkIOResults(c *Ctx, rule string, f *FC, nr map[string]bool, wantWriteChecked bool) (reads, writes int) {
	r := c.R
	for _, fn := range f.Prog.Funcs {
		if !fn.Generated {
			continue
		}
		nf := f.N.Func(fn)
		pos := c.Pos(f.M.Fset, fn.Decl.Pos())
		// collect distinct I/O calls (by printed form)
		type ioCall struct {
			kind, text string
		}
		seen := map[string]ioCall{}
		ir.Walk(nf, func(t ir.Term) bool {
			if app, ok := isCallTo(t, sysPath+".ReadFile"); ok {
				s := ir.String(f.Path, app)
				seen[s] = ioCall{"ReadFile", s}
			}
			if app, ok := isCallTo(t, sysPath+".WriteFile"); ok {
				s := ir.String(f.Path, app)
				seen[s] = ioCall{"WriteFile", s}
			}
			return true
		})
		var keys []string
		for k := range seen {
			keys = append(keys, k)
		}
		sort.Strings(keys)
		idx := map[string]int{}
		for _, k := range keys {
			call := seen[k]
			idx[call.kind]++
			construct := sprintf("%s#%d", call.kind, idx[call.kind])
			if call.kind == "ReadFile" {
				reads++
			} else {
				writes++
				if !wantWriteChecked {
					r.Note("%s: result of %s is not required to be checked by this property (reported as information)", fn.Name, call.text)
					continue
				}
			}
			okText := call.text
			if call.kind == "ReadFile" {
				okText = "#1(" + call.text + ")"
			}
			// walk with a context: are we on the success side of a guard for this call?
			guards, unguarded := 0, 0
			var badGuard string
			var walk func(t ir.Term, safe bool)
			mentionsCall := func(t ir.Term) bool {
				return t != nil && strings.Contains(ir.String(f.Path, t), call.text)
			}
			walkBlock := func(b *ir.Block, safe bool) {
				if b != nil && b.Ret != nil {
					walk(b.Ret, safe)
				}
			}
			walk = func(t ir.Term, safe bool) {
				if t == nil {
					return
				}
				if iff, ok := t.(*ir.If); ok {
					cs := ir.String(f.Path, iff.Cond)
					var succ, fail *ir.Block
					switch cs {
					case okText:
						succ, fail = iff.Then, iff.Else
					case "not(" + okText + ")":
						succ, fail = iff.Else, iff.Then
					}
					if cs == okText || cs == "not("+okText+")" {
						guards++
						if fail == nil || fail.Ret == nil || !panics(fail.Ret, nr) {
							badGuard = "the failing side of the test of " + okText + " does not reach a no-return diagnostic call"
						}
						if fail != nil && mentionsCall(fail.Ret) {
							badGuard = "the failing side of the test uses the results of " + call.text
						}
						walkBlock(succ, true)
						return
					}
				}
				if app, ok := t.(*ir.App); ok && ir.String(f.Path, app) == call.text {
					if !safe {
						unguarded++
					}
					return
				}
				// generic descent
				switch x := t.(type) {
				case *ir.If:
					walk(x.Cond, safe)
					walkBlock(x.Then, safe)
					walkBlock(x.Else, safe)
				case *ir.Seq:
					for _, e := range x.Effs {
						// `if not ok then <no-return>` as a statement guards everything after it
						if iff, ok := e.(*ir.If); ok && iff.Else == nil && ir.String(f.Path, iff.Cond) == "not("+okText+")" {
							guards++
							if iff.Then == nil || iff.Then.Ret == nil || !panics(iff.Then.Ret, nr) {
								badGuard = "the failing side of the test of " + okText + " does not reach a no-return diagnostic call"
							} else if mentionsCall(iff.Then.Ret) {
								badGuard = "the failing side of the test uses the results of " + call.text
							}
							safe = true
							continue
						}
						walk(e, safe)
					}
					walk(x.Ret, safe)
				case *ir.Match:
					walk(x.Scrut, safe)
					for _, a := range x.Arms {
						walkBlock(a.Body, safe)
					}
					walkBlock(x.Default, safe)
				case *ir.Lam:
					walkBlock(x.Body, safe)
				default:
					// every other node: visit children through Walk once
					first := true
					ir.Walk(t, func(y ir.Term) bool {
						if first {
							first = false
							return true
						}
						walk(y, safe)
						return false
					})
				}
			}
			walk(nf, false)
			switch {
			case guards == 0:
				r.Bad(rule, fn.Name, construct, pos, "the ok result of "+call.text+" is never tested: a failed "+call.kind+" goes unnoticed (exit status 0, no diagnostic)")
			case badGuard != "":
				r.Bad(rule, fn.Name, construct, pos, badGuard)
			case unguarded > 0:
				r.Bad(rule, fn.Name, construct, pos, sprintf("%d use(s) of the results of %s are not on the success side of the test of its ok result", unguarded, call.text))
			default:
				r.OK(rule, fn.Name, construct, pos, "ok result of "+call.text+" is tested; the failing side reaches a no-return diagnostic; all other uses are on the success side")
			}
		}
	}
	return
}

var fileMutatingAPIs = map[string]bool{
	"os.WriteFile": true, "os.Create": true, "os.OpenFile": true, "os.Rename": true, "os.Remove": true, "os.RemoveAll": true,
	"os.Mkdir": true, "os.MkdirAll": true, "os.MkdirTemp": true, "os.CreateTemp": true, "os.Truncate": true, "os.Chmod": true,
	"os.Symlink": true, "os.Link": true, "io/ioutil.WriteFile": true, "io/ioutil.TempFile": true, "os.Chtimes": true, "os.Chown": true,
	"os.StartProcess": true, "os/exec.Command": true, "syscall.Open": true, "syscall.Write": true,
}

func checkC16(c *Ctx) {
	r := c.R
	r.Explanation = "Termination in general is NOT decided. Decided clauses, each for all inputs and fault sequences: " +
		"(a) every sys.ReadFile/sys.WriteFile in fc has its ok result tested, the failing side reaches a no-return diagnostic call and no other use escapes the success side; " +
		"(b) the content of the only file write is data-dependent on the complete translation (RootStmtsToGo of ParseAll), and no other file-mutating API is referenced anywhere in fc or pkg/sys; " +
		"(c) defer OnParseError is the first statement of the success branch of transpileOne, OnParseError is the only caller of recover and exits with a non-zero constant, no os.Exit(0), no goroutines; " +
		"(d) every hand-written loop of fc/wrapper.go and pkg/* exits at end of input (its continuation condition is false under the end-of-input abstraction, or every cycle passes an idx==len / idx>=len / buf[idx] exit with unit steps) and makes progress (a cursor incremented on every cycle, never decreased); four loops are in a manual table with reasons; " +
		"(e) unfolding of named/cyclic data is guarded: visited-set consistency between sibling arms of a traversal, depth guard on resolver unfolding; " +
		"(f) parser productivity (ADV): an abstract interpretation computes for every ParseState value whether it has consumed at least one token since the function's own state (psConsume of a non-EOF token: yes; psNext: yes when the current token is known not to be EOF; transformers keep the level; summaries are a greatest fixpoint); the call/callback graph (callbacks merged per function type, bindings are edges from the type) has no cycle made only of non-consuming edges, and every function bound to a ParseList/ParseList2 step or to a grammar callback returns an advanced state — so parsing terminates on every finite token sequence."
	r.NotDecided = []string{
		"the updateResolver fixpoint and the recursion of type inference/resolution other than the guarded unfoldings",
		"stack depth proportional to input size (deeply nested input), memory exhaustion",
	}
	r.Assumptions = []string{
		"a Go run-time panic (index out of range, explicit panic) inside the deferred region is recovered by OnParseError and becomes a diagnostic with exit status 1",
		"scanSpaceToken outer loop: each true disjunct of its guard is consumed by the corresponding inner step; nextToken: a SPACE token has positive length; every non-EOF token has positive length, so psNext/psConsume move forward in the buffer",
	}
	r.Rule("C16.a", "ok results of sys.ReadFile/WriteFile are tested; failing side reaches a no-return call", 2)
	r.Rule("C16.b", "the only file write gets the complete translation; no other file-mutating API", 3)
	r.Rule("C16.c", "single recover site, non-zero exit, deferred first in the success branch, no goroutines", 5)
	r.Rule("C16.d", "hand-written loops: exit at end of input and progress", 30)
	r.Rule("C16.g", "a recursive pass never applies the recursion twice to the same child on one path (time would be exponential in the nesting depth)", 70)
	r.Rule("C16.h", "a String/Error/GoString/Format method never hands its own receiver to a formatter (fmt would call it again: stack overflow, no diagnostic)", 40)
	checkFormattingMethodsDoNotReenter(c, "C16.h")
	r.Rule("C16.r", "every function of fc that can reach itself is in the reviewed inventory of recursive functions, each with a termination argument on record (consumes input, strict sub-term, guarded unfolding, explicit bound); a newly recursive function is undecided", 30)
	r.Rule("C16.e1", "visited-set consistency: if one name-unfolding arm of a traversal is guarded by the visited set, all are", 2)
	r.Rule("C16.e2", "resolver unfolding is guarded by a depth counter (compared with a constant before a no-return call, incremented in the knot)", 1)

	f := c.LoadFC("fc")
	if f == nil {
		return
	}
	_, frtProg, _ := libProg(c, "pkg/frt")
	if frtProg == nil {
		return
	}
	nr := noReturn(f.Prog, frtProg)
	r.Unit("no_return_functions", len(nr))

	// (a)
	reads, writes := checkIOResults(c, "C16.a", f, nr, true)
	r.Unit("io_call_sites", reads+writes)
	// the ok results mean what the rule assumes: closed forms of the sys wrappers
	checkTermSpecsOpt(c, "C16.a", "pkg/sys", c14Specs["pkg/sys"], false)

	// (b)
	if nf, fn := f.NF("transpileOne"); fn != nil {
		pos := c.Pos(f.M.Fset, fn.Decl.Pos())
		// every write's content is the complete translation or an extension of it (head/tail added): it is
		// evaluated — and every parse/infer/emit panic raised — before the write, and nothing of it is cut
		const want = "RootStmtsToGo(#1(ParseAll(psSetNewSrc(#0(sys.ReadFile(p1)), p0))))"
		nW, bad := 0, []string{}
		ir.Walk(f.N.Func(fn), func(t ir.Term) bool {
			if app, ok := isCallTo(t, sysPath+".WriteFile"); ok && len(app.Args) == 2 {
				nW++
				if !strictlyContains(f.Path, app.Args[1], want) {
					bad = append(bad, ir.String(f.Path, app.Args[1]))
				}
			}
			return true
		})
		r.Check(nW >= 1 && len(bad) == 0, "C16.b", "transpileOne", "write-content", pos,
			"the written content is "+want+" (possibly extended by a head or a tail): every parse/infer/emit panic precedes the write (data dependence)",
			"the content written is not the complete translation of the file (or an extension of it by AppendHead/AppendTail/+): "+strings.Join(bad, " | ")+" in "+short(nf, 200))
	} else {
		r.Undecided("C16.b", "transpileOne", "definition", "fc", "anchor function not found")
	}
	checkFileAPIs(c, "C16.b", f)
	// complete output: every .fo argument is written (the condition of the write is the suffix test only)
	checkTranspileOneForm(c, f, "C16.b")

	// (c)
	checkDiagnostics(c, f)

	// (d)
	checkLoops(c)

	// (e)
	checkUnfoldGuards(c, f, nr)

	// (f)
	runAdv(c, f, nr)
}

func short(s string, n int) string {
	if len(s) > n {
		// never cut inside a multi-byte character (the forms use ⟨ ⟩ … and the reports must stay valid UTF-8)
		for n > 0 && !utf8.RuneStart(s[n]) {
			n--
		}
		return s[:n] + "…"
	}
	return s
}

// checkFileAPIs: who-may-call for file mutation: only sys.WriteFile -> os.WriteFile, called from transpileOne.
func checkFileAPIs(c *Ctx, rule string, f *FC) {
	r := c.R
	_, sysProg, _ := libProg(c, "pkg/sys")
	if sysProg == nil {
		return
	}
	type site struct{ fn, api string }
	var sites []site
	seenSite := map[site]bool{}
	scanOne := func(owner, body *ir.Func) {
		ir.WalkFunc(body, func(t ir.Term) bool {
			if fr, ok := t.(*ir.FuncRef); ok {
				k := ir.ShortKey(fr.Key)
				if fileMutatingAPIs[k] && !seenSite[site{ir.ShortKey(owner.Key), k}] {
					seenSite[site{ir.ShortKey(owner.Key), k}] = true
					sites = append(sites, site{ir.ShortKey(owner.Key), k})
				}
				if fr.Key == sysPath+".WriteFile" && !seenSite[site{ir.ShortKey(owner.Key), "sys.WriteFile"}] {
					seenSite[site{ir.ShortKey(owner.Key), "sys.WriteFile"}] = true
					sites = append(sites, site{ir.ShortKey(owner.Key), "sys.WriteFile"})
				}
			}
			return true
		})
	}
	// a helper added since the review is attributed to the reviewed functions that use it (its body is part of
	// their normal forms, where C16.b reads what is written)
	for _, at := range f.Attributed() {
		scanOne(at.Owner, at.Body)
	}
	for _, fn := range sysProg.Funcs {
		scanOne(fn, fn)
	}
	allowed := map[site]bool{
		{"sys.WriteFile", "os.WriteFile"}:                              true,
		{ir.ShortKey(f.Path + ".transpileOne"), "sys.WriteFile"}:       true,
		{"github.com/karino2/folang/fc.transpileOne", "sys.WriteFile"}: true,
		{"fc.transpileOne", "sys.WriteFile"}:                           true,
	}
	n := 0
	for _, s := range sites {
		n++
		r.Check(allowed[s], rule, s.fn, "file-api "+s.api, f.M.Dir, s.fn+" -> "+s.api+" is the single write path",
			s.fn+" references "+s.api+": a file-mutating call outside the single checked write path (output could be written before or without complete translation)")
	}
	if n < 2 {
		r.Undecided(rule, "-", "file-api-sites", f.M.Dir, "expected the write path transpileOne -> sys.WriteFile -> os.WriteFile; found fewer sites")
	}
}

func checkDiagnostics(c *Ctx, f *FC) {
	r := c.R
	// defer first in success branch
	if t, fn := f.Term("transpileOne"); fn != nil {
		pos := c.Pos(f.M.Fset, fn.Decl.Pos())
		ok := false
		var walk func(t ir.Term)
		walk = func(t ir.Term) {
			ir.Walk(t, func(x ir.Term) bool {
				if iff, isIf := x.(*ir.If); isIf && ir.String(f.Path, iff.Cond) == "#1(sys.ReadFile(p1))" {
					if sq, isSeq := iff.Then.Ret.(*ir.Seq); isSeq && len(sq.Effs) > 0 && ir.String(f.Path, sq.Effs[0]) == "defer(OnParseError(p1))" {
						ok = true
					}
					return false
				}
				return true
			})
		}
		walk(t)
		r.Check(ok, "C16.c", "transpileOne", "defer-first", pos, "defer OnParseError(file) is the first statement of the success branch: every later panic becomes a diagnostic",
			"defer OnParseError(file) is not the first statement of the branch taken after a successful read")
	} else {
		r.Undecided("C16.c", "transpileOne", "definition", "fc", "anchor function not found")
	}
	checkNoDuplicateRecursion(c, f)
	checkRecursionInventory(c, f, "C16.r")
	checkOnParseErrorForm(c, f, "C16.c")
	// every command-line argument reaches transpileFiles: none is dropped, expanded or reordered before it is read (a missing file must end in a diagnostic)
	c.expectNF(f, "C16.a", "main", []string{"seq[if(slice.IsEmpty(slice.Tail(sys.Args())), seq[printUsage()], seq[transpileFiles(slice.Tail(sys.Args()))])]"},
		"the arguments after the program name are handed to transpileFiles as they are")
	var asp []termSpec
	for _, t := range c14Specs["pkg/sys"] {
		if t.fn == "Args" {
			asp = append(asp, t)
		}
	}
	if len(asp) > 0 {
		checkTermSpecsOpt(c, "C16.a", "pkg/sys", asp, false)
	}
	// recover callers, os.Exit arguments, go statements
	var recoverers, exits []string
	badExit := ""
	for _, fn := range f.Prog.Funcs {
		ir.WalkFunc(fn, func(t ir.Term) bool {
			switch x := t.(type) {
			case *ir.Builtin:
				if x.Name == "recover" {
					recoverers = append(recoverers, fn.Name)
				}
			case *ir.App:
				if fr, ok := x.Fun.(*ir.FuncRef); ok && fr.Key == "os.Exit" {
					exits = append(exits, fn.Name)
					if len(x.Args) != 1 {
						badExit = fn.Name
					} else if lit, ok := x.Args[0].(*ir.Lit); !ok || lit.Val == "0" {
						badExit = fn.Name + " (os.Exit(" + ir.String(f.Path, x.Args[0]) + "))"
					}
				}
			}
			return true
		})
	}
	uniq := func(ss []string) []string {
		m := map[string]bool{}
		for _, s := range ss {
			m[s] = true
		}
		return sortedKeys(m)
	}
	rc := uniq(recoverers)
	r.Check(len(rc) == 1 && rc[0] == "OnParseError", "C16.c", "fc", "recover-sites", "fc", "OnParseError is the only function calling recover", "recover is called in "+strings.Join(rc, ","))
	r.Check(badExit == "" && len(exits) > 0, "C16.c", "fc", "exit-status", "fc", "every os.Exit has a non-zero constant argument ("+strings.Join(uniq(exits), ",")+")", "os.Exit with a zero or non-constant status in "+badExit)
	// goroutines / select in fc (syntax)
	gos := 0
	for _, o := range f.Prog.Opaques {
		_ = o
	}
	for _, fn := range f.Prog.Funcs {
		var ws func(b *ir.Block)
		ws = func(b *ir.Block) {
			if b == nil {
				return
			}
			for _, s := range b.Stmts {
				if os, ok := s.(*ir.OpaqueStmt); ok && os.Why == "unsupported statement" {
					gos++
				}
			}
		}
		ws(fn.Body)
	}
	r.Check(goStmtCount(f) == 0, "C16.c", "fc", "no-goroutines", "fc", "no go statement, select or channel operation in fc", "fc contains go/select/channel statements: a panic in another goroutine is not recovered by OnParseError")
}

// checkUnfoldGuards: C16.e.
func checkUnfoldGuards(c *Ctx, f *FC, nr map[string]bool) {
	r := c.R
	unfoldKeys := map[string]bool{f.Path + ".lookupRecInfo": true, f.Path + ".lookupUniInfo": true, f.Path + ".utCases": true}
	// summaries: function g unfolds parameter i with knot parameter j
	type sum struct{ data, knot int }
	sums := map[string][]sum{}
	for _, fn := range f.Prog.Funcs {
		if !fn.Generated {
			continue
		}
		nf := f.N.Func(fn)
		var datas []int
		ir.Walk(nf, func(t ir.Term) bool {
			if app, ok := t.(*ir.App); ok {
				if fr, ok := app.Fun.(*ir.FuncRef); ok && unfoldKeys[fr.Key] && len(app.Args) == 1 {
					if p, ok := app.Args[0].(*ir.Param); ok {
						datas = append(datas, p.Idx)
					}
				}
			}
			return true
		})
		if len(datas) == 0 {
			continue
		}
		for j, p := range fn.Params {
			if _, isFn := p.Type().Underlying().(*types.Signature); !isFn {
				continue
			}
			used := false
			ir.Walk(nf, func(t ir.Term) bool {
				if pp, ok := t.(*ir.Param); ok && pp.Idx == j {
					used = true
				}
				return true
			})
			if used {
				for _, d := range datas {
					sums[fn.Key] = append(sums[fn.Key], sum{d, j})
				}
			}
		}
	}
	// e1
	for _, fn := range f.Prog.Funcs {
		if !fn.Generated {
			continue
		}
		setParam := -1
		for i, p := range fn.Params {
			if n, ok := p.Type().(*types.Named); ok && (n.Obj().Name() == "SSet" || n.Obj().Name() == "TMemo") {
				setParam = i
			}
		}
		if setParam < 0 {
			continue
		}
		nf := f.N.Func(fn)
		m, ok := nf.(*ir.Match)
		if !ok {
			continue
		}
		pos := c.Pos(f.M.Fset, fn.Decl.Pos())
		selfRef := func(t ir.Term) bool {
			found := false
			ir.Walk(t, func(x ir.Term) bool {
				if fr, ok := x.(*ir.FuncRef); ok && fr.Key == fn.Key {
					found = true
				}
				return !found
			})
			return found
		}
		mentionsPayload := func(t ir.Term, binder *types.Var) bool {
			found := false
			ir.Walk(t, func(x ir.Term) bool {
				if p, ok := x.(*ir.Payload); ok && p.Of == binder {
					found = true
				}
				return !found
			})
			return found
		}
		unfolds := func(body ir.Term, binder *types.Var) bool {
			res := false
			ir.Walk(body, func(t ir.Term) bool {
				app, ok := t.(*ir.App)
				if !ok {
					return true
				}
				fr, ok := app.Fun.(*ir.FuncRef)
				if !ok {
					return true
				}
				if unfoldKeys[fr.Key] && len(app.Args) == 1 && mentionsPayload(app.Args[0], binder) && selfRef(body) {
					res = true
				}
				for _, s := range sums[fr.Key] {
					if s.data < len(app.Args) && s.knot < len(app.Args) && mentionsPayload(app.Args[s.data], binder) && selfRef(app.Args[s.knot]) {
						res = true
					}
				}
				return true
			})
			return res
		}
		guarded := func(body ir.Term, binder *types.Var) bool {
			iff, ok := body.(*ir.If)
			if !ok || iff.Else == nil {
				return false
			}
			app, ok := isCallTo(iff.Cond, f.Path+".SSetHasKey")
			putName := ".SSetPut"
			if !ok {
				// memo form: if #1(TMemoTryFind(m, k)) then … else seq[TMemoPut(m, k, placeholder); …]
				if pj, isProj := iff.Cond.(*ir.Proj); isProj && pj.I == 1 {
					app, ok = isCallTo(pj.X, f.Path+".TMemoTryFind")
					putName = ".TMemoPut"
				}
			}
			if !ok || len(app.Args) != 2 {
				return false
			}
			if p, ok := app.Args[0].(*ir.Param); !ok || p.Idx != setParam {
				return false
			}
			key := ir.String(f.Path, app.Args[1])
			if unfolds(iff.Then.Ret, binder) {
				return false
			}
			sq, ok := iff.Else.Ret.(*ir.Seq)
			if !ok || len(sq.Effs) == 0 {
				return false
			}
			put, ok := isCallTo(sq.Effs[0], f.Path+putName)
			return ok && len(put.Args) >= 2 && ir.String(f.Path, put.Args[1]) == key
		}
		type armInfo struct {
			name             string
			unfolds, guarded bool
		}
		var arms []armInfo
		anyGuard := false
		for _, a := range m.Arms {
			name := strings.TrimPrefix(ir.CaseName(a.Cases[0]), "FType_")
			ai := armInfo{name: name, unfolds: unfolds(a.Body.Ret, a.Binder), guarded: guarded(a.Body.Ret, a.Binder)}
			if ai.guarded {
				anyGuard = true
			}
			arms = append(arms, ai)
		}
		if !anyGuard {
			continue // the function states no belief
		}
		for _, a := range arms {
			if !a.unfolds && !a.guarded {
				continue
			}
			if a.guarded {
				r.OK("C16.e1", fn.Name, a.name, pos, "arm "+a.name+" unfolds a named type under the visited-set / memo guard (membership test, entry stored before descending)")
			} else {
				r.Bad("C16.e1", fn.Name, a.name, pos, "arm "+a.name+" unfolds a named type by name and re-enters the traversal without the visited-set guard its sibling arm uses: a self-referential definition recurses until the Go stack is exhausted (fatal error, not a diagnostic)")
			}
		}
	}
	// e2
	found := 0
	for _, fn := range f.Prog.Funcs {
		if !fn.Generated {
			continue
		}
		nf := f.N.Func(fn)
		usesRes, self := false, false
		ir.Walk(nf, func(t ir.Term) bool {
			if fl, ok := t.(*ir.Field); ok && fl.Name == "resType" {
				if _, ok := isCallTo(fl.X, f.Path+".rsLookupEI"); ok {
					usesRes = true
				}
			}
			if fr, ok := t.(*ir.FuncRef); ok && fr.Key == fn.Key {
				self = true
			}
			return true
		})
		if !usesRes || !self {
			continue
		}
		found++
		pos := c.Pos(f.M.Fset, fn.Decl.Pos())
		// depth parameter: int param d with leading effect if((pd > K), seq[noreturn])
		depth := -1
		if sq, ok := nf.(*ir.Seq); ok {
			for _, e := range sq.Effs {
				iff, ok := e.(*ir.If)
				if !ok || iff.Else != nil || !panics(iff.Then.Ret, nr) {
					continue
				}
				if bo, ok := iff.Cond.(*ir.BinOp); ok && (bo.Op == ">" || bo.Op == ">=") {
					if p, ok := bo.L.(*ir.Param); ok {
						if _, ok := bo.R.(*ir.Lit); ok {
							depth = p.Idx
						}
					}
				}
			}
		}
		if depth < 0 {
			r.Bad("C16.e2", fn.Name, "resolver-unfolding", pos, "the function re-enters itself on data obtained from rsLookupEI(…).resType without a depth guard or occurs check: a cyclic constraint (let f x = x x) overflows the Go stack (fatal error, not a diagnostic)")
			continue
		}
		// every self reference increments the depth argument by a positive constant
		okInc := true
		ir.Walk(nf, func(t ir.Term) bool {
			var fun ir.Term
			var args []ir.Term
			switch x := t.(type) {
			case *ir.App:
				fun, args = x.Fun, x.Args
			case *ir.PApp:
				fun, args = x.Fun, x.First
			default:
				return true
			}
			if fr, ok := fun.(*ir.FuncRef); ok && fr.Key == fn.Key {
				if depth >= len(args) {
					okInc = false
					return true
				}
				bo, ok := args[depth].(*ir.BinOp)
				if !ok || bo.Op != "+" {
					okInc = false
					return true
				}
				p, ok1 := bo.L.(*ir.Param)
				l, ok2 := bo.R.(*ir.Lit)
				if !ok1 || !ok2 || p.Idx != depth || strings.HasPrefix(l.Val, "-") || l.Val == "0" {
					okInc = false
				}
			}
			return true
		})
		r.Check(okInc, "C16.e2", fn.Name, "resolver-unfolding", pos,
			"unfolding of resolved types is bounded: depth parameter compared with a constant before a no-return call and incremented at every re-entry",
			"a re-entry does not increment the depth parameter: the guard never fires")
	}
	if found == 0 {
		r.Undecided("C16.e2", "-", "resolver-unfolding", "fc", "no function unfolding rsLookupEI(…).resType recursively was found (anchor moved?)")
	}
}

// goStmtCount counts go statements, select statements and channel operations in the package syntax.
func goStmtCount(f *FC) int {
	n := 0
	for _, file := range f.M.Main().Syntax {
		n += countConcurrency(file)
	}
	return n
}

// checkOnParseErrorForm: the recovered branch prints the file name and the recovered value, unmodified, and exits.
func checkOnParseErrorForm(c *Ctx, f *FC, rule string) {
	c.expectNF(f, rule, "OnParseError", []string{
		`if((recover() != nil), seq[fmt.Printf(<str>, p0, recover()); os.Exit(<_>)], seq[])`,
		`if((recover() != nil), seq[fmt.Println(<_>); os.Exit(<_>)], seq[])`,
		`if((recover() != nil), seq[fmt.Fprintf(var:os.Stderr, <str>, p0, recover()); os.Exit(<_>)], seq[])`,
		`if((recover() != nil), seq[fmt.Fprintf(var:os.Stdout, <str>, p0, recover()); os.Exit(<_>)], seq[])`,
	}, "the recovered branch prints the diagnostic (file name and the recovered value as it is) and exits")
}
