package rules

import (
	"go/ast"
	"go/token"
	"go/types"
	"regexp"
	"sort"
	"strconv"
	"strings"

	"verif/tools/internal/core"
	"verif/tools/internal/ir"
)

// C14 — dict, strings, buf, frt (and sys) helpers behave as their signatures
// promise.  These are thin wrappers: for a loop-free wrapper the closed-form
// term *is* its behaviour relative to the Go standard library (TERM, DESIGN §2).
// The specification terms below are the property statement written down in
// the printer's notation (pN = N-th parameter, #i = i-th tuple component,
// seq[..] = effects in order, <_> = any atom).

func init() { Register("C14", checkC14) }

type termSpec struct {
	fn     string
	accept []string // accepted normal forms
	why    string
}

var c14Specs = map[string][]termSpec{
	"pkg/strings": {
		{"Length", []string{"len(p0)"}, "Length agrees with the byte count"},
		{"AppendTail", []string{"(p1 + p0)"}, "AppendTail tail s = s + tail"},
		{"AppendHead", []string{"(p0 + p1)"}, "AppendHead head s = head + s"},
		{"HasSuffix", []string{"strings.HasSuffix(p1, p0)"}, "HasSuffix suffix s: pipeline-friendly argument order"},
		{"TrimSuffix", []string{"strings.TrimSuffix(p1, p0)"}, "TrimSuffix suffix s"},
		{"HasPrefix", []string{"strings.HasPrefix(p1, p0)"}, "HasPrefix prefix s"},
		{"EncloseWith", []string{"((p0 + p2) + p1)", "(p0 + (p2 + p1))"}, "EncloseWith beg end center = beg + center + end"},
		{"Split", []string{"strings.Split(p1, p0)"}, "Split sep s"},
		{"SplitN", []string{"strings.SplitN(p2, p1, p0)"}, "SplitN count sep s"},
		{"IsEmpty", []string{`(p0 == "")`, "(len(p0) == 0)"}, "IsEmpty"},
		{"IsNotEmpty", []string{`(p0 != "")`, "(len(p0) != 0)", "(len(p0) > 0)"}, "IsNotEmpty"},
		{"Concat", []string{
			"seq[assign($0 := zero[bytes.Buffer]); range($1 $2 : p1){if(($1 != 0), seq[bytes.(Buffer).WriteString($0, p0); bytes.(Buffer).WriteString($0, $2)], seq[bytes.(Buffer).WriteString($0, $2)])}] bytes.(Buffer).String($0)",
			"strings.Join(p1, p0)",
		}, "Concat sep xs = xs joined in order with sep between consecutive elements (separator before every element but the first)"},
	},
	"pkg/buf": {
		{"New", []string{"&Buffer{}", "new(type[bytes.Buffer])"}, "New allocates an empty buffer"},
		{"Write", []string{"seq[bytes.(Buffer).WriteString(p0, p1)]"}, "Write appends to the buffer it was given"},
		{"String", []string{"bytes.(Buffer).String(p0)"}, "String returns the accumulated content"},
	},
	"pkg/sys": {
		{"Args", []string{"var:os.Args"}, "Args = os.Args"},
		{"ReadFile", []string{"seq[assign($0 := os.ReadFile(p0))] (conv[string](#0($0)), (#1($0) == nil))", "(conv[string](#0(os.ReadFile(p0))), (#1(os.ReadFile(p0)) == nil))"}, "ReadFile = (content, err == nil)"},
		{"WriteFile", []string{"(os.WriteFile(p0, conv[[]byte](p1), <_>) == nil)"}, "WriteFile = (err == nil) of os.WriteFile(path, []byte(content), _)"},
	},
	"pkg/dict": {
		{"New", []string{"Dict{Fdict: make(type[map[K]V])}"}, "New allocates an empty map"},
		{"Add", []string{"seq[assign(p0.Fdict[p1] = p2)]"}, "Add overwrites d[key]"},
		{"ContainsKey", []string{"#1(lookup2(p0.Fdict, p1))"}, "ContainsKey = comma-ok on the same map and key"},
		{"TryFind", []string{"(#0(lookup2(p0.Fdict, p1)), #1(lookup2(p0.Fdict, p1)))"}, "TryFind = (value, ok)"},
		{"Item", []string{"p0.Fdict[p1]"}, "Item = d[key]"},
		{"KVs", []string{"seq[assign($0 := zero[[]frt.Tuple2[K, V]]); range($1 $2 : p0.Fdict){seq[assign($0 = append($0, ($1, $2)))]}] $0"}, "KVs enumerates each entry once as (key, value)"},
		{"Keys", []string{"seq[assign($0 := zero[[]K]); range($1 _ : p0.Fdict){seq[assign($0 = append($0, $1))]}] $0"}, "Keys enumerates each key once"},
		{"Values", []string{"seq[assign($0 := zero[[]V]); range(_ $1 : p0.Fdict){seq[assign($0 = append($0, $1))]}] $0"}, "Values enumerates each value once"},
		{"ToDict", []string{"seq[assign($0 := New()); range(_ $1 : p0){seq[Add($0, #0($1), #1($1))]}] $0"}, "ToDict adds in order, so the last value per key wins"},
	},
	"pkg/frt": {
		{"Pipe", []string{"p1(p0)"}, "Pipe x f = f x, exactly one call"},
		{"PipeUnit", []string{"seq[p1(p0)]"}, "PipeUnit x f = f x"},
		{"Println", []string{"seq[fmt.Println(p0)]"}, "Println"},
		{"Sprintf1", []string{"fmt.Sprintf(p0, p1)"}, "argument order"},
		{"Sprintf2", []string{"fmt.Sprintf(p0, p1, p2)"}, "argument order"},
		{"Printf1", []string{"seq[fmt.Printf(p0, p1)]"}, "argument order"},
		{"OpNot", []string{"not(p0)"}, "OpNot"},
		{"OpAnd", []string{"(p0 && p1)"}, "OpAnd"},
		{"IfElse", []string{"if(p0, p1(), p2())"}, "true edge of the un-negated condition calls tbody exactly once, false edge fbody; the result is returned"},
		{"IfElseUnit", []string{"if(p0, seq[p1()], seq[p2()])"}, "exactly one branch runs"},
		{"IfOnly", []string{"if(p0, seq[p1()], seq[])"}, "tbody runs iff cond"},
		{"NewTuple2", []string{"(p0, p1)"}, "field routing"},
		{"NewTuple3", []string{"(p0, p1, p2)"}, "field routing"},
		{"Fst", []string{"#0(p0)"}, "Fst"},
		{"Snd", []string{"#1(p0)"}, "Snd"},
		{"Destr2", []string{"ret(#0(p0), #1(p0))"}, "Destr2 inverse of NewTuple2"},
		{"Destr", []string{"ret(#0(p0), #1(p0))", "Destr2(p0)"}, "Destr (obsolete alias) inverse of NewTuple2"},
		{"Destr3", []string{"ret(#0(p0), #1(p0), #2(p0))"}, "Destr3 inverse of NewTuple3"},
		{"Assert", []string{"if(not(p0), seq[panic(p1)], seq[])"}, "panics iff !cond"},
		{"Panic", []string{"seq[panic(p0)]"}, "Panic"},
		{"Panicf1", []string{"seq[panic(Sprintf1(p0, p1))]", "seq[panic(fmt.Sprintf(p0, p1))]"}, "argument order"},
		{"Panicf2", []string{"seq[panic(Sprintf2(p0, p1, p2))]", "seq[panic(fmt.Sprintf(p0, p1, p2))]"}, "argument order"},
		{"Empty", []string{"zero[T]"}, "zero value"},
		{"SInterP", []string{"seq[assign($0 := zero[[]any]); range(_ $1 : p1){seq[assign($0 = append($0, toS($1)))]}] fmt.Sprintf(p0, $0...)"},
			"every argument is mapped through toS in order and the format is forwarded unchanged"},
	},
}

func specRegexp(pat string) *regexp.Regexp {
	q := regexp.QuoteMeta(pat)
	q = strings.ReplaceAll(q, regexp.QuoteMeta("<_>"), `[^,()\[\]{};]+`)
	q = strings.ReplaceAll(q, regexp.QuoteMeta("<str>"), `"(?:[^"\\]|\\.)*"`)
	return regexp.MustCompile("^" + q + "$")
}

// libProg lowers a hand-written package for the TERM rules.
func libProg(c *Ctx, dir string) (*core.Module, *ir.Program, *ir.Normalizer) {
	m := c.Load(dir, false)
	if m == nil {
		return nil, nil, nil
	}
	prog := ir.LowerPackage(m.Main())
	n := ir.NewNormalizer()
	n.KeepShared = true
	inlineExpressionFuncs(prog, n)
	return m, prog, n
}

// inlineExpressionFuncs: a library function whose whole body is `return <expression>` (IsEmpty, Len, a private
// clone helper) is a spelling of that expression; calls of it inside the same package are read as the expression,
// so that `if IsEmpty(s)` and `if len(s) == 0` summarise alike.  The function itself keeps its own specification.
func inlineExpressionFuncs(prog *ir.Program, n *ir.Normalizer) {
	for _, fn := range prog.Funcs {
		if fn.Decl == nil || fn.Decl.Recv != nil || fn.Decl.Body == nil || len(fn.Decl.Body.List) != 1 || reachesItself(prog, fn) {
			continue
		}
		if len(fn.Params) == 0 {
			continue // a constructor (dict.New, buf.New): the allocation it stands for is named in the specifications
		}
		rs, ok := fn.Decl.Body.List[0].(*ast.ReturnStmt)
		if !ok || len(rs.Results) != 1 {
			continue
		}
		hasLit := false
		ast.Inspect(rs.Results[0], func(x ast.Node) bool {
			if _, ok := x.(*ast.FuncLit); ok {
				hasLit = true
			}
			return true
		})
		if !hasLit {
			n.Inline[fn.Key] = fn
		}
	}
}

func checkTermSpecs(c *Ctx, rule, dir string, specs []termSpec) {
	checkTermSpecsOpt(c, rule, dir, specs, true)
}

func checkTermSpecsOpt(c *Ctx, rule, dir string, specs []termSpec, noteExtras bool) {
	r := c.R
	m, prog, n := libProg(c, dir)
	if m == nil {
		return
	}
	pkgPath := m.Main().PkgPath
	specd := map[string]bool{}
	for _, sp := range specs {
		specd[sp.fn] = true
		fn, ok := prog.ByName[sp.fn]
		if !ok {
			r.Undecided(rule, dir+"."+sp.fn, "definition", dir, "anchor function not found (renamed or removed): "+sp.why)
			continue
		}
		nf := canonShape(ir.String(pkgPath, canonLoops(n.Func(fn))))
		pos := c.Pos(m.Fset, fn.Decl.Pos())
		ok = false
		for _, a := range sp.accept {
			if specRegexp(canonShape(a)).MatchString(nf) {
				ok = true
			}
		}
		r.Check(ok, rule, dir+"."+sp.fn, "closed-form", pos,
			sp.why+": "+nf,
			"closed form is not the specification term ("+sp.why+"); either the behaviour changed or the body was rewritten into a form this rule cannot decide; "+diffHint(nf, sp.accept[0]))
	}
	var extra []string
	for _, fn := range prog.Funcs {
		if token.IsExported(fn.Name) && fn.Decl.Recv == nil && !specd[fn.Name] {
			extra = append(extra, fn.Name)
		}
	}
	sort.Strings(extra)
	if len(extra) > 0 && noteExtras {
		r.Note("%s: exported functions without a specification term (not decided): %s", dir, strings.Join(extra, ", "))
	}
}

func checkC14(c *Ctx) {
	r := c.R
	r.Explanation = "The helpers are thin wrappers, so each loop-free wrapper is summarised to a canonical closed-form term over its parameters " +
		"(typed syntax lowered to FoIR; lets inlined; no commutativity assumed) and compared with the specification term written from the property statement: " +
		"argument routing of the curried strings wrappers, field routing of tuples, branch polarity and exactly-once thunk calls of IfElse/IfElseUnit/IfOnly, " +
		"comma-ok lookups of dict on the same map and key, formatting argument order. Loops (dict.Keys/Values/KVs/ToDict, strings.Concat, frt.SInterP) are compared in a " +
		"loop normal form (range operand, single unconditional append / ordered writes). reflect kind/accessor compatibility of frt.toS is checked per case clause. " +
		"What is decided is the wrappers' shape relative to the Go standard library — for all inputs and operation histories — not the standard library itself."
	r.NotDecided = []string{"behaviour of Go maps, strings, bytes.Buffer, fmt and reflect themselves (trusted)", ".foi signature agreement is reported under FOI (C03/C13 evidence) once built"}
	r.Assumptions = []string{"Go standard library semantics (maps, strings.*, bytes.Buffer, fmt.Sprintf, reflect.Value accessors)"}
	r.Rule("C14.a", "closed-form term of every specified wrapper equals its specification term (strings, buf, sys, frt)", 40)
	r.Rule("C14.b", "dict shape: Add/TryFind/ContainsKey/Item on the same map and key; Keys/Values/KVs one unconditional append per entry; ToDict in-order Add", 9)
	r.Rule("C14.d", "frt.toS: every reflect accessor is compatible with all kinds of its case clause; verbs match; default uses %v on the argument", 5)
	for _, dir := range []string{"pkg/strings", "pkg/buf", "pkg/sys", "pkg/frt"} {
		checkTermSpecs(c, "C14.a", dir, c14Specs[dir])
	}
	checkTermSpecs(c, "C14.b", "pkg/dict", c14Specs["pkg/dict"])
	checkToS(c)
	// (e) implicit dispatch: fmt prints a value through its String/Error/Format/GoString method when it has one, so a
	// method of that name on a library type changes what frt.Println / Sprintf / SInterP show for every value containing it
	r.Rule("C14.e", "no library type has a String, Error, Format or GoString method (fmt would print through it instead of showing the value's structure)", 6)
	for _, dir := range []string{"pkg/frt", "pkg/slice", "pkg/dict", "pkg/strings", "pkg/buf", "pkg/sys"} {
		lm, lp, _ := libProg(c, dir)
		if lm == nil {
			continue
		}
		var ms []string
		for _, fn := range lp.Funcs {
			if fn.Decl != nil && fn.Decl.Recv != nil {
				switch fn.Decl.Name.Name {
				case "String", "Error", "Format", "GoString":
					ms = append(ms, funcLabel(fn.Decl))
				}
			}
		}
		r.Check(len(ms) == 0, "C14.e", dir, "no-formatting-method", dir, "no type of "+dir+" has a String/Error/Format/GoString method",
			"method(s) "+strings.Join(ms, ", ")+": fmt prints values of this type (and everything containing them) through the method, so %v / Println / string interpolation no longer show the structure the documentation describes")
	}

}

var reflectKinds = map[string]string{
	"Int": "int", "Int8": "int", "Int16": "int", "Int32": "int", "Int64": "int",
	"Uint": "uint", "Uint8": "uint", "Uint16": "uint", "Uint32": "uint", "Uint64": "uint", "Uintptr": "uint",
	"Float32": "float", "Float64": "float", "String": "string", "Bool": "bool",
	"Complex64": "complex", "Complex128": "complex",
}

var accessorClass = map[string]string{
	"reflect.(Value).Int": "int", "reflect.(Value).Uint": "uint", "reflect.(Value).Float": "float",
	"reflect.(Value).String": "string", "reflect.(Value).Bool": "bool", "reflect.(Value).Complex": "complex",
}

var verbClass = map[string]map[string]bool{
	"int": {"%d": true, "%v": true}, "uint": {"%d": true, "%v": true},
	"float": {"%f": true, "%v": true, "%g": true}, "string": {"%s": true, "%v": true}, "bool": {"%t": true, "%v": true},
}

// checkToS: C14.d.
func checkToS(c *Ctx) { checkToSRule(c, "C14.d") }

func checkToSRule(c *Ctx, ruleID string) {
	r := c.R
	m, prog, n := libProg(c, "pkg/frt")
	if m == nil {
		return
	}
	fn, ok := prog.ByName["toS"]
	if !ok {
		r.Undecided(ruleID, "pkg/frt.toS", "definition", "pkg/frt", "anchor function toS not found")
		return
	}
	pos := c.Pos(m.Fset, fn.Decl.Pos())
	// value -> reflect.Kind constant name
	kindName := map[string]string{}
	if rp := m.Main().Imports["reflect"]; rp != nil && rp.Types != nil {
		sc := rp.Types.Scope()
		for _, name := range sc.Names() {
			if cst, ok := sc.Lookup(name).(*types.Const); ok && cst.Type().String() == "reflect.Kind" {
				kindName[cst.Val().ExactString()] = name
			}
		}
	}
	if len(kindName) < 20 {
		r.Undecided(ruleID, "pkg/frt.toS", "reflect-kinds", pos, "cannot resolve the reflect.Kind constants")
		return
	}
	_ = n
	nf := ir.NewNormalizer().Func(fn) // plain value semantics: rval is a value, inline it
	sm, ok := nf.(*ir.StrMatch)
	if !ok {
		r.Undecided(ruleID, "pkg/frt.toS", "shape", pos, "toS is not a single switch over the value's kind: "+ir.String(m.Main().PkgPath, nf))
		return
	}
	scr := ir.String("", sm.Scrut)
	const wantScr = "reflect.(Value).Kind(reflect.ValueOf(p0))"
	r.Check(scr == wantScr, ruleID, "pkg/frt.toS", "scrutinee", pos, "switch is over reflect.ValueOf(arg).Kind()", "switch scrutinee is "+scr+", expected "+wantScr)
	const recv = "reflect.ValueOf(p0)"
	checkBody := func(label string, kinds []string, body ir.Term) {
		// accessors used
		ir.Walk(body, func(t ir.Term) bool {
			app, ok := t.(*ir.App)
			if !ok {
				return true
			}
			fr, ok := app.Fun.(*ir.FuncRef)
			if !ok {
				return true
			}
			key := ir.ShortKey(fr.Key)
			if cls, ok := accessorClass[key]; ok {
				good := len(app.Args) == 1 && ir.String("", app.Args[0]) == recv
				var bad []string
				for _, k := range kinds {
					if reflectKinds[k] != cls {
						bad = append(bad, k)
						good = false
					}
				}
				if label == "default" {
					good = false
					bad = []string{"(any kind)"}
				}
				r.Check(good, ruleID, "pkg/frt.toS", "case "+label+" "+key, pos,
					key+" is valid for every kind of its clause ["+strings.Join(kinds, ",")+"]",
					key+" panics (or yields a placeholder) for kind(s) "+strings.Join(bad, ",")+" listed in the same case clause")
			}
			if key == "fmt.Sprintf" && len(app.Args) >= 1 {
				if lit, ok := app.Args[0].(*ir.Lit); ok {
					verb := lit.Val
					okv := true
					for _, k := range kinds {
						if vc, ok := verbClass[reflectKinds[k]]; ok && !vc[verb] {
							okv = false
						}
					}
					if label == "default" {
						okv = verb == "%v" && len(app.Args) == 2 && ir.String("", app.Args[1]) == "p0"
					}
					r.Check(okv, ruleID, "pkg/frt.toS", "case "+label+" verb", pos,
						"format "+strconv.Quote(verb)+" suits the clause", "format "+strconv.Quote(verb)+" does not suit kinds ["+strings.Join(kinds, ",")+"]")
				}
			}
			return true
		})
	}
	covered := map[string]bool{}
	for _, arm := range sm.Arms {
		var kinds []string
		for _, v := range arm.Vals {
			if lit, ok := v.(*ir.Lit); ok {
				if kn, ok := kindName[lit.Val]; ok {
					kinds = append(kinds, kn)
					covered[kn] = true
					continue
				}
			}
			kinds = append(kinds, "?"+ir.String("", v))
		}
		checkBody(strings.Join(kinds, ","), kinds, arm.Body.Ret)
	}
	if sm.Default != nil {
		checkBody("default", nil, sm.Default.Ret)
	} else {
		r.Bad(ruleID, "pkg/frt.toS", "default", pos, "no default clause: other values are not formatted")
	}
	// integers of every kind must be formatted in decimal: every int/uint kind is covered by a clause
	var missing []string
	for k, cls := range reflectKinds {
		if (cls == "int" || cls == "uint") && !covered[k] {
			missing = append(missing, k)
		}
	}
	sort.Strings(missing)
	r.Check(len(missing) == 0, ruleID, "pkg/frt.toS", "integer-kinds", pos, "every signed and unsigned integer kind has a clause",
		"integer kinds without a clause (would be formatted by %v of the default, which is fine for values but not the documented decimal path): "+strings.Join(missing, ","))
}
