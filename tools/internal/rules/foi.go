package rules

import (
	"fmt"
	"go/types"
	"os"
	"path/filepath"
	"sort"
	"strings"

	"verif/tools/internal/fo"
	"verif/tools/internal/ir"
)

// FOI — package_info ↔ Go signature agreement (DESIGN.md §C14.e).
// A parser for the signature sub-language (`let N<T,U>: type`, `type N<K,V>`;
// the C15 grammar) maps each declaration to the expected Go signature and
// compares it structurally with the go/types signature.

type foType struct {
	kind string    // name | slice | tuple | func | unit
	name string    // kind name: possibly qualified "dict.Dict"
	args []*foType // type args (name), elem (slice), elems (tuple), params+result (func)
}

func (t *foType) String() string {
	switch t.kind {
	case "unit":
		return "()"
	case "slice":
		return "[]" + t.args[0].String()
	case "tuple":
		var ss []string
		for _, a := range t.args {
			ss = append(ss, a.String())
		}
		return "(" + strings.Join(ss, "*") + ")"
	case "func":
		var ss []string
		for _, a := range t.args {
			ss = append(ss, a.String())
		}
		return "(" + strings.Join(ss, "->") + ")"
	}
	if len(t.args) > 0 {
		var ss []string
		for _, a := range t.args {
			ss = append(ss, a.String())
		}
		return t.name + "<" + strings.Join(ss, ",") + ">"
	}
	return t.name
}

type foDecl struct {
	kind    string // let | type
	name    string
	tparams []string
	arrows  []*foType // let: flat arrow list
	line    int
	file    string
}

type foPkgInfo struct {
	pkg   string
	decls []foDecl
	file  string
	line  int
}

type tparser struct {
	toks []fo.Tok
	pos  int
	err  string
}

func (p *tparser) cur() fo.Tok {
	if p.pos < len(p.toks) {
		return p.toks[p.pos]
	}
	return fo.Tok{Kind: fo.EOF}
}
func (p *tparser) is(text string) bool { return p.cur().Kind == fo.PUNCT && p.cur().Text == text }
func (p *tparser) eat(text string) bool {
	if p.is(text) {
		p.pos++
		return true
	}
	return false
}

// type := elem ('->' elem)*   (flat list; right nesting only through parentheses)
func (p *tparser) arrows() []*foType {
	res := []*foType{p.elem()}
	for p.eat("->") {
		res = append(res, p.elem())
	}
	return res
}

func (p *tparser) typ() *foType {
	as := p.arrows()
	if len(as) == 1 {
		return as[0]
	}
	return &foType{kind: "func", args: as}
}

// elem := term ('*' term)*
func (p *tparser) elem() *foType {
	ts := []*foType{p.term()}
	for p.eat("*") {
		ts = append(ts, p.term())
	}
	if len(ts) == 1 {
		return ts[0]
	}
	return &foType{kind: "tuple", args: ts}
}

// term := '[' ']' term | atom
func (p *tparser) term() *foType {
	if p.is("[") {
		p.pos++
		if !p.eat("]") {
			p.err = "expected ]"
		}
		return &foType{kind: "slice", args: []*foType{p.term()}}
	}
	return p.atom()
}

func (p *tparser) atom() *foType {
	if p.eat("(") {
		if p.eat(")") {
			return &foType{kind: "unit"}
		}
		t := p.typ()
		if !p.eat(")") {
			p.err = "expected )"
		}
		return t
	}
	t := p.cur()
	if t.Kind != fo.IDENT {
		p.err = "unexpected token " + t.Text
		p.pos++
		return &foType{kind: "name", name: "?"}
	}
	p.pos++
	name := t.Text
	if p.is(".") {
		p.pos++
		name += "." + p.cur().Text
		p.pos++
	}
	res := &foType{kind: "name", name: name}
	if p.is("<") {
		p.pos++
		for {
			res.args = append(res.args, p.typ())
			if p.eat(",") {
				continue
			}
			break
		}
		if !p.eat(">") {
			p.err = "expected >"
		}
	}
	return res
}

// parsePackageInfos extracts the package_info blocks of a token stream.
func parsePackageInfos(file string, toks []fo.Tok) ([]foPkgInfo, []string) {
	var res []foPkgInfo
	var errs []string
	for _, seg := range fo.Segments(toks) {
		if seg.Kind != "package_info" {
			continue
		}
		ts := seg.Toks
		if len(ts) < 3 {
			continue
		}
		pi := foPkgInfo{pkg: ts[1].Text, file: file, line: seg.Line}
		// split the body into lines
		var lines [][]fo.Tok
		var cur []fo.Tok
		for _, t := range ts[2:] {
			if t.Kind == fo.EOL {
				if len(cur) > 0 {
					lines = append(lines, cur)
				}
				cur = nil
				continue
			}
			cur = append(cur, t)
		}
		if len(cur) > 0 {
			lines = append(lines, cur)
		}
		for _, ln := range lines {
			if len(ln) == 1 && ln[0].Text == "=" {
				continue
			}
			if ln[0].Text == "=" {
				ln = ln[1:]
			}
			if len(ln) < 2 || ln[0].Kind != fo.IDENT {
				continue
			}
			d := foDecl{kind: ln[0].Text, name: ln[1].Text, line: ln[0].Line, file: file}
			if d.kind != "let" && d.kind != "type" {
				errs = append(errs, fmt.Sprintf("%s:%d: unexpected line in package_info", file, ln[0].Line))
				continue
			}
			i := 2
			if i < len(ln) && ln[i].Text == "<" {
				i++
				for i < len(ln) && ln[i].Text != ">" {
					if ln[i].Kind == fo.IDENT {
						d.tparams = append(d.tparams, ln[i].Text)
					}
					i++
				}
				i++
			}
			if d.kind == "let" {
				if i >= len(ln) || ln[i].Text != ":" {
					errs = append(errs, fmt.Sprintf("%s:%d: let %s without ':'", file, d.line, d.name))
					continue
				}
				tp := &tparser{toks: ln[i+1:]}
				d.arrows = tp.arrows()
				if tp.err != "" || tp.pos != len(tp.toks) {
					errs = append(errs, fmt.Sprintf("%s:%d: cannot parse the type of %s (%s)", file, d.line, d.name, tp.err))
					continue
				}
			}
			pi.decls = append(pi.decls, d)
		}
		res = append(res, pi)
	}
	return res, errs
}

// foiMatcher compares declared Folang types with Go types.
type foiMatcher struct {
	tparams   map[string]int            // declared type parameter -> index
	goTParams *types.TypeParamList      // of the Go function
	declTypes map[string]bool           // type names declared in the same package_info
	home      *types.Package            // the Go package the block describes
	imports   map[string]*types.Package // qualifier -> package (for dict.Dict etc.)
	self      *types.Package            // package of the .fo file (for user types used in `_` blocks)
}

func isFrtTuple(t types.Type) (int, *types.Named) {
	n, ok := types.Unalias(t).(*types.Named)
	if !ok || n.Obj().Pkg() == nil || n.Obj().Pkg().Path() != ir.FrtPath {
		return 0, nil
	}
	switch n.Obj().Name() {
	case "Tuple2":
		return 2, n
	case "Tuple3":
		return 3, n
	}
	return 0, nil
}

func (m *foiMatcher) match(ft *foType, gt types.Type) string {
	switch ft.kind {
	case "unit":
		return "a unit type in this position has no Go counterpart"
	case "slice":
		s, ok := types.Unalias(gt).Underlying().(*types.Slice)
		if !ok || isNamedNonSlice(gt) {
			return "declared " + ft.String() + " but the Go type is " + gt.String()
		}
		return m.match(ft.args[0], s.Elem())
	case "tuple":
		n, named := isFrtTuple(gt)
		if n != len(ft.args) {
			return "declared " + ft.String() + " but the Go type is " + gt.String()
		}
		for i, a := range ft.args {
			if why := m.match(a, named.TypeArgs().At(i)); why != "" {
				return why
			}
		}
		return ""
	case "func":
		sig, ok := types.Unalias(gt).Underlying().(*types.Signature)
		if !ok {
			return "declared " + ft.String() + " but the Go type is " + gt.String()
		}
		return m.matchSig(ft.args, sig)
	}
	// names
	switch ft.name {
	case "int", "string", "bool":
		if b, ok := types.Unalias(gt).(*types.Basic); ok && b.Name() == ft.name {
			return ""
		}
		return "declared " + ft.name + " but the Go type is " + gt.String()
	case "float":
		if b, ok := types.Unalias(gt).(*types.Basic); ok && b.Name() == "float64" {
			return ""
		}
		return "declared float but the Go type is " + gt.String()
	case "any":
		if it, ok := types.Unalias(gt).Underlying().(*types.Interface); ok && it.NumMethods() == 0 {
			return ""
		}
		return "declared any but the Go type is " + gt.String()
	}
	if idx, ok := m.tparams[ft.name]; ok && len(ft.args) == 0 {
		tp, ok := gt.(*types.TypeParam)
		if !ok || m.goTParams == nil || idx >= m.goTParams.Len() || m.goTParams.At(idx) != tp {
			return fmt.Sprintf("declared type parameter %s (position %d) but the Go type is %s", ft.name, idx, gt.String())
		}
		return ""
	}
	// a named type: same package_info, qualified, or a type of the .fo's own package
	var pkg *types.Package
	name := ft.name
	if i := strings.Index(name, "."); i >= 0 {
		pkg = m.imports[name[:i]]
		name = name[i+1:]
		if pkg == nil {
			return "unknown package qualifier in " + ft.name
		}
	} else if m.declTypes[name] {
		pkg = m.home
	} else {
		pkg = m.self
	}
	if pkg == nil {
		return "cannot resolve type " + ft.name
	}
	tn, ok := pkg.Scope().Lookup(name).(*types.TypeName)
	if !ok {
		return "type " + ft.name + " does not exist in package " + pkg.Path()
	}
	want := tn.Type()
	if len(ft.args) == 0 {
		if types.Identical(want, gt) {
			return ""
		}
		return "declared " + ft.name + " but the Go type is " + gt.String()
	}
	gn, ok := types.Unalias(gt).(*types.Named)
	wn, ok2 := types.Unalias(want).(*types.Named)
	if !ok || !ok2 || gn.Origin() != wn.Origin() || gn.TypeArgs().Len() != len(ft.args) {
		return "declared " + ft.String() + " but the Go type is " + gt.String()
	}
	for i, a := range ft.args {
		if why := m.match(a, gn.TypeArgs().At(i)); why != "" {
			return why
		}
	}
	return ""
}

func isNamedNonSlice(t types.Type) bool { return false }

// matchSig: all but the last arrow are parameters ("()" = none), the last is the result ("()" = none).
func (m *foiMatcher) matchSig(arrows []*foType, sig *types.Signature) string {
	if len(arrows) == 0 {
		return "empty type"
	}
	var params []*foType
	for _, a := range arrows[:len(arrows)-1] {
		if a.kind != "unit" {
			params = append(params, a)
		}
	}
	res := arrows[len(arrows)-1]
	if len(arrows) == 1 {
		// a value, not a function
		return "declared as a value of type " + res.String() + " but the Go symbol is a function"
	}
	np := sig.Params().Len()
	if sig.Variadic() {
		if len(params) < np-1 {
			return fmt.Sprintf("declared %d parameter(s) but the Go function needs at least %d", len(params), np-1)
		}
	} else if len(params) != np {
		return fmt.Sprintf("declared %d parameter(s) but the Go function has %d", len(params), np)
	}
	for i, p := range params {
		var gt types.Type
		if sig.Variadic() && i >= np-1 {
			gt = sig.Params().At(np - 1).Type().(*types.Slice).Elem()
		} else {
			gt = sig.Params().At(i).Type()
		}
		if why := m.match(p, gt); why != "" {
			return fmt.Sprintf("parameter %d: %s", i+1, why)
		}
	}
	if res.kind == "unit" {
		if sig.Results().Len() != 0 {
			return "declared result () but the Go function returns " + sig.Results().String()
		}
		return ""
	}
	if sig.Results().Len() != 1 {
		return "declared result " + res.String() + " but the Go function returns " + sig.Results().String()
	}
	if why := m.match(res, sig.Results().At(0).Type()); why != "" {
		return "result: " + why
	}
	return ""
}

// checkFOIBlock checks one package_info block against the Go package it describes.
func checkFOIBlock(c *Ctx, rule string, pi foPkgInfo, home *types.Package, self *types.Package, imports map[string]*types.Package, strict bool, referenced func(string) bool) {
	r := c.R
	rel, _ := filepath.Rel(c.Repo.Root, pi.file)
	declTypes := map[string]bool{}
	for _, d := range pi.decls {
		if d.kind == "type" {
			declTypes[d.name] = true
		}
	}
	for _, d := range pi.decls {
		pos := fmt.Sprintf("%s:%d", rel, d.line)
		who := pi.pkg + "." + d.name
		obj := home.Scope().Lookup(d.name)
		if obj == nil {
			if strict {
				r.Bad(rule, rel, d.kind+" "+who, pos, who+" is declared but does not exist in "+home.Path())
			} else if referenced != nil && referenced(d.name) {
				r.Bad(rule, rel, d.kind+" "+who, pos, who+" is declared and used but does not exist in "+home.Path())
			} else {
				r.Note("%s: stale declaration %s (declared, unreferenced, missing in Go) — not a violation", pos, who)
			}
			continue
		}
		switch d.kind {
		case "type":
			tn, ok := obj.(*types.TypeName)
			if !ok {
				r.Bad(rule, rel, "type "+who, pos, who+" is declared as a type but is "+obj.String())
				continue
			}
			n := 0
			if nt, ok := types.Unalias(tn.Type()).(*types.Named); ok && nt.Obj() == tn {
				n = nt.TypeParams().Len()
			}
			r.Check(n == len(d.tparams), rule, rel, "type "+who, pos, fmt.Sprintf("type %s exists with %d type parameter(s)", who, n),
				fmt.Sprintf("type %s is declared with %d type parameter(s) but the Go type has %d", who, len(d.tparams), n))
		case "let":
			fn, ok := obj.(*types.Func)
			if !ok {
				// a package-level variable: single arrow
				if v, ok := obj.(*types.Var); ok && len(d.arrows) == 1 {
					m := &foiMatcher{tparams: map[string]int{}, declTypes: declTypes, home: home, imports: imports, self: self}
					why := m.match(d.arrows[0], v.Type())
					r.Check(why == "", rule, rel, "let "+who, pos, who+" agrees with the Go variable", who+": "+why)
					continue
				}
				r.Bad(rule, rel, "let "+who, pos, who+" is declared as a function but is "+obj.String())
				continue
			}
			sig := fn.Type().(*types.Signature)
			if sig.TypeParams().Len() != len(d.tparams) {
				r.Bad(rule, rel, "let "+who, pos, fmt.Sprintf("%s is declared with %d type parameter(s) but the Go function has %d", who, len(d.tparams), sig.TypeParams().Len()))
				continue
			}
			m := &foiMatcher{tparams: map[string]int{}, goTParams: sig.TypeParams(), declTypes: declTypes, home: home, imports: imports, self: self}
			for i, tp := range d.tparams {
				m.tparams[tp] = i
			}
			why := m.matchSig(d.arrows, sig)
			var as []string
			for _, a := range d.arrows {
				as = append(as, a.String())
			}
			r.Check(why == "", rule, rel, "let "+who, pos, who+": "+strings.Join(as, "->")+" agrees with "+sig.String(), who+": "+why+" (Go: "+sig.String()+")")
		}
	}
}

// checkFOI checks every package_info shipped in the repository.
func checkFOI(c *Ctx, rule string) {
	r := c.R
	pkgOf := func(dir string) *types.Package {
		m := c.Load(dir, false)
		if m == nil {
			return nil
		}
		return m.Main().Types
	}
	libs := map[string]*types.Package{}
	for _, n := range []string{"frt", "buf", "slice", "strings", "sys", "dict"} {
		if p := pkgOf("pkg/" + n); p != nil {
			libs[n] = p
		}
	}
	readToks := func(path string) []fo.Tok {
		b, err := os.ReadFile(path)
		if err != nil {
			r.Undecided(rule, path, "read", path, err.Error())
			return nil
		}
		toks, err := fo.Tokenize(string(b))
		if err != nil {
			r.Undecided(rule, path, "tokenize", path, err.Error())
			return nil
		}
		return toks
	}
	// pkg/*.foi — strict
	checkFOIFiles(c, rule, nil)
	var foiFiles []string
	for _, ff := range foiFiles {
		toks := readToks(ff)
		pis, errs := parsePackageInfos(ff, toks)
		for _, e := range errs {
			r.Undecided(rule, ff, "parse", ff, e)
		}
		for _, pi := range pis {
			home := libs[pi.pkg]
			if home == nil {
				r.Undecided(rule, ff, "package "+pi.pkg, ff, "no Go package for package_info "+pi.pkg)
				continue
			}
			checkFOIBlock(c, rule, pi, home, home, libs, true, nil)
		}
	}
	// package_info blocks inside .fo files
	type foUnit struct {
		glob string
		mod  string
	}
	for _, u := range []foUnit{{"fc/*.fo", "fc"}, {"cmd/build_sample_md/*.fo", "cmd/build_sample_md"}} {
		m := c.Load(u.mod, false)
		if m == nil {
			continue
		}
		self := m.Main().Types
		files, _ := filepath.Glob(filepath.Join(c.Repo.Root, u.glob))
		sort.Strings(files)
		// identifiers used anywhere in the module's .fo files (for the stale/used distinction)
		used := map[string]int{}
		var allToks [][]fo.Tok
		for _, ff := range files {
			toks := readToks(ff)
			allToks = append(allToks, toks)
			for _, t := range toks {
				if t.Kind == fo.IDENT {
					used[t.Text]++
				}
			}
		}
		for i, ff := range files {
			pis, errs := parsePackageInfos(ff, allToks[i])
			for _, e := range errs {
				r.Undecided(rule, ff, "parse", ff, e)
			}
			for _, pi := range pis {
				var home *types.Package
				switch {
				case pi.pkg == "_":
					home = self
				case libs[pi.pkg] != nil:
					home = libs[pi.pkg]
				default:
					for path, ip := range m.Main().Imports {
						if filepath.Base(path) == pi.pkg && ip.Types != nil {
							home = ip.Types
						}
					}
				}
				if home == nil {
					r.Undecided(rule, ff, "package "+pi.pkg, ff, "no Go package found for package_info "+pi.pkg)
					continue
				}
				checkFOIBlock(c, rule, pi, home, self, libs, false, func(name string) bool { return used[name] > 1 })
			}
		}
	}
	// samples: blocks describing standard packages
	for _, s := range c.loadSamples() {
		src := filepath.Join(c.Repo.Root, "samples", strings.TrimSuffix(strings.TrimPrefix(s.name, "gen_"), ".go")+".fo")
		if _, err := os.Stat(src); err != nil || s.pkg == nil {
			continue
		}
		toks := readToks(src)
		pis, _ := parsePackageInfos(src, toks)
		for _, pi := range pis {
			var home *types.Package
			if pi.pkg == "_" {
				home = s.pkg
			} else if libs[pi.pkg] != nil {
				home = libs[pi.pkg]
			} else {
				for _, ip := range s.pkg.Imports() {
					if filepath.Base(ip.Path()) == pi.pkg {
						home = ip
					}
				}
			}
			if home == nil {
				r.Undecided(rule, src, "package "+pi.pkg, src, "no Go package found for package_info "+pi.pkg)
				continue
			}
			checkFOIBlock(c, rule, pi, home, s.pkg, libs, false, func(string) bool { return true })
		}
	}
}

// checkFOIFiles checks pkg/<n>/<n>.foi (every declaration must exist and agree) for the named packages (nil: all).
func checkFOIFiles(c *Ctx, rule string, only []string) {
	r := c.R
	libs := map[string]*types.Package{}
	for _, n := range []string{"frt", "buf", "slice", "strings", "sys", "dict"} {
		if m := c.Load("pkg/"+n, false); m != nil {
			libs[n] = m.Main().Types
		}
	}
	foiFiles, _ := filepath.Glob(filepath.Join(c.Repo.Root, "pkg", "*", "*.foi"))
	sort.Strings(foiFiles)
	n := 0
	for _, ff := range foiFiles {
		if only != nil {
			keep := false
			for _, o := range only {
				if filepath.Base(filepath.Dir(ff)) == o {
					keep = true
				}
			}
			if !keep {
				continue
			}
		}
		b, err := os.ReadFile(ff)
		if err != nil {
			r.Undecided(rule, ff, "read", ff, err.Error())
			continue
		}
		toks, err := fo.Tokenize(string(b))
		if err != nil {
			r.Undecided(rule, ff, "tokenize", ff, err.Error())
			continue
		}
		n++
		pis, errs := parsePackageInfos(ff, toks)
		for _, e := range errs {
			r.Undecided(rule, ff, "parse", ff, e)
		}
		for _, pi := range pis {
			home := libs[pi.pkg]
			if home == nil {
				r.Undecided(rule, ff, "package "+pi.pkg, ff, "no Go package for package_info "+pi.pkg)
				continue
			}
			checkFOIBlock(c, rule, pi, home, home, libs, true, nil)
		}
	}
	r.Unit("foi_files", n)
}
