package rules

import (
	"regexp"
	"sort"
	"strconv"
	"strings"

	"verif/tools/internal/ir"
)

// Tiny helpers.  A generated function whose whole normal form is one small pure expression over its parameters
// (psCurIs = (psCurrentTT(p1) eq p0), utCases = lookupUniInfo(p0).Cases, psNextTT = psCurrentTT(psNext(p0)) …) is a
// spelling, not a unit of behaviour: code that calls it and code that writes the expression out are the same code.
// Before any comparison with a specification or a reviewed form, calls of such helpers are expanded — on BOTH sides,
// textually, with the helper's CURRENT normal form — so that a refactoring which only switches between the two
// spellings changes nothing.  A change of the helper itself is seen at the helper (its own pin or digest: its own
// form is what is expanded into), and every caller's form changes with it.
type tinyDef struct {
	params int
	body   string
}

var tinyParamRe = regexp.MustCompile(`\bp([0-9]+)\b`)

func (f *FC) tinyHelpers() map[string]tinyDef {
	if f.tiny != nil {
		return f.tiny
	}
	f.tiny = map[string]tinyDef{}
	for _, fn := range f.Prog.Funcs {
		if !fn.Generated || fn.Decl == nil || fn.Decl.Recv != nil || len(fn.Params) == 0 || strings.HasPrefix(fn.Name, "New_") {
			continue
		}
		if _, inl := f.N.Inline[fn.Key]; inl {
			continue
		}
		if reachesItself(f.Prog, fn) {
			continue
		}
		// judged on the canonical shape, so that a helper qualifies whichever way its boolean body is spelled
		s := canonShape(ir.String(f.Path, f.N.Func(fn)))
		if len(s) > 90 {
			continue
		}
		bad := false
		for _, k := range []string{"seq[", "match(", "if(", `\x`, "opaque", "for(", "range(", "never", "panic", "Panic", "<msg>", "_)", "(_", " _,"} {
			if strings.Contains(s, k) {
				bad = true
			}
		}
		if bad || strings.Contains(s, fn.Name+"(") {
			continue
		}
		// every parameter index mentioned is in range
		ok := true
		for _, m := range tinyParamRe.FindAllStringSubmatch(s, -1) {
			if len(m[1]) > 1 || int(m[1][0]-'0') >= len(fn.Params) {
				ok = false
			}
		}
		if !ok {
			continue
		}
		if !f.tinyEligible(fn, c01ReviewedTinyDefs) {
			continue
		}
		f.tiny[fn.Name] = tinyDef{len(fn.Params), s}
	}
	// a reviewed tiny helper that no longer exists: specification texts that mention it are read with its reviewed
	// body (no current code can call it, so only the specification side is affected)
	if strings.HasSuffix(f.Path, "/fc") && !tinyNoFilter {
		for name, def := range c01ReviewedTinyDefs {
			if _, exists := f.Prog.ByName[name]; !exists {
				f.tiny[name] = def
			}
		}
	}
	return f.tiny
}

// tinyNoFilter is set while the reviewed tables are regenerated.
var tinyNoFilter bool

// tinyEligible: a reviewed function is expanded only if it was a tiny helper when the forms were reviewed.  A
// function that BECOMES small (parseTypeList rewritten as one combinator call) is judged at its own pin or digest;
// expanding it would change the canonical form of every caller, although no caller was edited.  Helpers added
// since the review are always eligible.
func (f *FC) tinyEligible(fn *ir.Func, reviewed map[string]tinyDef) bool {
	if tinyNoFilter {
		return true
	}
	if !strings.HasSuffix(f.Path, "/fc") {
		return true
	}
	if base, has := baselineFuncs["fc"]; !has || !base[fn.Name] {
		return true
	}
	_, was := reviewed[fn.Name]
	return was
}

// specDefs: the definitions a SPECIFICATION text is read with.  The pins were written against the reviewed tree:
// a helper they mention means the helper as it was then (its parameters in the order it had then).  Every helper
// that is expanded on the current side (or no longer exists) is expanded on the specification side with its
// reviewed definition; so a helper whose parameters were reordered, with every call site adapted, leaves all
// callers' comparisons unchanged, and an edit of a helper's body shows in every specification that mentions it.
func specDefs(cur, reviewed map[string]tinyDef, active bool) map[string]tinyDef {
	if !active {
		return cur
	}
	res := map[string]tinyDef{}
	for k, v := range cur {
		if r, ok := reviewed[k]; ok {
			res[k] = r
		} else {
			res[k] = v
		}
	}
	return res
}

func (f *FC) expandTinySpec(s string) string {
	return f.expandTinyWith(s, specDefs(f.tinyHelpers(), c01ReviewedTinyDefs, strings.HasSuffix(f.Path, "/fc") && !tinyNoFilter))
}

// expandTiny replaces every full application name(a0, …) of a tiny helper by its body with the arguments put in.
func (f *FC) expandTiny(s string) string {
	return f.expandTinyWith(s, f.tinyHelpers())
}

func (f *FC) expandTinyWith(s string, tiny map[string]tinyDef) string {
	if len(tiny) == 0 {
		return s
	}
	for round := 0; round < 8; round++ {
		t := expandTinyOnce(s, tiny)
		if t == s {
			break
		}
		s = t
	}
	return renumberLambdas(f.foldLambdas(s))
}

var lamVarRe = regexp.MustCompile(`\bx([0-9]+)\b`)

// renumberLambdas: lambda variables are numbered in order of appearance; after a lambda was folded away (or when
// one was added) the later ones are renumbered so that the numbering is again 0, 1, 2 … in order of their binders.
func renumberLambdas(s string) string {
	locs := lamRe.FindAllStringSubmatch(s, -1)
	if len(locs) == 0 {
		return s
	}
	m := map[string]string{}
	same := true
	for _, l := range locs {
		if _, ok := m[l[1]]; !ok {
			n := strconv.Itoa(len(m))
			m[l[1]] = n
			if n != l[1] {
				same = false
			}
		}
	}
	if same {
		return s
	}
	return lamVarRe.ReplaceAllStringFunc(s, func(t string) string {
		if n, ok := m[t[1:]]; ok {
			return "x" + n
		}
		return t
	})
}

var lamRe = regexp.MustCompile(`\\x([0-9]+)\. `)

// foldLambdas: a lambda whose body is exactly the (expanded) body of a one-parameter tiny helper applied to the
// lambda's variable is that helper: \x0. NameTypePair{Name: #0(x0), Ftype: #1(x0)} is tupToNTPair.
func (f *FC) foldLambdas(s string) string {
	if !strings.Contains(s, `\x`) {
		return s
	}
	if f.tinyUnary == nil {
		f.tinyUnary = map[string]string{}
		tiny := f.tinyHelpers()
		for name, def := range tiny {
			if def.params != 1 {
				continue
			}
			body := def.body
			for round := 0; round < 8; round++ {
				t := expandTinyOnce(body, tiny)
				if t == body {
					break
				}
				body = t
			}
			f.tinyUnary[name] = body
		}
	}
	if len(f.tinyUnary) == 0 {
		return s
	}
	names := make([]string, 0, len(f.tinyUnary))
	for n := range f.tinyUnary {
		names = append(names, n)
	}
	sort.Strings(names)
	for {
		locs := lamRe.FindAllStringSubmatchIndex(s, -1)
		done := true
		for _, loc := range locs {
			v := "x" + s[loc[2]:loc[3]]
			rest := s[loc[1]:]
			for _, n := range names {
				cand := tinyParamRe.ReplaceAllString(f.tinyUnary[n], v)
				if strings.HasPrefix(rest, cand) {
					after := rest[len(cand):]
					if after == "" || strings.ContainsRune(",)]}", rune(after[0])) {
						s = s[:loc[0]] + n + after
						done = false
						break
					}
				}
			}
			if !done {
				break
			}
		}
		if done {
			return s
		}
	}
}

func expandTinyOnce(s string, tiny map[string]tinyDef) string {
	var b strings.Builder
	i := 0
	for i < len(s) {
		c := s[i]
		if c == '"' || c == '\'' || c == '`' {
			j := skipQuoted(s, i)
			b.WriteString(s[i:j])
			i = j
			continue
		}
		if isWordChar(c) && isWordStart(s, i) {
			j := i
			for j < len(s) && isWordChar(s[j]) {
				j++
			}
			name := s[i:j]
			if def, ok := tiny[name]; ok && j < len(s) && s[j] == '(' {
				if cl := matchingClose(s, j); cl > 0 {
					args := splitTop(s[j+1:cl], ',')
					full := len(args) == def.params
					for k := range args {
						args[k] = strings.TrimSpace(expandTinyOnce(args[k], tiny))
						if args[k] == "_" || args[k] == "" {
							full = false
						}
						if strings.HasPrefix(args[k], `\`) {
							args[k] = "(" + args[k] + ")"
						}
					}
					if full {
						body := tinyParamRe.ReplaceAllStringFunc(def.body, func(m string) string {
							return args[int(m[1]-'0')]
						})
						b.WriteString(body)
						i = cl + 1
						continue
					}
					b.WriteString(name + "(" + strings.Join(args, ", ") + ")")
					i = cl + 1
					continue
				}
			}
			b.WriteString(name)
			i = j
			continue
		}
		b.WriteByte(c)
		i++
	}
	return b.String()
}

// Tiny templates: an emitter whose whole emission template is a short piece sequence without conditionals
// (drToCase = "default: " ⟨p0(p1)⟩ " ") is a spelling too: a dynamic piece ⟨name(args)⟩ of another template is
// replaced by that sequence, on both sides.
func (f *FC) tinyTemplates() map[string]tinyDef {
	if f.tinyTpl != nil {
		return f.tinyTpl
	}
	f.tinyTpl = map[string]tinyDef{}
	sh := newShaper(f)
	for _, fn := range f.Prog.Funcs {
		if !fn.Generated || fn.Decl == nil || fn.Decl.Recv != nil || len(fn.Params) == 0 || strings.HasPrefix(fn.Name, "New_") {
			continue
		}
		if reachesItself(f.Prog, fn) {
			continue
		}
		var t string
		func() {
			defer func() { recover() }()
			t, _ = sh.Template(fn.Name)
		}()
		if t == "" || len(t) > 110 || !strings.Contains(t, "\"") {
			continue
		}
		bad := false
		for _, k := range []string{"?(", "match(", "!⟨", "⇒", "seq[", "opaque", "$", "<msg>"} {
			if strings.Contains(t, k) {
				bad = true
			}
		}
		if bad || strings.Contains(t, fn.Name+"(") {
			continue
		}
		if !f.tinyEligible(fn, c01ReviewedTinyTpls) {
			continue
		}
		f.tinyTpl[fn.Name] = tinyDef{len(fn.Params), t}
	}
	if strings.HasSuffix(f.Path, "/fc") && !tinyNoFilter {
		for name, def := range c01ReviewedTinyTpls {
			if _, exists := f.Prog.ByName[name]; !exists {
				f.tinyTpl[name] = def
			}
		}
	}
	return f.tinyTpl
}

func (f *FC) expandTinyTemplates(s string) string {
	return f.expandTinyTemplatesWith(s, f.tinyTemplates())
}

func (f *FC) expandTinyTemplatesSpec(s string) string {
	return f.expandTinyTemplatesWith(s, specDefs(f.tinyTemplates(), c01ReviewedTinyTpls, strings.HasSuffix(f.Path, "/fc") && !tinyNoFilter))
}

func (f *FC) expandTinyTemplatesWith(s string, tt map[string]tinyDef) string {
	if !strings.Contains(s, "⟨") {
		return s
	}
	if len(tt) == 0 {
		return s
	}
	const open, cl = "⟨", "⟩"
	for round := 0; round < 4; round++ {
		changed := false
		var b strings.Builder
		i := 0
		for i < len(s) {
			if strings.HasPrefix(s[i:], open) {
				j := i + len(open)
				k := j
				for k < len(s) && isWordChar(s[k]) {
					k++
				}
				name := s[j:k]
				if def, ok := tt[name]; ok && k < len(s) && s[k] == '(' {
					if e := matchingClose(s, k); e > 0 && strings.HasPrefix(s[e+1:], cl) {
						args := splitTop(s[k+1:e], ',')
						full := len(args) == def.params
						for a := range args {
							args[a] = strings.TrimSpace(args[a])
							if args[a] == "_" || args[a] == "" {
								full = false
							}
						}
						if full {
							b.WriteString(tinyParamRe.ReplaceAllStringFunc(def.body, func(m string) string { return args[int(m[1]-'0')] }))
							i = e + 1 + len(cl)
							changed = true
							continue
						}
					}
				}
			}
			b.WriteByte(s[i])
			i++
		}
		s = b.String()
		if !changed {
			break
		}
	}
	return s
}

// canon: the canonical text of a printed form of this package (tiny helpers expanded, diagnostics and shape
// canonicalised).
func (f *FC) canon(s string) string {
	return canonDiag(f.expandTiny(f.expandTinyTemplates(s)))
}

// canonSpec: the canonical text of a specification (pin) of this package: as canon, with the helpers read as reviewed.
func (f *FC) canonSpec(s string) string {
	return canonDiag(f.expandTinySpec(f.expandTinyTemplatesSpec(s)))
}

// equalUpToParamOrder: got is want with the parameters p0…pn-1 renamed by a permutation (n ≤ 4).
func equalUpToParamOrder(got, want string, n int) bool {
	if n < 2 || n > 4 {
		return false
	}
	idx := make([]int, n)
	for i := range idx {
		idx[i] = i
	}
	var rec func(k int) bool
	rec = func(k int) bool {
		if k == n {
			t := tinyParamRe.ReplaceAllStringFunc(got, func(m string) string {
				if len(m) == 2 && int(m[1]-'0') < n {
					return "p" + strconv.Itoa(idx[int(m[1]-'0')])
				}
				return m
			})
			return canonShape(t) == want
		}
		for i := k; i < n; i++ {
			idx[k], idx[i] = idx[i], idx[k]
			if rec(k + 1) {
				return true
			}
			idx[k], idx[i] = idx[i], idx[k]
		}
		return false
	}
	return rec(0)
}
