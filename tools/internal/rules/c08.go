package rules

import (
	"go/ast"
	"go/constant"
	"go/token"
	"go/types"
	"sort"
	"strings"

	"verif/tools/internal/core"
	"verif/tools/internal/ir"
)

// C08 — binary operators group by one fixed table and associate to the left.
// Decided relative to the precedence-climbing theorem: (a) the table is the
// published one, (b) lexemes map to the right tokens, (c) the algorithm has the
// three affine facts (stop iff prec < minPrec; right operand parsed with
// prec+1; continuation keeps minPrec and routes cur→Lhs, rhs→Rhs) and the
// operand layering (application > not > binary; parentheses re-enter at 1).

func init() { Register("C08", checkC08) }

// the published table, loosest first (property statement)
var publishedClasses = [][]string{
	{"PIPE"},
	{"AMPAMP", "BARBAR", "LT", "GT", "LE", "GE"},
	{"EQ", "BRACKET"},
	{"PLUS", "MINUS"},
	{"ASTER", "SLASH"},
}

var publishedGoOp = map[string]string{
	"PIPE": "frt.Pipe", "AMPAMP": "&&", "BARBAR": "||", "LT": "<", "GT": ">", "LE": "<=", "GE": ">=",
	"EQ": "frt.OpEqual", "BRACKET": "frt.OpNotEqual", "PLUS": "+", "MINUS": "-", "ASTER": "*", "SLASH": "/",
}

var publishedLexeme = map[string]string{
	"|>": "PIPE", "&&": "AMPAMP", "||": "BARBAR", "<": "LT", ">": "GT", "<=": "LE", ">=": "GE",
	"=": "EQ", "<>": "BRACKET", "+": "PLUS", "-": "MINUS", "*": "ASTER", "/": "SLASH",
}

var publishedBool = map[string]bool{"AMPAMP": true, "BARBAR": true, "LT": true, "GT": true, "LE": true, "GE": true, "EQ": true, "BRACKET": true}

func checkBinOpTable(c *Ctx, rule string, m *core.Module, varName, prefix string, where string, checkGoOp bool) []BinOpEntry {
	return checkBinOpTableOpt(c, rule, m, varName, prefix, where, checkGoOp, false)
}

// checkBinOpTableOpt: with subsetOK the table may lack published operators (tinyfo's language subset).
func checkBinOpTableOpt(c *Ctx, rule string, m *core.Module, varName, prefix string, where string, checkGoOp bool, subsetOK bool) []BinOpEntry {
	r := c.R
	tab, pos, ok := c.binOpTable(m, varName, prefix)
	if !ok {
		r.Undecided(rule, where+"."+varName, "table", pos, "operator table "+varName+" is not a constant composite literal the rule can evaluate")
		return nil
	}
	byTok := map[string]BinOpEntry{}
	for _, e := range tab {
		if _, dup := byTok[e.Token]; dup {
			r.Bad(rule, where+"."+varName, "entry "+e.Token, e.Pos, "duplicate entry")
		}
		byTok[e.Token] = e
	}
	// exactly the published operators
	var missing, extra []string
	for _, cls := range publishedClasses {
		for _, t := range cls {
			if _, ok := byTok[t]; !ok {
				missing = append(missing, t)
			}
		}
	}
	for t := range byTok {
		if _, ok := publishedGoOp[t]; !ok {
			extra = append(extra, t)
		}
	}
	sort.Strings(extra)
	if subsetOK {
		missing = nil
	}
	r.Check(len(missing) == 0 && len(extra) == 0, rule, where+"."+varName, "operator-set", pos,
		sprintf("the table has exactly the %d published operators", len(publishedGoOp)),
		"operator set differs from the published table: missing ["+strings.Join(missing, ",")+"] extra ["+strings.Join(extra, ",")+"]")
	// rank classes and strict order
	prev := -1 << 30
	for ci, cls := range publishedClasses {
		rank, have := 0, false
		for _, t := range cls {
			e, ok := byTok[t]
			if !ok {
				continue
			}
			if !have {
				rank, have = e.Prec, true
			}
			r.Check(e.Prec == rank, rule, where+"."+varName, "rank-class "+t, e.Pos,
				sprintf("%s has rank %d, equal to its published class %v", t, e.Prec, cls),
				sprintf("%s has rank %d but %s of the same published class has rank %d: they would not associate as one class", t, e.Prec, cls[0], rank))
		}
		if have {
			r.Check(rank > prev, rule, where+"."+varName, sprintf("class-order#%d", ci), pos,
				sprintf("class %v (rank %d) binds tighter than the previous class", cls, rank),
				sprintf("class %v has rank %d, not strictly above the looser class (rank %d): published order violated", cls, rank, prev))
			prev = rank
		}
	}
	if checkGoOp {
		for _, t := range sortedKeys(byTok) {
			e := byTok[t]
			if want, ok := publishedGoOp[t]; ok {
				r.Check(e.GoOp == want, rule, where+"."+varName, "go-operator "+t, e.Pos,
					t+" is emitted as "+want, t+" is emitted as "+e.GoOp+", published: "+want)
				r.Check(e.IsBool == publishedBool[t], rule, where+"."+varName, "is-bool "+t, e.Pos,
					sprintf("%s IsBoolOp=%v", t, e.IsBool), sprintf("%s IsBoolOp=%v but it %s a comparison/logical operator (result type would be wrong)", t, e.IsBool, map[bool]string{true: "is", false: "is not"}[publishedBool[t]]))
			}
		}
	}
	return tab
}

func sortedKeys[V any](m map[string]V) []string {
	var ks []string
	for k := range m {
		ks = append(ks, k)
	}
	sort.Strings(ks)
	return ks
}

// armBody prints the body of the first match arm named caseName inside t.
func armBody(home string, t ir.Term, caseName string) (string, bool) {
	var res string
	found := false
	ir.Walk(t, func(x ir.Term) bool {
		if found {
			return false
		}
		if m, ok := x.(*ir.Match); ok {
			for _, a := range m.Arms {
				for _, cs := range a.Cases {
					if ir.CaseName(cs) == caseName {
						p := ir.NewPrinter(home)
						p.S(m.Scrut)
						// print the whole match first so binder names are registered
						p.S(m)
						res = p.S(a.Body.Ret)
						found = true
						return false
					}
				}
			}
		}
		return true
	})
	return res, found
}

// armBodies: the bodies of the arms for caseName in EVERY match of the term (a function may match the same union
// more than once: an accessor match in front of the emitting one).
func armBodies(home string, t ir.Term, caseName string) []string {
	var res []string
	ir.Walk(t, func(x ir.Term) bool {
		if m, ok := x.(*ir.Match); ok {
			for _, a := range m.Arms {
				for _, cs := range a.Cases {
					if ir.CaseName(cs) == caseName {
						p := ir.NewPrinter(home)
						p.S(m.Scrut)
						p.S(m)
						res = append(res, p.S(a.Body.Ret))
					}
				}
			}
		}
		return true
	})
	return res
}

func defaultBody(home string, t ir.Term) (string, bool) {
	if m, ok := t.(*ir.Match); ok && m.Default != nil {
		p := ir.NewPrinter(home)
		p.S(m)
		return p.S(m.Default.Ret), true
	}
	return "", false
}

func checkC08(c *Ctx) {
	r := c.R
	r.Explanation = "Grouping of every operator chain is a consequence of three things that are visible in the code, relative to the standard precedence-climbing argument: " +
		"(a) the operator table (constant-evaluated from the binOpMap literal) has exactly the 13 published operators, rank classes in the published strict order, ranks >= the entry minPrec, the published Go operator per entry; " +
		"(b) the scanner maps each published spelling to its token (lexeme literal agrees with the characters tested); " +
		"(c) closed forms of parseExprWithPrec/parseBinAfter: the loop stops iff rank < minPrec, the right operand is parsed at rank+1 (left associativity), the continuation keeps minPrec and builds the node with (cur, rhs) in order; " +
		"operands come from parseTerm -> parseAtomList (application binds tighter), NOT re-enters parseTerm, parentheses re-enter the expression parser at minPrec 1; binOpToGo always parenthesises. " +
		"This covers all chains of any length, not only the enumerated short ones."
	r.NotDecided = []string{"for |> the choice Pipe/PipeUnit depends on inferred types (C02)", "the precedence-climbing theorem itself is the (standard) assumption"}
	r.Assumptions = []string{"precedence climbing with (stop iff prec<min; recurse at prec+1; keep min in the continuation) yields left-associative grouping by rank"}
	r.Rule("C08.a", "operator table = published ranks, Go operators and bool-ness", 30)
	r.Rule("C08.b", "each published operator spelling is scanned to its token", 13)
	r.Rule("C08.c", "precedence climbing: stop/continue/right-operand facts, operand routing and layering, emission always parenthesised", 9)

	f := c.LoadFC("fc")
	if f == nil {
		return
	}
	checkRelevantReviewedForms(c, f, "C08.z", "an operator primitive (table lookup, operator test, the climbing functions, the operator node factories and emitter)",
		primSet("lookupBinOp", "lookupBinOpNF", "psCurIsBinOp", "psNextNonEOLIsBinOp", "parseBinAfter", "parseExprWithPrec", "newBinOpCall", "newBinOpNormal", "newEqNeq", "newPipeCall", "binOpToGo", "newUnaryNotCall"), 6)
	tab := checkBinOpTable(c, "C08.a", f.M, "binOpMap", "New_TokenType_", "fc", true)
	minRank := 1 << 30
	for _, e := range tab {
		if e.Prec < minRank {
			minRank = e.Prec
		}
	}
	// entry minPrec: parseExpr = parseExprWithPrec(pBlock, K, ps); the pExpr closure inside parseExprWithPrec uses the same K
	c.expectNF(f, "C08.c", "parseExpr", []string{"parseExprWithPrec(p0, 1, p1)"}, "expression entry: minPrec constant 1")
	if len(tab) > 0 {
		r.Check(minRank >= 1, "C08.a", "fc.binOpMap", "ranks>=entry-minPrec", "fc/wrapper.go",
			sprintf("lowest rank %d >= entry minPrec 1: no operator is unreachable", minRank),
			sprintf("lowest rank %d is below the entry minPrec 1: that operator can never be parsed at top level", minRank))
	}
	c.expectNF(f, "C08.a", "lookupBinOp", []string{"dict.TryFind(var:binOpMapWrapper, p0)"}, "lookup goes to the table")
	if g := f.M.Main().Types.Scope().Lookup("binOpMapWrapper"); g != nil {
		init := globalInit(f.Prog, g.(*types.Var))
		s := ir.String(f.Path, init)
		r.Check(s == "Dict{Fdict: var:binOpMap}", "C08.a", "fc.binOpMapWrapper", "initialiser", "fc/wrapper.go", "binOpMapWrapper wraps binOpMap", "binOpMapWrapper = "+s)
		for _, vn := range []string{"binOpMap", "binOpMapWrapper"} {
			if v, ok := f.M.Main().Types.Scope().Lookup(vn).(*types.Var); ok {
				w := globalWrites(f.Prog, v)
				r.Check(len(w) == 0, "C08.a", "fc."+vn, "never-written", "fc/wrapper.go", vn+" is never assigned after initialisation", vn+" is written in "+strings.Join(w, ","))
			}
		}
	} else {
		r.Undecided("C08.a", "fc.binOpMapWrapper", "definition", "fc/wrapper.go", "anchor variable not found")
	}
	c.checkPins(f, "C08.a", []pin{{"lookupBinOpNF", "nf?", "#0(lookupBinOp(p0))", "table row of a token"}})
	c.expectNF(f, "C08.a", "psCurIsBinOp", []string{"#1(lookupBinOp(psCurrentTT(p0)))"}, "binary-operator test = membership in the table")

	checkLexemes(c, f)

	// C08.c — algorithm.  Named sub-terms of the expected closed forms:
	const (
		PS  = "psSkipEOL(p2)"
		BTK = "psCurrentTT(" + PS + ")"
		BOP = "lookupBinOpNF(" + BTK + ")"
		RHS = "p0((" + BOP + ".Precedence + 1), psConsume(" + BTK + ", " + PS + "))"
	)
	c.expectNF(f, "C08.c", "parseBinAfter", []string{
		"if(psCurIsBinOp(" + PS + "), if((" + BOP + ".Precedence < p1), (p2, p3), " +
			"parseBinAfter(p0, p1, #0(" + RHS + "), newBinOpCall(psTypeVarGen(#0(" + RHS + ")), " + BTK + ", " + BOP + ", p3, #1(" + RHS + ")))), (p2, p3))",
	}, "loop: skip EOL, stop iff rank < minPrec (nothing consumed), right operand at rank+1 after consuming the operator, continue with the same minPrec and node(cur, rhs)")
	const T = "parseTerm(parseExprWithPrec(p0, 1, _), p0, p2)"
	c.expectNF(f, "C08.c", "parseExprWithPrec", []string{
		"if(psCurIsBinOp(psSkipEOL(#0(" + T + "))), parseBinAfter(parseExprWithPrec(p0, _, _), p1, psSkipEOL(#0(" + T + ")), #1(" + T + ")), (#0(" + T + "), #1(" + T + ")))",
	}, "first operand from parseTerm (nested expressions re-enter at minPrec 1), then the loop with this call's minPrec")
	c.expectNF(f, "C08.c", "newBinOpCall", []string{
		"match(p1; TokenType_PIPE -> newPipeCall(p0, p3, p4); TokenType_EQ -> newEqNeq(p0, p2.GoFuncName, p3, p4); TokenType_BRACKET -> newEqNeq(p0, p2.GoFuncName, p3, p4); _ -> newBinOpNormal(p2, p3, p4))",
	}, "operand routing lhs,rhs in order for every operator kind")
	c.expectNF(f, "C08.c", "newBinOpNormal", []string{
		"New_Expr_EBinOpCall(BinOpCall{Op: p0.GoFuncName, Rtype: if(p0.IsBoolOp, var:New_FType_FBool, ExprToType(p2)), Lhs: p1, Rhs: p2})",
	}, "node keeps Lhs/Rhs and the table's Go operator")
	// operand layering
	if t, fn := f.Term("parseTerm"); fn != nil {
		pos := c.Pos(f.M.Fset, fn.Decl.Pos())
		nb, ok := armBody(f.Path, t, "TokenType_NOT")
		const NT = "parseTerm(p0, p1, psConsume(var:New_TokenType_NOT, p2))"
		want := "(#0(" + NT + "), newUnaryNotCall(psTypeVarGen(#0(" + NT + ")), #1(" + NT + ")))"
		r.Check(ok && nb == want, "C08.c", "parseTerm", "arm NOT", pos, "prefix not re-enters parseTerm: it applies to the following application/term", "NOT arm is "+nb+", expected "+want)
		db, ok := defaultBody(f.Path, t)
		r.Check(ok && strings.HasPrefix(db, "if((slice.Length(#1(parseAtomList(p0, p2))) eq 1), (#0(parseAtomList(p0, p2)), slice.Head(#1(parseAtomList(p0, p2)))), match(slice.Head(#1(parseAtomList(p0, p2)));") &&
			strings.Contains(db, "Args: slice.Tail(#1(parseAtomList(p0, p2)))"), "C08.c", "parseTerm", "arm default", pos,
			"an operand is a maximal atom list: one atom, or head applied to the remaining atoms (application binds tighter than every operator)",
			"default arm does not have the application shape: "+db)
	} else {
		r.Undecided("C08.c", "parseTerm", "definition", "fc", "anchor function not found")
	}
	c.expectNF(f, "C08.c", "parseAtomList", []string{
		"if(isEndOfTerm(#0(parseAtom(p0, p1))), (#0(parseAtom(p0, p1)), [#1(parseAtom(p0, p1))]), (#0(parseAtomList(p0, #0(parseAtom(p0, p1)))), slice.PushHead(#1(parseAtom(p0, p1)), #1(parseAtomList(p0, #0(parseAtom(p0, p1)))))))",
	}, "atoms are collected left to right until isEndOfTerm")
	if t, fn := f.Term("isEndOfTerm"); fn != nil {
		db, ok := defaultBody(f.Path, t)
		r.Check(ok && db == "psNextNonEOLIsBinOp(p0)", "C08.c", "isEndOfTerm", "default", c.Pos(f.M.Fset, fn.Decl.Pos()),
			"an atom list ends before a binary operator (also on the next line)", "default of isEndOfTerm is "+db)
	} else {
		r.Undecided("C08.c", "isEndOfTerm", "definition", "fc", "anchor function not found")
	}
	if t, fn := f.Term("parseAtom"); fn != nil {
		pb, ok := armBody(f.Path, t, "TokenType_LPAREN")
		r.Check(ok && strings.HasSuffix(pb, "(psConsume(var:New_TokenType_RPAREN, #0(p0(psNext(p1)))), #1(p0(psNext(p1)))))))") ||
			ok && strings.HasSuffix(pb, "(psConsume(var:New_TokenType_RPAREN, #0(p0(psNext(p1)))), #1(p0(psNext(p1))))))"),
			"C08.c", "parseAtom", "arm LPAREN", c.Pos(f.M.Fset, fn.Decl.Pos()),
			"a parenthesised expression re-enters the expression parser (pExpr, minPrec 1) and is returned as one atom", "LPAREN arm: "+pb)
	} else {
		r.Undecided("C08.c", "parseAtom", "definition", "fc", "anchor function not found")
	}
	checkBinOpEmission(c, f)
	// (d) the other reading of `<`
	r.Rule("C08.d", "an operator spelling that begins with `<` directly after a name stays an operator: the adjacency test hands the position to the tolerant type-list parser, which reads a list only at a real LT token", 2)
	checkTypeArgumentPosition(c, f, "C08.d")
}

// checkBinOpEmission: binOpToGo = "(" Lhs Op Rhs ")" (always parenthesised, operands in order).
func checkBinOpEmission(c *Ctx, f *FC) {
	// the emission template (buffer writes and string pipelines read alike): "(" then Lhs, Op, Rhs joined, then ")"
	c.checkPins(f, "C08.c", []pin{{"binOpToGo", "tpl", "\"(\" join(⟨p1.Op⟩; slice.Map(p0, [p1.Lhs, p1.Rhs])) \")\"",
		`emission is "(" Lhs Op Rhs ")": explicit grouping is preserved whatever Go's own precedences are`}})
}

// checkLexemes: C08.b on the hand-written scanner scanTokenAt (typed syntax).
func checkLexemes(c *Ctx, f *FC) {
	r := c.R
	// the tokens the parser sees are scanTokenAt's: nextToken adds no case of its own (a context-dependent
	// re-reading of an operator character — "-" before a digit as a sign — changes how chains group)
	if nf, fn := f.NF("nextToken"); fn != nil {
		nf2 := strings.ReplaceAll(nf, "(Token).end", "Token.end")
		r.Check(f.canon(nf2) == f.canonSpec(nextTokenNF), "C08.b", "nextToken", "closed-form", c.Pos(f.M.Fset, fn.Decl.Pos()),
			"the next token is what scanTokenAt scans at the end of the previous one (SPACE skipped, EOF at the end): an operator spelling is the same token in every context",
			"nextToken's closed form changed: the token an operator spelling scans to may depend on its context; "+diffHint(nf2, nextTokenNF))
	} else {
		r.Undecided("C08.b", "nextToken", "definition", "fc/wrapper.go", "anchor function not found")
	}
	decls := core.FuncDecls(f.M.Main())
	fd, ok := decls["scanTokenAt"]
	if !ok {
		r.Undecided("C08.b", "scanTokenAt", "definition", "fc/wrapper.go", "anchor function not found")
		return
	}
	info := f.M.Main().TypesInfo
	pos := c.Pos(f.M.Fset, fd.Pos())
	var sw *ast.SwitchStmt
	ast.Inspect(fd.Body, func(n ast.Node) bool {
		if s, ok := n.(*ast.SwitchStmt); ok && sw == nil && s.Tag == nil {
			sw = s
		}
		return sw == nil
	})
	if sw == nil {
		r.Undecided("C08.b", "scanTokenAt", "switch", pos, "no tagless switch over the current byte found")
		return
	}
	charConst := func(e ast.Expr) (byte, bool) {
		tv, ok := info.Types[e]
		if !ok || tv.Value == nil || tv.Value.Kind() != constant.Int {
			return 0, false
		}
		n, _ := constant.Int64Val(tv.Value)
		return byte(n), n >= 0 && n < 256
	}
	// b == 'c'
	eqChar := func(e ast.Expr) (byte, bool) {
		be, ok := ast.Unparen(e).(*ast.BinaryExpr)
		if !ok || be.Op != token.EQL {
			return 0, false
		}
		if _, ok := be.X.(*ast.Ident); !ok {
			return 0, false
		}
		return charConst(be.Y)
	}
	tokName := func(e ast.Expr) string {
		if id, ok := e.(*ast.Ident); ok {
			return strings.TrimPrefix(id.Name, "New_TokenType_")
		}
		return "?"
	}
	calleeName := func(call *ast.CallExpr) string {
		if id, ok := call.Fun.(*ast.Ident); ok {
			return id.Name
		}
		return ""
	}
	lex := map[string]string{} // lexeme -> token
	lexPos := map[string]string{}
	var scanClause func(first byte, stmts []ast.Stmt, guard []byte)
	scanClause = func(first byte, stmts []ast.Stmt, guard []byte) {
		for _, s := range stmts {
			switch x := s.(type) {
			case *ast.ReturnStmt:
				if len(x.Results) != 1 {
					continue
				}
				call, ok := x.Results[0].(*ast.CallExpr)
				if !ok {
					continue
				}
				p := c.Pos(f.M.Fset, call.Pos())
				switch calleeName(call) {
				case "newOneCharToken":
					if len(call.Args) == 3 && len(guard) == 0 {
						lex[string([]byte{first})] = tokName(call.Args[0])
						lexPos[string([]byte{first})] = p
					}
				case "newStLikeToken":
					if len(call.Args) == 3 {
						tv := info.Types[call.Args[2]]
						if tv.Value != nil && tv.Value.Kind() == constant.String {
							lit := constant.StringVal(tv.Value)
							tested := string(append([]byte{first}, guard...))
							r.Check(lit == tested, "C08.b", "scanTokenAt", "literal "+lit, p,
								"token literal "+lit+" agrees with the characters tested", "token literal "+lit+" (its length is the token length) differs from the characters tested "+tested)
							lex[tested] = tokName(call.Args[0])
							lexPos[tested] = p
						}
					}
				}
			case *ast.IfStmt:
				// if isCharAt(buf, pos+1, 'c') {…}
				if call, ok := x.Cond.(*ast.CallExpr); ok && calleeName(call) == "isCharAt" && len(call.Args) == 3 {
					if ch, ok := charConst(call.Args[2]); ok {
						if be, ok := call.Args[1].(*ast.BinaryExpr); ok && be.Op == token.ADD {
							if off, ok := charConst(be.Y); ok && off == 1 {
								scanClause(first, x.Body.List, append(append([]byte{}, guard...), ch))
							}
						}
					}
				}
				if blk, ok := x.Else.(*ast.BlockStmt); ok {
					scanClause(first, blk.List, guard)
				}
			}
		}
	}
	// cases first, the default clause last (it is taken only when no case matches, wherever it is written)
	ordered := append([]ast.Stmt{}, sw.Body.List...)
	sort.SliceStable(ordered, func(i, j int) bool {
		return len(ordered[i].(*ast.CaseClause).List) > 0 && len(ordered[j].(*ast.CaseClause).List) == 0
	})
	for _, cl := range ordered {
		cc := cl.(*ast.CaseClause)
		if len(cc.List) == 0 {
			// default: a lookup table of one-character tokens — `if tt, ok := TABLE[b]; ok { return newOneCharToken(tt, pos, b) }`
			// with TABLE a package-level map literal from byte constants to token constructors (read-only; C07.e2)
			for _, st := range cc.Body {
				is, ok := st.(*ast.IfStmt)
				if !ok || is.Init == nil {
					continue
				}
				as, ok := is.Init.(*ast.AssignStmt)
				if !ok || len(as.Rhs) != 1 || len(as.Lhs) != 2 {
					continue
				}
				ix, ok := as.Rhs[0].(*ast.IndexExpr)
				if !ok {
					continue
				}
				tid, ok := ix.X.(*ast.Ident)
				if !ok {
					continue
				}
				tv, ok := info.Uses[tid].(*types.Var)
				if !ok || tv.Parent() != f.M.Main().Types.Scope() {
					continue
				}
				// the body returns newOneCharToken(<looked-up>, …)
				returnsIt := false
				for _, b := range is.Body.List {
					if rs, ok := b.(*ast.ReturnStmt); ok && len(rs.Results) == 1 {
						if call, ok := rs.Results[0].(*ast.CallExpr); ok && calleeName(call) == "newOneCharToken" && len(call.Args) == 3 {
							if a0, ok := call.Args[0].(*ast.Ident); ok {
								if l0, ok := as.Lhs[0].(*ast.Ident); ok && info.Uses[a0] == info.Defs[l0] {
									returnsIt = true
								}
							}
						}
					}
				}
				if !returnsIt {
					continue
				}
				// the table's literal
				for _, file := range f.M.Main().Syntax {
					for _, d := range file.Decls {
						gd, ok := d.(*ast.GenDecl)
						if !ok {
							continue
						}
						for _, sp := range gd.Specs {
							vs, ok := sp.(*ast.ValueSpec)
							if !ok {
								continue
							}
							for i, nm := range vs.Names {
								if info.Defs[nm] != tv || i >= len(vs.Values) {
									continue
								}
								if cl, ok := vs.Values[i].(*ast.CompositeLit); ok {
									for _, el := range cl.Elts {
										if kv, ok := el.(*ast.KeyValueExpr); ok {
											if ch, ok := charConst(kv.Key); ok {
												if _, dup := lex[string([]byte{ch})]; !dup {
													lex[string([]byte{ch})] = tokName(kv.Value)
													lexPos[string([]byte{ch})] = c.Pos(f.M.Fset, kv.Pos())
												}
											}
										}
									}
								}
							}
						}
					}
				}
			}
			continue
		}
		if len(cc.List) != 1 {
			continue
		}
		if ch, ok := eqChar(cc.List[0]); ok {
			scanClause(ch, cc.Body, nil)
		}
	}
	for _, lx := range sortedKeys(publishedLexeme) {
		want := publishedLexeme[lx]
		got, ok := lex[lx]
		p := lexPos[lx]
		if p == "" {
			p = pos
		}
		if !ok {
			r.Bad("C08.b", "scanTokenAt", "lexeme "+lx, p, "no scanner branch produces a token for the published operator spelling "+lx)
			continue
		}
		r.Check(got == want, "C08.b", "scanTokenAt", "lexeme "+lx, p, lx+" scans to "+want, lx+" scans to "+got+", published: "+want)
	}
}

// checkC10Routing: C10.c.
func checkC10Routing(c *Ctx) {
	r := c.R
	f := c.LoadFC("fc")
	if f == nil {
		return
	}
	tab, pos, ok := c.binOpTable(f.M, "binOpMap", "New_TokenType_")
	if !ok {
		r.Undecided("C10.c", "fc.binOpMap", "table", pos, "operator table is not a constant literal")
		return
	}
	for _, e := range tab {
		switch e.Token {
		case "EQ":
			r.Check(e.GoOp == "frt.OpEqual", "C10.c", "fc.binOpMap", "EQ", e.Pos, "`=` is emitted as frt.OpEqual", "`=` is emitted as "+e.GoOp)
		case "BRACKET":
			r.Check(e.GoOp == "frt.OpNotEqual", "C10.c", "fc.binOpMap", "BRACKET", e.Pos, "`<>` is emitted as frt.OpNotEqual", "`<>` is emitted as "+e.GoOp)
		}
	}
	c.expectNF(f, "C10.c", "newEqNeq", []string{
		`genBuiltinFunCall(p0, p1, ["T1"], [newTvf("T1"), newTvf("T1"), var:New_FType_FBool], [p2, p3])`,
	}, "both operands are typed by the same type variable, the result is bool, operands in order")
	if t, fn := f.Term("newBinOpCall"); fn != nil {
		p := c.Pos(f.M.Fset, fn.Decl.Pos())
		for _, cs := range []string{"TokenType_EQ", "TokenType_BRACKET"} {
			b, ok := armBody(f.Path, t, cs)
			r.Check(ok && b == "newEqNeq(p0, p2.GoFuncName, p3, p4)", "C10.c", "newBinOpCall", "arm "+cs, p,
				cs+" builds the equality call with the table's function name and (lhs, rhs)", cs+" arm is "+b)
		}
	} else {
		r.Undecided("C10.c", "newBinOpCall", "definition", "fc", "anchor function not found")
	}
}
