package rules

import (
	"go/types"
	"sort"
	"strings"

	"verif/tools/internal/ir"
)

// ADV — parser productivity (C16.f).  The parser is a set of mutually recursive
// functions over an immutable ParseState, tied together by callbacks
// (pExpr, pBlock, pType, pLet) and by the ParseList/ParseList2 loops.  Parsing a
// finite token sequence terminates if every cycle of that recursion consumes a
// token.  The analysis computes, for every ParseState value, how far it is
// from the function's own ParseState parameter:
//
//	S  possibly the same position        W  advanced unless at end of input        A  advanced by at least one token
//
// psConsume(tok≠EOF) yields A (it panics unless the current token is tok);
// psNext/psNextNOL yield A when the current token is known not to be EOF (a
// match arm / psCurIs test / psExpect on the same state), else W; psSkipEOL and
// the scope/offside/context transformers keep the level.  Function summaries
// (level of the returned state) are a greatest fixpoint.  Obligations:
//
//	f1  no cycle of the call/callback graph consists only of S/W edges (an edge's level is the level of the state passed);
//	    callbacks are merged per function type, bindings of a function value to a callback type are edges from the type
//	f2  every function bound to the step parameter of ParseList/ParseList2 (also through wrappers such as ParseSepList)
//	    returns an A state: each iteration consumes a token or panics
//	f3  every function value bound to a parser-typed callback parameter returns an A state

type lvl int

const (
	lvS lvl = iota
	lvW
	lvA
)

func (l lvl) String() string { return [...]string{"S", "W", "A"}[l] }

func lmax(a, b lvl) lvl {
	if a > b {
		return a
	}
	return b
}
func lmin(a, b lvl) lvl {
	if a < b {
		return a
	}
	return b
}

type akind int

const (
	akBot akind = iota
	akOther
	akPS
	akTup
	akFn
)

type aval struct {
	k   akind
	l   lvl
	el  []aval
	fn  ir.Term
	env aenv
}

type aenv map[*types.Var]aval

var aBot = aval{k: akBot}
var aOther = aval{k: akOther}

func aPS(l lvl) aval { return aval{k: akPS, l: l} }

// ajoin: meet over returning paths (the weakest level wins); Bot is the identity.
func ajoin(a, b aval) aval {
	if a.k == akBot {
		return b
	}
	if b.k == akBot {
		return a
	}
	if a.k != b.k {
		return aOther
	}
	switch a.k {
	case akPS:
		return aPS(lmin(a.l, b.l))
	case akTup:
		if len(a.el) != len(b.el) {
			return aOther
		}
		r := aval{k: akTup, el: make([]aval, len(a.el))}
		for i := range a.el {
			r.el[i] = ajoin(a.el[i], b.el[i])
		}
		return r
	}
	return a
}

func alift(v aval, l lvl) aval {
	switch v.k {
	case akPS:
		return aPS(lmax(v.l, l))
	case akTup:
		r := aval{k: akTup, el: make([]aval, len(v.el))}
		for i, e := range v.el {
			r.el[i] = alift(e, l)
		}
		return r
	}
	return v
}

func afirst(v aval) (lvl, bool) {
	switch v.k {
	case akPS:
		return v.l, true
	case akTup:
		for _, e := range v.el {
			if l, ok := afirst(e); ok {
				return l, true
			}
		}
	}
	return lvS, false
}

func asame(a, b aval) bool {
	if a.k != b.k || a.l != b.l || len(a.el) != len(b.el) {
		return false
	}
	for i := range a.el {
		if !asame(a.el[i], b.el[i]) {
			return false
		}
	}
	return true
}

type advEdge struct {
	from, to string
	l        lvl
	site     string
}

type advAn struct {
	c       *Ctx
	f       *FC
	nr      map[string]bool
	n       *ir.Normalizer
	sum     map[string]aval
	psParam map[string]int
	cur     *ir.Func
	edges   map[string]advEdge
	report  bool
	reqA    map[string]bool // "funcKey#idx": function-typed parameter that must be an advancing parser
	grew    bool
	fails   map[string]string
	oks     int
	depth   int
	mute    int    // >0: edges are not recorded (checking a bound value, not executing it here)
	node    string // when set, edges start at this callback-type node
}

func (a *advAn) isPS(t types.Type) bool {
	n, ok := t.(*types.Named)
	return ok && n.Obj().Name() == "ParseState" && n.Obj().Pkg() != nil && n.Obj().Pkg().Path() == a.f.Path
}

func (a *advAn) shape(t types.Type, l lvl) aval {
	if t == nil {
		return aOther
	}
	if a.isPS(t) {
		return aPS(l)
	}
	if n, ok := t.(*types.Named); ok && n.Obj().Pkg() != nil && n.Obj().Pkg().Path() == ir.FrtPath && strings.HasPrefix(n.Obj().Name(), "Tuple") {
		r := aval{k: akTup}
		for i := 0; i < n.TypeArgs().Len(); i++ {
			r.el = append(r.el, a.shape(n.TypeArgs().At(i), l))
		}
		return r
	}
	return aOther
}

// parserType: func(… ParseState …) R where R contains a ParseState — a callback that threads the state.
func (a *advAn) threads(t types.Type) (*types.Signature, bool) {
	sig, ok := t.Underlying().(*types.Signature)
	if !ok || sig.Results().Len() != 1 {
		return nil, false
	}
	if _, ok := afirst(a.shape(sig.Results().At(0).Type(), lvS)); !ok {
		return nil, false
	}
	for i := 0; i < sig.Params().Len(); i++ {
		if a.isPS(sig.Params().At(i).Type()) {
			return sig, true
		}
	}
	return nil, false
}

// isParser: result is a tuple (state, value): a real sub-parser, expected to consume input.
func (a *advAn) isParser(sig *types.Signature) bool {
	if a.shape(sig.Results().At(0).Type(), lvS).k != akTup {
		return false
	}
	// a generic step (func(ParseState) (ParseState, T)) carries no assumption; the grammar callbacks are concrete
	n, ok := sig.Results().At(0).Type().(*types.Named)
	if !ok {
		return false
	}
	for i := 0; i < n.TypeArgs().Len(); i++ {
		if _, isTP := n.TypeArgs().At(i).(*types.TypeParam); isTP {
			return false
		}
	}
	return true
}

func typeNode(sig *types.Signature) string {
	return "callback:" + types.TypeString(sig, func(p *types.Package) string { return "" })
}

func (a *advAn) name(key string) string { return strings.TrimPrefix(key, a.f.Path+".") }

func (a *advAn) edge(to string, l lvl) {
	if !a.report || a.mute > 0 {
		return
	}
	from := a.cur.Key
	if a.node != "" {
		from = a.node
	}
	k := from + "→" + to
	if e, ok := a.edges[k]; !ok || l < e.l {
		a.edges[k] = advEdge{from, to, l, a.cur.Name}
	}
}

// knownTokens: states whose current token is known not to be EOF, from calls evaluated unconditionally in t.
func (a *advAn) unconditionalFacts(t ir.Term, into map[string]bool) {
	var rec func(t ir.Term)
	rec = func(t ir.Term) {
		switch x := t.(type) {
		case nil:
			return
		case *ir.If, *ir.IfT, *ir.Match, *ir.StrMatch, *ir.Lam, *ir.PApp:
			if iff, ok := x.(*ir.If); ok {
				rec(iff.Cond)
			}
			if m, ok := x.(*ir.Match); ok {
				rec(m.Scrut)
			}
			return
		case *ir.App:
			if fr, ok := x.Fun.(*ir.FuncRef); ok {
				switch a.name(fr.Key) {
				case "psExpect", "psExpectMsg", "psConsume":
					if len(x.Args) >= 2 && ir.String(a.f.Path, x.Args[0]) != "var:New_TokenType_EOF" {
						into[ir.String(a.f.Path, x.Args[1])] = true
					}
				case "psIdentName", "psStringVal":
					if len(x.Args) == 1 {
						into[ir.String(a.f.Path, x.Args[0])] = true
					}
				}
			}
		}
		first := true
		ir.Walk(t, func(y ir.Term) bool {
			if first {
				first = false
				return true
			}
			rec(y)
			return false
		})
	}
	rec(t)
}

func withFacts(ctx map[string]bool, more map[string]bool) map[string]bool {
	if len(more) == 0 {
		return ctx
	}
	n := map[string]bool{}
	for k := range ctx {
		n[k] = true
	}
	for k := range more {
		n[k] = true
	}
	return n
}

func (a *advAn) fail(kind, msg string) {
	if a.report {
		a.fails[a.cur.Name+"|"+kind] = msg
	}
}

// mustAdvance checks that a function value bound to a step/parser parameter returns an advanced state.
func (a *advAn) mustAdvance(fv aval, sig *types.Signature, what string, argTerm ir.Term) {
	if fv.k != akFn || sig == nil {
		return
	}
	if p, ok := fv.fn.(*ir.Param); ok {
		// our own parameter is passed on: the requirement propagates to our callers
		k := a.cur.Key + "#" + sprintf("%d", p.Idx)
		if !a.reqA[k] {
			a.reqA[k] = true
			a.grew = true
		}
		return
	}
	if a.advances(fv, sig) {
		a.oks++
		return
	}
	l := lvS
	a.fail("step "+what, what+" may return without consuming a token (level "+l.String()+"): "+short(ir.String(a.f.Path, argTerm), 120))
}

// advances: applying the function value to a state returns a state advanced by at least one token (or never returns).
func (a *advAn) advances(fv aval, sig *types.Signature) bool {
	if fv.k != akFn || sig == nil {
		return false
	}
	var args []aval
	for i := 0; i < sig.Params().Len(); i++ {
		args = append(args, a.shape(sig.Params().At(i).Type(), lvS))
	}
	a.mute++
	res := a.applyFn(fv, args, nil)
	a.mute--
	l, has := afirst(res)
	return res.k == akBot || !has || l == lvA
}

func (a *advAn) applyFn(fv aval, args []aval, ctx map[string]bool) aval {
	if a.depth > 40 {
		return aOther
	}
	a.depth++
	defer func() { a.depth-- }()
	switch f := fv.fn.(type) {
	case *ir.Lam:
		e := aenv{}
		for k, v := range fv.env {
			e[k] = v
		}
		for i, p := range f.Params {
			if p != nil && i < len(args) {
				e[p] = args[i]
			}
		}
		facts := map[string]bool{}
		a.unconditionalFacts(f.Body.Ret, facts)
		return a.eval(f.Body.Ret, e, facts)
	case *ir.PApp:
		var first []aval
		for _, x := range f.First {
			first = append(first, a.eval(x, fv.env, ctx))
		}
		return a.call(f.Fun, append(first, args...), append(append([]ir.Term{}, f.First...), make([]ir.Term, len(args))...), fv.env, ctx)
	case *ir.FuncRef:
		return a.call(f, args, make([]ir.Term, len(args)), fv.env, ctx)
	case *ir.Param, *ir.Local:
		var t types.Type
		if p, ok := f.(*ir.Param); ok {
			t = p.Obj.Type()
		} else {
			t = f.(*ir.Local).Obj.Type()
		}
		sig, ok := a.threads(t)
		if !ok {
			return aOther
		}
		var al lvl
		for _, x := range args {
			if l, ok := afirst(x); ok {
				al = l
				break
			}
		}
		a.edge(typeNode(sig), al)
		assumed := lvS
		if a.isParser(sig) {
			assumed = lvA // discharged at every binding site (f3)
		}
		return alift(a.shape(sig.Results().At(0).Type(), lvS), lmax(al, assumed))
	}
	return aOther
}

var advTokenPreserving = map[string]bool{
	"psPushScope": true, "psPopScope": true, "psPushOffside": true, "psPopOffside": true, "psEnterTypeDef": true, "psLeaveTypeDef": true,
	"psResetTmpCtx": true, "psWithTVCtx": true, "psWithScope": true, "psWithOffside": true, "psWithTDCtx": true, "psSkipEOL": true,
}

func (a *advAn) call(fun ir.Term, args []aval, argTerms []ir.Term, env aenv, ctx map[string]bool) aval {
	fr, ok := fun.(*ir.FuncRef)
	if !ok {
		return a.applyFn(aval{k: akFn, fn: fun, env: env}, args, ctx)
	}
	name := a.name(fr.Key)
	if a.nr[fr.Key] {
		return aBot
	}
	argS := func(i int) string {
		if i < len(argTerms) && argTerms[i] != nil {
			return ir.String(a.f.Path, argTerms[i])
		}
		return ""
	}
	psArg := func(i int) aval {
		if i < len(args) {
			return args[i]
		}
		return aOther
	}
	switch name {
	case "psConsume":
		v := psArg(1)
		if v.k == akBot {
			return aBot
		}
		if argS(0) == "var:New_TokenType_EOF" {
			return v
		}
		return aPS(lvA)
	case "psMulConsume":
		v := psArg(1)
		if v.k == akBot {
			return aBot
		}
		if len(argTerms) > 0 {
			if sl, ok := argTerms[0].(*ir.SliceLit); ok && len(sl.Elems) > 0 {
				return aPS(lvA)
			}
		}
		return v
	case "psNext", "psNextNOL":
		v := psArg(0)
		if v.k == akBot {
			return aBot
		}
		if v.k != akPS {
			return aOther
		}
		if ctx[argS(0)] && argS(0) != "" {
			return aPS(lvA)
		}
		return aPS(lmax(v.l, lvW))
	case "psSetNewSrc":
		return aPS(lvS)
	}
	if advTokenPreserving[name] && len(args) == 1 {
		return args[0]
	}
	sig, _ := fr.Fn.Type().(*types.Signature)
	// step obligations of the list loops
	switch fr.Key {
	case a.f.Path + ".ParseList", a.f.Path + ".ParseList2":
		if sig != nil && len(args) >= 3 {
			if psig, ok := sig.Params().At(0).Type().Underlying().(*types.Signature); ok {
				nextAdv := false
				if name == "ParseList2" && len(args) == 4 {
					if nsig, ok := sig.Params().At(2).Type().Underlying().(*types.Signature); ok {
						if _, isParam := args[2].fn.(*ir.Param); !isParam {
							nextAdv = a.advances(args[2], nsig)
						}
					}
				}
				if nextAdv {
					a.oks++ // every iteration after the first consumes the separator
				} else {
					a.mustAdvance(args[0], psig, "the step of "+name, argTerms[0])
				}
			}
		}
		ps := args[len(args)-1]
		if ps.k == akBot {
			return aBot
		}
		if ps.k != akPS {
			return aOther
		}
		// ParseList2 runs the step at least once
		l := ps.l
		if name == "ParseList2" && sig != nil {
			if psig, ok := sig.Params().At(0).Type().Underlying().(*types.Signature); ok {
				if _, isParam := args[0].fn.(*ir.Param); !isParam && a.advances(args[0], psig) {
					l = lvA
				}
			}
		}
		return aval{k: akTup, el: []aval{aPS(l), aOther}}
	case slicePath + ".Fold":
		if len(args) == 3 {
			return args[1]
		}
	}
	if sig != nil {
		for i := 0; i < sig.Params().Len() && i < len(args); i++ {
			psig, ok := a.threads(sig.Params().At(i).Type())
			if !ok {
				continue
			}
			// binding of a function value to a callback type: an edge from the type to what the value calls
			if a.report && args[i].k == akFn {
				a.bindEdges(typeNode(psig), args[i])
			}
			if a.reqA[fr.Key+"#"+sprintf("%d", i)] {
				a.mustAdvance(args[i], psig, sprintf("the function bound to step parameter %s of %s", sig.Params().At(i).Name(), name), argTerms[i])
			} else if a.isParser(psig) {
				a.mustAdvance(args[i], psig, sprintf("the parser bound to parameter %s of %s", sig.Params().At(i).Name(), name), argTerms[i])
			}
		}
	}
	if callee, ok := a.f.Prog.ByKey[fr.Key]; ok {
		s, has := a.sum[fr.Key]
		if !has {
			return aOther
		}
		pi := a.psParam[fr.Key]
		var al lvl
		if pi >= 0 && pi < len(args) {
			if args[pi].k == akBot {
				return aBot
			}
			al, _ = afirst(args[pi])
		}
		_ = callee
		a.edge(fr.Key, al)
		return alift(s, al)
	}
	if sig != nil && sig.Results().Len() == 1 {
		var al lvl
		for _, x := range args {
			if l, ok := afirst(x); ok {
				al = l
				break
			}
		}
		return a.shape(sig.Results().At(0).Type(), al)
	}
	return aOther
}

// bindEdges records the edges that start at a callback-type node: what a function value bound to that type calls,
// and at which level, when it is applied to a state.
func (a *advAn) bindEdges(node string, fv aval) {
	if p, ok := fv.fn.(*ir.Param); ok {
		if sig, ok := a.threads(p.Obj.Type()); ok && node != typeNode(sig) {
			a.edges[node+"→"+typeNode(sig)] = advEdge{node, typeNode(sig), lvS, a.cur.Name}
		}
		return
	}
	var sig *types.Signature
	switch f := fv.fn.(type) {
	case *ir.Lam:
		if f.Lit != nil {
			if tv, ok := a.f.M.Main().TypesInfo.Types[f.Lit]; ok {
				sig, _ = tv.Type.(*types.Signature)
			}
		}
	case *ir.FuncRef:
		sig, _ = f.Fn.Type().(*types.Signature)
	}
	var args []aval
	if sig != nil {
		for i := 0; i < sig.Params().Len(); i++ {
			args = append(args, a.shape(sig.Params().At(i).Type(), lvS))
		}
	} else {
		args = []aval{aPS(lvS)}
	}
	savedNode, savedMute := a.node, a.mute
	a.node, a.mute = node, 0
	a.applyFn(fv, args, nil)
	a.node, a.mute = savedNode, savedMute
}

func (a *advAn) eval(t ir.Term, env aenv, ctx map[string]bool) aval {
	switch x := t.(type) {
	case nil:
		return aOther
	case *ir.Param:
		if a.isPS(x.Obj.Type()) {
			return aPS(lvS)
		}
		if _, ok := x.Obj.Type().Underlying().(*types.Signature); ok {
			return aval{k: akFn, fn: x}
		}
		return a.shape(x.Obj.Type(), lvS)
	case *ir.Local:
		if v, ok := env[x.Obj]; ok {
			return v
		}
		if _, ok := x.Obj.Type().Underlying().(*types.Signature); ok {
			return aval{k: akFn, fn: x}
		}
		return a.shape(x.Obj.Type(), lvS)
	case *ir.Lam:
		return aval{k: akFn, fn: x, env: env}
	case *ir.PApp:
		return aval{k: akFn, fn: x, env: env}
	case *ir.FuncRef:
		return aval{k: akFn, fn: x}
	case *ir.Tuple:
		r := aval{k: akTup}
		for _, e := range x.Elems {
			v := a.eval(e, env, ctx)
			if v.k == akBot {
				return aBot
			}
			r.el = append(r.el, v)
		}
		return r
	case *ir.Proj:
		v := a.eval(x.X, env, ctx)
		if v.k == akTup && x.I < len(v.el) {
			return v.el[x.I]
		}
		if v.k == akBot {
			return aBot
		}
		return aOther
	case *ir.If:
		a.eval(x.Cond, env, ctx)
		thenC, elseC := ctx, ctx
		if app, ok := isCallTo(x.Cond, a.f.Path+".psCurIs"); ok && len(app.Args) == 2 && ir.String(a.f.Path, app.Args[0]) != "var:New_TokenType_EOF" {
			thenC = withFacts(ctx, map[string]bool{ir.String(a.f.Path, app.Args[1]): true})
		}
		if bo, ok := x.Cond.(*ir.BinOp); ok && (bo.Op == "eq" || bo.Op == "ne") {
			if app, ok := isCallTo(bo.L, a.f.Path+".psCurrentTT"); ok && len(app.Args) == 1 {
				fact := map[string]bool{ir.String(a.f.Path, app.Args[0]): true}
				isEOF := ir.String(a.f.Path, bo.R) == "var:New_TokenType_EOF"
				switch {
				case bo.Op == "eq" && !isEOF:
					thenC = withFacts(ctx, fact)
				case bo.Op == "eq" && isEOF:
					elseC = withFacts(ctx, fact)
				case bo.Op == "ne" && isEOF:
					thenC = withFacts(ctx, fact)
				case bo.Op == "ne" && !isEOF:
					elseC = withFacts(ctx, fact)
				}
			}
		}
		tf := map[string]bool{}
		a.unconditionalFacts(x.Then.Ret, tf)
		r := a.eval(x.Then.Ret, env, withFacts(thenC, tf))
		if x.Else != nil {
			ef := map[string]bool{}
			a.unconditionalFacts(x.Else.Ret, ef)
			r = ajoin(r, a.eval(x.Else.Ret, env, withFacts(elseC, ef)))
		} else {
			r = ajoin(r, aOther)
		}
		return r
	case *ir.Match:
		a.eval(x.Scrut, env, ctx)
		var xs string
		if app, ok := isCallTo(x.Scrut, a.f.Path+".psCurrentTT"); ok && len(app.Args) == 1 {
			xs = ir.String(a.f.Path, app.Args[0])
		}
		if fl, ok := x.Scrut.(*ir.Field); ok && fl.Name == "ttype" {
			if app, ok := isCallTo(fl.X, a.f.Path+".psCurrent"); ok && len(app.Args) == 1 {
				xs = ir.String(a.f.Path, app.Args[0])
			}
		}
		r := aBot
		for _, arm := range x.Arms {
			actx := ctx
			if xs != "" && ir.CaseName(arm.Cases[0]) != "TokenType_EOF" {
				actx = withFacts(ctx, map[string]bool{xs: true})
			}
			af := map[string]bool{}
			a.unconditionalFacts(arm.Body.Ret, af)
			r = ajoin(r, a.eval(arm.Body.Ret, env, withFacts(actx, af)))
		}
		if x.Default != nil && !x.NeverReached {
			df := map[string]bool{}
			a.unconditionalFacts(x.Default.Ret, df)
			r = ajoin(r, a.eval(x.Default.Ret, env, withFacts(ctx, df)))
		}
		return r
	case *ir.Seq:
		for _, e := range x.Effs {
			if a.eval(e, env, ctx).k == akBot && panics(e, a.nr) {
				return aBot
			}
		}
		if x.Ret == nil {
			return aOther
		}
		return a.eval(x.Ret, env, ctx)
	case *ir.App:
		var args []aval
		for _, arg := range x.Args {
			args = append(args, a.eval(arg, env, ctx))
		}
		if b, ok := x.Fun.(*ir.Builtin); ok {
			if b.Name == "panic" {
				return aBot
			}
			return aOther
		}
		return a.call(x.Fun, args, x.Args, env, ctx)
	}
	first := true
	ir.Walk(t, func(y ir.Term) bool {
		if first {
			first = false
			return true
		}
		a.eval(y, env, ctx)
		return false
	})
	return aOther
}

// runAdv runs the analysis and reports C16.f.
func runAdv(c *Ctx, f *FC, nr map[string]bool) {
	r := c.R
	r.Rule("C16.f", "parser productivity: no recursion cycle without consuming a token; every ParseList step and every parser callback consumes a token or panics", 2)
	n := ir.NewNormalizer()
	for k, v := range f.N.Inline {
		n.Inline[k] = v
	}
	// tiny higher-order helpers are inlined so that their function arguments are known at the loop
	for _, hn := range []string{"psStrNx", "ParseSepList"} {
		if h, ok := f.Prog.ByName[hn]; ok {
			n.Inline[h.Key] = h
		}
	}
	a := &advAn{c: c, f: f, nr: nr, n: n, sum: map[string]aval{}, psParam: map[string]int{}, edges: map[string]advEdge{}, reqA: map[string]bool{}, fails: map[string]string{}}
	prims := map[string]bool{"psConsume": true, "psMulConsume": true, "psNext": true, "psNextNOL": true, "psSetNewSrc": true, "ParseList": true, "ParseList2": true, "initParse": true, "newParse": true, "psWithTkz": true}
	var fns []*ir.Func
	for _, fn := range f.Prog.Funcs {
		idx := -1
		for i, p := range fn.Params {
			if a.isPS(p.Type()) {
				idx = i
				break
			}
		}
		a.psParam[fn.Key] = idx
		if prims[fn.Name] || advTokenPreserving[fn.Name] || idx < 0 || fn.Results == nil || fn.Results.Len() != 1 {
			continue
		}
		if _, ok := afirst(a.shape(fn.Results.At(0).Type(), lvS)); !ok {
			continue
		}
		fns = append(fns, fn)
		a.sum[fn.Key] = a.shape(fn.Results.At(0).Type(), lvA) // optimistic start (greatest fixpoint)
	}
	evalFn := func(fn *ir.Func) aval {
		a.cur = fn
		nf := a.n.Func(fn)
		facts := map[string]bool{}
		a.unconditionalFacts(nf, facts)
		return a.eval(nf, aenv{}, facts)
	}
	for iter := 0; iter < 60; iter++ {
		changed := false
		a.grew = false
		for _, fn := range fns {
			v := evalFn(fn)
			if v.k == akBot {
				continue
			}
			nv := ajoin(a.sum[fn.Key], v)
			if !asame(nv, a.sum[fn.Key]) {
				a.sum[fn.Key] = nv
				changed = true
			}
		}
		if !changed && !a.grew {
			break
		}
	}
	a.report = true
	for _, fn := range f.Prog.Funcs {
		if fn.Generated || fn.Name == "ParseAll" || strings.HasSuffix(fn.Name, "Facade") {
			evalFn(fn)
		}
	}
	r.Unit("adv_functions", len(fns))
	r.Unit("adv_step_and_callback_bindings_discharged", a.oks)
	// f2/f3
	for _, k := range sortedKeys(a.fails) {
		parts := strings.SplitN(k, "|", 2)
		r.Bad("C16.f", parts[0], parts[1], "fc", a.fails[k]+": a list loop or a recursive descent through this callback can repeat without consuming input")
	}
	if len(a.fails) == 0 {
		r.OK("C16.f", "-", "steps-and-callbacks", "fc", sprintf("all %d bindings of a ParseList/ParseList2 step or of a parser-typed callback return a state advanced by at least one token (or never return)", a.oks))
	}
	// f1: cycles over S/W edges
	adj := map[string][]string{}
	for _, e := range a.edges {
		if e.l < lvA {
			adj[e.from] = append(adj[e.from], e.to)
		}
	}
	for k := range adj {
		sort.Strings(adj[k])
	}
	color := map[string]int{}
	var stack []string
	var cycles []string
	var dfs func(u string)
	dfs = func(u string) {
		color[u] = 1
		stack = append(stack, u)
		for _, v := range adj[u] {
			if color[v] == 1 {
				i := len(stack) - 1
				for i >= 0 && stack[i] != v {
					i--
				}
				var names []string
				for _, s := range stack[i:] {
					names = append(names, a.name(s))
				}
				cycles = append(cycles, strings.Join(append(names, a.name(v)), " → "))
			} else if color[v] == 0 {
				dfs(v)
			}
		}
		stack = stack[:len(stack)-1]
		color[u] = 2
	}
	var nodes []string
	for k := range adj {
		nodes = append(nodes, k)
	}
	sort.Strings(nodes)
	for _, u := range nodes {
		if color[u] == 0 {
			dfs(u)
		}
	}
	nE, nS := 0, 0
	for _, e := range a.edges {
		nE++
		if e.l < lvA {
			nS++
		}
	}
	r.Unit("adv_graph_edges", nE)
	r.Unit("adv_graph_edges_without_consumption", nS)
	if len(cycles) == 0 {
		r.OK("C16.f", "-", "no-unproductive-cycle", "fc", sprintf("the call/callback graph (%d edges, %d of them passing a state that has not consumed a token) has no cycle made only of non-consuming edges: every recursion of the parser consumes input", nE, nS))
	}
	seen := map[string]bool{}
	for _, cy := range cycles {
		if seen[cy] {
			continue
		}
		seen[cy] = true
		r.Bad("C16.f", "-", "cycle "+short(cy, 80), "fc", "recursion cycle without consuming a token (left recursion): "+cy+" — on some input the parser recurses until the Go stack is exhausted")
	}
	var weak []string
	for _, fn := range fns {
		if l, ok := afirst(a.sum[fn.Key]); ok && l < lvA {
			weak = append(weak, fn.Name+":"+l.String())
		}
	}
	sort.Strings(weak)
	r.Note("C16.f: state-threading functions that may return without consuming a token (legal when not used as a loop step or parser callback): %s", strings.Join(weak, ", "))
}
