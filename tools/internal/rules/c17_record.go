package rules

import (
	"crypto/sha256"
	"encoding/hex"
	"fmt"
	"go/ast"
	"go/token"
	"go/types"
	"reflect"
	"sort"
	"strings"

	"golang.org/x/tools/go/packages"

	"verif/tools/internal/core"
)

// C17.e — tinyfo is a record.
//
// The project keeps tinyfo "for record keeping" (README: "no longer in use but kept for record
// keeping").  Its parser and AST builders are imperative Go that mutate a tokenizer; the FoIR
// normal forms are not faithful closed forms for that style (assignments in branches are
// path-split, stateful reads are re-ordered), so sibling agreement beyond the emitters cannot
// be decided from normal forms.  What can be decided: every non-test function of tinyfo is
// still the function whose agreement with fc was reviewed.  Each function has a canonical
// digest of its typed syntax — node kinds in pre-order, literals by value, package-level
// objects by qualified name, locals (parameters, variables, labels) numbered by first
// occurrence; comments, positions, formatting and local names do not matter.  A different
// digest is *undecided* (the reviewed agreement no longer covers the function), a function
// that disappeared or appeared likewise.  This is change detection relative to a reviewed
// baseline, not a proof about behaviour; it is claimed only because the directory is a record.

func canonicalDigest(pkg *packages.Package, fd *ast.FuncDecl) string {
	info := pkg.TypesInfo
	locals := map[types.Object]int{}
	var sb strings.Builder
	within := func(o types.Object) bool {
		return o != nil && o.Pos() >= fd.Pos() && o.Pos() <= fd.End()
	}
	var emitIdent func(id *ast.Ident)
	emitIdent = func(id *ast.Ident) {
		var obj types.Object
		if o := info.Defs[id]; o != nil {
			obj = o
		} else if o := info.Uses[id]; o != nil {
			obj = o
		}
		switch {
		case obj == nil:
			sb.WriteString("id:" + id.Name + ";")
		case within(obj):
			n, ok := locals[obj]
			if !ok {
				n = len(locals)
				locals[obj] = n
			}
			fmt.Fprintf(&sb, "L%d;", n)
		default:
			q := obj.Name()
			if obj.Pkg() != nil && obj.Pkg() != pkg.Types {
				q = obj.Pkg().Path() + "." + q
			}
			if v, ok := obj.(*types.Var); ok && v.IsField() {
				q = "field." + q
			}
			sb.WriteString("g:" + q + ";")
		}
	}
	var walk func(n ast.Node)
	walk = func(n ast.Node) {
		if n == nil || reflect.ValueOf(n).IsNil() {
			sb.WriteString("nil;")
			return
		}
		switch x := n.(type) {
		case *ast.Ident:
			emitIdent(x)
			return
		case *ast.BasicLit:
			sb.WriteString(x.Kind.String() + ":" + x.Value + ";")
			return
		case *ast.CommentGroup, *ast.Comment:
			return
		}
		sb.WriteString(strings.TrimPrefix(fmt.Sprintf("%T", n), "*ast.") + "{")
		switch x := n.(type) {
		case *ast.BinaryExpr:
			sb.WriteString(x.Op.String() + ";")
		case *ast.UnaryExpr:
			sb.WriteString(x.Op.String() + ";")
		case *ast.AssignStmt:
			sb.WriteString(x.Tok.String() + ";")
		case *ast.IncDecStmt:
			sb.WriteString(x.Tok.String() + ";")
		case *ast.BranchStmt:
			sb.WriteString(x.Tok.String() + ";")
		case *ast.RangeStmt:
			sb.WriteString(x.Tok.String() + ";")
		case *ast.GenDecl:
			sb.WriteString(x.Tok.String() + ";")
		case *ast.CallExpr:
			if x.Ellipsis != token.NoPos {
				sb.WriteString("...;")
			}
		case *ast.ChanType:
			fmt.Fprintf(&sb, "dir%d;", x.Dir)
		}
		// children in field order
		v := reflect.ValueOf(n).Elem()
		for i := 0; i < v.NumField(); i++ {
			f := v.Field(i)
			switch f.Kind() {
			case reflect.Interface, reflect.Ptr:
				if f.IsNil() {
					if _, ok := f.Interface().(ast.Node); ok || f.Type().Implements(nodeType) {
						sb.WriteString("nil;")
					}
					continue
				}
				if c, ok := f.Interface().(ast.Node); ok {
					if _, isObj := f.Interface().(*ast.Object); isObj {
						continue
					}
					walk(c)
				}
			case reflect.Slice:
				for j := 0; j < f.Len(); j++ {
					e := f.Index(j)
					if (e.Kind() == reflect.Interface || e.Kind() == reflect.Ptr) && !e.IsNil() {
						if c, ok := e.Interface().(ast.Node); ok {
							walk(c)
						}
					}
				}
				if f.Len() > 0 || f.Type().Elem().Implements(nodeType) {
					sb.WriteString("|")
				}
			}
		}
		sb.WriteString("}")
	}
	// receiver and signature are part of the function
	if fd.Recv != nil {
		walk(fd.Recv)
	}
	walk(fd.Type)
	if fd.Body != nil {
		walk(fd.Body)
	}
	h := sha256.Sum256([]byte(sb.String()))
	return hex.EncodeToString(h[:8])
}

var nodeType = reflect.TypeOf((*ast.Node)(nil)).Elem()

func funcLabel(fd *ast.FuncDecl) string {
	if fd.Recv != nil && len(fd.Recv.List) == 1 {
		t := fd.Recv.List[0].Type
		if s, ok := t.(*ast.StarExpr); ok {
			t = s.X
		}
		if ix, ok := t.(*ast.IndexExpr); ok {
			t = ix.X
		}
		if ix, ok := t.(*ast.IndexListExpr); ok {
			t = ix.X
		}
		if id, ok := t.(*ast.Ident); ok {
			return id.Name + "." + fd.Name.Name
		}
	}
	return fd.Name.Name
}

// tinyfoDigests computes label -> digest for every non-test function of the module's main package.
func tinyfoDigests(m *core.Module) map[string]string {
	res := map[string]string{}
	pkg := m.Main()
	for _, file := range pkg.Syntax {
		name := m.Fset.Position(file.Pos()).Filename
		if strings.HasSuffix(name, "_test.go") {
			continue
		}
		for _, d := range file.Decls {
			fd, ok := d.(*ast.FuncDecl)
			if !ok {
				continue
			}
			res[funcLabel(fd)] = canonicalDigest(pkg, fd)
		}
	}
	return res
}

// DumpDigests prints the Go table of digests (developer aid: regenerate c17_digests.go after a review).
func DumpDigests(repo *core.Repo, dir string) {
	m, err := repo.Load(dir, false)
	if err != nil {
		fmt.Println(err)
		return
	}
	d := tinyfoDigests(m)
	var ks []string
	for k := range d {
		ks = append(ks, k)
	}
	sort.Strings(ks)
	fmt.Println("package rules\n\n// generated by `fvcheck -dump tinyfo -fn DIGESTS` from the reviewed tree; see c17_record.go\nvar c17Digests = map[string]string{")
	for _, k := range ks {
		fmt.Printf("\t%q: %q,\n", k, d[k])
	}
	fmt.Println("}")
}

func checkTinyfoRecord(c *Ctx, t *FC) {
	r := c.R
	have := tinyfoDigests(t.M)
	r.Unit("tinyfo_functions", len(have))
	pos := func(label string) string {
		if fn, ok := t.Prog.ByName[label]; ok {
			return c.Pos(t.M.Fset, fn.Decl.Pos())
		}
		return "tinyfo"
	}
	for _, k := range sortedKeys(c17Digests) {
		h, ok := have[k]
		switch {
		case !ok:
			r.Undecided("C17.e", k, "present", "tinyfo", "the function no longer exists: the reviewed agreement with fc covered it (tinyfo is kept as a record; README)")
		case h != c17Digests[k]:
			r.Undecided("C17.e", k, "unchanged", pos(k), "the function was edited (canonical typed-syntax digest "+h+", reviewed "+c17Digests[k]+"): tinyfo is kept as a record and its agreement with fc was reviewed for the recorded form only — review the change against fc's sibling and regenerate the table")
		default:
			r.OK("C17.e", k, "unchanged", pos(k), "canonical digest "+h+" is the reviewed one")
		}
	}
	for _, k := range sortedKeys(have) {
		if _, ok := c17Digests[k]; !ok {
			r.Undecided("C17.e", k, "reviewed", pos(k), "a function was added to tinyfo that the reviewed agreement does not cover")
		}
	}
}

// C17.f — two lowering facts read off the typed syntax (diagnosable companions of the digest rule).
//
//	f1: in NewBinOpCall the branch for `=` / `<>` returns, on every path, the call of the table's function
//	    (binfo.goFuncName: frt.OpEqual / frt.OpNotEqual, C17.a) on (lhs, rhs) — so `<>` is the negation of `=`
//	    for every operand form, as in fc (newEqNeq, C10.c);
//	f2: in parseDestLetDefVar the k-th name of `let (a, b) = e` is bound to the k-th component type of e.
func checkTinyfoFacts(c *Ctx, t *FC) {
	r := c.R
	pkg := t.M.Main()
	info := pkg.TypesInfo
	find := func(label string) *ast.FuncDecl {
		for _, file := range pkg.Syntax {
			for _, d := range file.Decls {
				if fd, ok := d.(*ast.FuncDecl); ok && funcLabel(fd) == label {
					return fd
				}
			}
		}
		return nil
	}
	objOf := func(e ast.Expr) types.Object {
		if id, ok := e.(*ast.Ident); ok {
			if o := info.Uses[id]; o != nil {
				return o
			}
			return info.Defs[id]
		}
		return nil
	}
	// ---- f1
	if fd := find("NewBinOpCall"); fd == nil || fd.Type.Params.NumFields() != 4 {
		r.Undecided("C17.f", "NewBinOpCall", "definition", "tinyfo", "anchor function not found (or its parameters changed)")
	} else {
		pos := c.Pos(t.M.Fset, fd.Pos())
		var params []types.Object
		for _, f := range fd.Type.Params.List {
			for _, n := range f.Names {
				params = append(params, info.Defs[n])
			}
		}
		isConstCmp := func(e ast.Expr, name string) bool {
			b, ok := e.(*ast.BinaryExpr)
			if !ok || b.Op != token.EQL {
				return false
			}
			l, rr := objOf(b.X), objOf(b.Y)
			return l == params[0] && rr != nil && rr.Name() == name && rr.Parent() == pkg.Types.Scope()
		}
		var eqIf *ast.IfStmt
		ast.Inspect(fd.Body, func(n ast.Node) bool {
			if is, ok := n.(*ast.IfStmt); ok && eqIf == nil {
				if b, ok := is.Cond.(*ast.BinaryExpr); ok && b.Op == token.LOR {
					if (isConstCmp(b.X, "EQ") && isConstCmp(b.Y, "BRACKET")) || (isConstCmp(b.X, "BRACKET") && isConstCmp(b.Y, "EQ")) {
						eqIf = is
					}
				}
			}
			return true
		})
		if eqIf == nil {
			r.Undecided("C17.f", "NewBinOpCall", "equality-branch", pos, "no `if btype == EQ || btype == BRACKET` branch found")
		} else {
			// definition of each local in the branch
			defs := map[types.Object]ast.Expr{}
			ast.Inspect(eqIf.Body, func(n ast.Node) bool {
				if as, ok := n.(*ast.AssignStmt); ok && as.Tok == token.DEFINE && len(as.Lhs) == len(as.Rhs) {
					for i, l := range as.Lhs {
						if o := objOf(l); o != nil {
							defs[o] = as.Rhs[i]
						}
					}
				}
				return true
			})
			nret, bad := 0, ""
			ast.Inspect(eqIf.Body, func(n ast.Node) bool {
				if _, ok := n.(*ast.FuncLit); ok {
					return false
				}
				ret, ok := n.(*ast.ReturnStmt)
				if !ok {
					return true
				}
				nret++
				good := false
				if len(ret.Results) == 1 {
					if u, ok := ret.Results[0].(*ast.UnaryExpr); ok && u.Op == token.AND {
						if cl, ok := u.X.(*ast.CompositeLit); ok && types.ExprString(cl.Type) == "FunCall" && len(cl.Elts) == 3 {
							// callee variable built from binfo.goFuncName
							calleeOK := false
							if d, ok := defs[objOf(cl.Elts[0])]; ok {
								if u2, ok := d.(*ast.UnaryExpr); ok && u2.Op == token.AND {
									if vl, ok := u2.X.(*ast.CompositeLit); ok && types.ExprString(vl.Type) == "Var" && len(vl.Elts) >= 1 {
										if sel, ok := vl.Elts[0].(*ast.SelectorExpr); ok && objOf(sel.X) == params[1] && sel.Sel.Name == "goFuncName" {
											calleeOK = true
										}
									}
								}
							}
							argsOK := false
							if al, ok := cl.Elts[1].(*ast.CompositeLit); ok && len(al.Elts) == 2 && objOf(al.Elts[0]) == params[2] && objOf(al.Elts[1]) == params[3] {
								argsOK = true
							}
							good = calleeOK && argsOK
						}
					}
				}
				if !good {
					bad = c.Pos(t.M.Fset, ret.Pos())
				}
				return true
			})
			r.Check(nret > 0 && bad == "", "C17.f", "NewBinOpCall", "equality-branch", pos,
				"`=`/`<>` are lowered, on every path, to the call of the table's function on (lhs, rhs), as in fc (newEqNeq)",
				"a return in the `=`/`<>` branch ("+bad+") is not the call of binfo.goFuncName on (lhs, rhs): for some operand form `<>` is no longer the negation of `=` (both operators share this branch), unlike fc")
		}
	}
	// ---- f2
	if fd := find("Parser.parseDestLetDefVar"); fd == nil {
		r.Undecided("C17.f", "Parser.parseDestLetDefVar", "definition", "tinyfo", "anchor function not found")
	} else {
		pos := c.Pos(t.M.Fset, fd.Pos())
		var names []types.Object
		ast.Inspect(fd.Body, func(n ast.Node) bool {
			if cl, ok := n.(*ast.CompositeLit); ok && types.ExprString(cl.Type) == "LetDestVarDef" && len(cl.Elts) == 2 && names == nil {
				if nl, ok := cl.Elts[0].(*ast.CompositeLit); ok {
					for _, e := range nl.Elts {
						names = append(names, objOf(e))
					}
				}
			}
			return true
		})
		nDef, problems := 0, []string{}
		inLoop := 0
		localDefs := map[types.Object]ast.Expr{}
		ast.Inspect(fd.Body, func(n ast.Node) bool {
			if as, ok := n.(*ast.AssignStmt); ok && as.Tok == token.DEFINE && len(as.Lhs) == len(as.Rhs) {
				for i, l := range as.Lhs {
					if o := objOf(l); o != nil {
						localDefs[o] = as.Rhs[i]
					}
				}
			}
			return true
		})
		var visit func(n ast.Node) bool
		visit = func(n ast.Node) bool {
			switch x := n.(type) {
			case *ast.ForStmt, *ast.RangeStmt:
				inLoop++
				ast.Inspect(x.(interface{ Pos() token.Pos }).(ast.Node), func(m ast.Node) bool {
					if m == n {
						return true
					}
					return visit(m)
				})
				inLoop--
				return false
			case *ast.CallExpr:
				sel, ok := x.Fun.(*ast.SelectorExpr)
				if !ok || sel.Sel.Name != "DefineVar" || len(x.Args) != 2 {
					return true
				}
				nDef++
				if inLoop > 0 {
					problems = append(problems, "a variable is defined inside a loop: the position of its type is not a constant")
					return true
				}
				nameObj := objOf(x.Args[0])
				k := -1
				for i, o := range names {
					if o != nil && o == nameObj {
						k = i
					}
				}
				idx := -2
				valExpr := x.Args[1]
				if o := objOf(valExpr); o != nil {
					if d, ok := localDefs[o]; ok {
						valExpr = d
					}
				}
				if u, ok := valExpr.(*ast.UnaryExpr); ok {
					if vl, ok := u.X.(*ast.CompositeLit); ok && len(vl.Elts) == 2 {
						if ix, ok := vl.Elts[1].(*ast.IndexExpr); ok {
							if tv, ok := info.Types[ix.Index]; ok && tv.Value != nil {
								fmt.Sscan(tv.Value.ExactString(), &idx)
							}
						}
					}
				}
				if k < 0 || idx != k {
					problems = append(problems, sprintf("name #%d of the pattern is bound to component %d of the tuple type", k, idx))
				}
			}
			return true
		}
		ast.Inspect(fd.Body, visit)
		r.Check(len(names) == 2 && nDef == 2 && len(problems) == 0, "C17.f", "Parser.parseDestLetDefVar", "component-types", pos,
			"the k-th name of a destructuring let gets the k-th component type (as fc's parseLetDestVarDef: slice.Zip of names and element types)",
			"destructuring no longer binds the k-th name to the k-th component type ("+strings.Join(problems, "; ")+sprintf("; %d names, %d definitions found)", len(names), nDef)+": `let (_, b) = pair` can give b the type of the first component")
	}
}
