package rules

import (
	"go/ast"
	"go/constant"
	"go/types"
	"strings"

	"verif/tools/internal/ir"
)

// External names are package-qualified where they enter the enclosing scope (shared by C03 and C15).
//
// Inside a package_info block the declared names are visible bare, in the block's own scope.
// When the block ends piRegAll copies every function and type into the enclosing (root) scope.
// A name registered there *bare* competes with the user's own definitions: a user record Time
// written before `package_info time = type Time` would from then on resolve to time.Time.
// Rule: every scope registration performed by the functions piRegAll applies uses, as the
// registered name, piFullName(pi, ·) or the Name field of a TypeFactoryData (set only by
// piRegEType to piFullName(pi, ·), pinned).

var scopeRegistrars = map[string]int{ // function -> index of the name argument
	"scRegisterTypeFac": 1, "scRegisterType": 1, "scRegTFData": 1, "scRegisterRecFac": 1,
	"scRegisterVarFac": 1, "scRegFunFac": 1, "scDefVar": 1,
}

var extNamePins = []pin{
	{"piFullName", "nf", `if((p0.Name eq "_"), p1, ((p0.Name + ".") + p1))`, "package-qualified name unless the package is _"},
	{"piRegEType", "nf", "seq[dict.Add(p0.TypeInfo, p1, TypeFactoryData{Name: piFullName(p0, p1), Tparams: p2})] TypeFactoryData{Name: piFullName(p0, p1), Tparams: p2}", "the Name of an external type's factory data is its package-qualified name"},
}

func checkExternalNamesQualified(c *Ctx, rule string, f *FC) {
	r := c.R
	c.checkPins(f, rule, extNamePins)
	t, fn := f.Term("piRegAll")
	if fn == nil {
		r.Undecided(rule, "piRegAll", "definition", "fc", "anchor function not found")
		return
	}
	// who adds to PackageInfo.TypeInfo: only piRegEType
	var adders []string
	for _, g := range f.Prog.Funcs {
		ir.Walk(f.N.Func(g), func(t ir.Term) bool {
			if app, ok := isCallTo(t, dictPath+".Add"); ok && len(app.Args) == 3 {
				if fl, ok := app.Args[0].(*ir.Field); ok && fl.Name == "TypeInfo" {
					adders = append(adders, g.Name)
				}
			}
			return true
		})
	}
	r.Check(len(adders) == 1 && adders[0] == "piRegEType", rule, "PackageInfo.TypeInfo", "who-may-add", "fc", "only piRegEType adds to TypeInfo, so every entry's Name is the qualified name of its key", "TypeInfo is written in "+strings.Join(adders, ","))
	applied := map[string]*ir.Func{}
	ir.Walk(t, func(x ir.Term) bool {
		if fr, ok := x.(*ir.FuncRef); ok {
			if g, ok := f.Prog.ByKey[fr.Key]; ok && g.Key != fn.Key {
				applied[g.Name] = g
			}
		}
		return true
	})
	sites := 0
	for _, name := range sortedKeysF(applied) {
		g := applied[name]
		pos := c.Pos(f.M.Fset, g.Decl.Pos())
		n := 0
		ir.Walk(f.N.Func(g), func(x ir.Term) bool {
			app, ok := x.(*ir.App)
			if !ok {
				return true
			}
			fr, ok := app.Fun.(*ir.FuncRef)
			if !ok {
				return true
			}
			idx, isReg := scopeRegistrars[strings.TrimPrefix(fr.Key, f.Path+".")]
			if !isReg || idx >= len(app.Args) {
				return true
			}
			n++
			sites++
			nameArg := app.Args[idx]
			ns := ir.String(f.Path, nameArg)
			good := false
			if a2, ok := isCallTo(nameArg, f.Path+".piFullName"); ok && len(a2.Args) == 2 {
				good = true
			}
			if fl, ok := nameArg.(*ir.Field); ok && fl.Name == "Name" && fl.Obj != nil {
				if st := structDeclaringField(f, fl.Obj); st == "TypeFactoryData" {
					good = true
				}
			}
			r.Check(good, rule, g.Name, sprintf("%s#%d", strings.TrimPrefix(fr.Key, f.Path+"."), n), pos,
				"registers under the package-qualified name "+ns,
				"registers an external entity in the enclosing scope under "+ns+", which is not its package-qualified name: a user type or function of the same short name is replaced from there on (type Time … package_info time = type Time ⇒ every later Time is emitted as time.Time)")
			return true
		})
	}
	if sites < 2 {
		r.Undecided(rule, "piRegAll", "sites", "fc", sprintf("%d scope registrations found in the functions piRegAll applies; regFF and regTF (2) were confirmed by hand", sites))
	}
}

// structDeclaringField: name of the struct type (in fc) that declares the field object.
func structDeclaringField(f *FC, fld *types.Var) string {
	sc := f.M.Main().Types.Scope()
	for _, n := range sc.Names() {
		tn, ok := sc.Lookup(n).(*types.TypeName)
		if !ok {
			continue
		}
		st, ok := tn.Type().Underlying().(*types.Struct)
		if !ok {
			continue
		}
		for i := 0; i < st.NumFields(); i++ {
			if st.Field(i) == fld {
				return tn.Name()
			}
		}
	}
	return ""
}

func sortedKeysF(m map[string]*ir.Func) []string {
	var ks []string
	for k := range m {
		ks = append(ks, k)
	}
	sortStrings(ks)
	return ks
}

func sortStrings(a []string) {
	for i := 1; i < len(a); i++ {
		for j := i; j > 0 && a[j] < a[j-1]; j-- {
			a[j], a[j-1] = a[j-1], a[j]
		}
	}
}

// checkLexerVsTypeSyntax (C15.g): maximal munch must not fuse characters that are separate tokens of a type expression.
// A nested type-argument list ends in ">>" (Dict<string, Dict<string,int>>), and a closing '>' can be directly
// followed by ')' ',' '*' '-' (of "->") ']'.  Every operator token the lexer builds from a literal text
// (newStLikeToken) is enumerated from scanTokenAt; none may start with '>' followed by one of those characters.
func checkLexerVsTypeSyntax(c *Ctx, rule string, f *FC) {
	r := c.R
	fn, ok := f.Prog.ByName["scanTokenAt"]
	if !ok {
		r.Undecided(rule, "scanTokenAt", "definition", "fc", "anchor function not found")
		return
	}
	pos := c.Pos(f.M.Fset, fn.Decl.Pos())
	texts := map[string]bool{}
	info := f.M.Main().TypesInfo
	ast.Inspect(fn.Decl, func(n ast.Node) bool {
		call, ok := n.(*ast.CallExpr)
		if !ok {
			return true
		}
		id, ok := call.Fun.(*ast.Ident)
		if !ok {
			return true
		}
		obj, ok := info.Uses[id].(*types.Func)
		if !ok || obj.Name() != "newStLikeToken" || obj.Pkg() != f.M.Main().Types || len(call.Args) != 3 {
			return true
		}
		if tv, ok := info.Types[call.Args[2]]; ok && tv.Value != nil && tv.Value.Kind() == constant.String {
			texts[constant.StringVal(tv.Value)] = true
		} else {
			r.Undecided(rule, "scanTokenAt", "token-text "+types.ExprString(call.Args[2]), pos, "the text of an operator token is not a constant")
		}
		return true
	})
	const after = ">),*-]"
	for _, t := range sortedKeysB(texts) {
		bad := len(t) >= 2 && t[0] == '>' && strings.IndexByte(after, t[1]) >= 0
		r.Check(!bad, rule, "scanTokenAt", "token "+t, pos, "does not fuse a closing '>' with the token that may follow it in a type",
			"the lexer reads "+t+" as one token: the '>' that closes a type-argument list is swallowed whenever it is directly followed by '"+t[1:]+"' (Dict<string, Dict<string,int>> no longer parses)")
	}
	r.Unit("operator_token_texts", len(texts))
	if len(texts) < 7 {
		r.Undecided(rule, "scanTokenAt", "inventory", pos, sprintf("%d literal operator tokens found in scanTokenAt; 7 were confirmed by hand (|> || <> <= >= && ->)", len(texts)))
	}
}

// checkBaseNameTables (C15.h): sibling tables of base type names agree.  The documented base types are recognised by
// name tests in parseAtomType; any other function that compares a string with two or more of those names keeps a
// second copy of the table (a look-ahead, a fast path) and must know all of them — a copy that forgets `float`
// sends `slice.New<float> ()` down a different path than `slice.New<int> ()`.
func checkBaseNameTables(c *Ctx, rule string, f *FC) {
	r := c.R
	base := []string{"any", "bool", "float", "int", "string"}
	isBase := map[string]bool{}
	for _, b := range base {
		isBase[b] = true
	}
	n := 0
	for _, fn := range f.Prog.Funcs {
		set := map[string]bool{}
		ir.Walk(f.N.Func(fn), func(t ir.Term) bool {
			if b, ok := t.(*ir.BinOp); ok && (b.Op == "eq" || b.Op == "==" || b.Op == "ne" || b.Op == "!=") {
				for _, side := range []ir.Term{b.L, b.R} {
					if lit, ok := side.(*ir.Lit); ok && isBase[lit.Val] {
						set[lit.Val] = true
					}
				}
			}
			if sm, ok := t.(*ir.StrMatch); ok {
				for _, a := range sm.Arms {
					for _, v := range a.Vals {
						if lit, ok := v.(*ir.Lit); ok && isBase[lit.Val] {
							set[lit.Val] = true
						}
					}
				}
			}
			return true
		})
		if len(set) < 2 {
			continue
		}
		n++
		var missing []string
		for _, b := range base {
			if !set[b] {
				missing = append(missing, b)
			}
		}
		r.Check(len(missing) == 0, rule, fn.Name, "base-type-names", c.Pos(f.M.Fset, fn.Decl.Pos()),
			"tests a name against all five documented base types",
			"tests a name against "+strings.Join(sortedKeysB(set), ", ")+" but not "+strings.Join(missing, ", ")+": this copy of the base-type table disagrees with parseAtomType's, so a type expression starting with "+strings.Join(missing, "/")+" is treated differently from the other base types here")
	}
	if n < 1 {
		r.Undecided(rule, "-", "tables", "fc", "no function tests names against the base types (anchor parseAtomType moved?)")
	}
}
