package rules

import (
	"go/ast"
	"go/types"
	"strings"

	"verif/tools/internal/core"
	"verif/tools/internal/ir"
)

// C10 — `=` and `<>` are total structural equality on first-order values.
// frt.OpEqual delegates to go-cmp; totality is a matter of configuration,
// which is visible in the code (DESIGN.md §C10).

func init() { Register("C10", checkC10) }

const cmpPath = "github.com/google/go-cmp/cmp"

func checkC10(c *Ctx) {
	r := c.R
	r.Explanation = "frt.OpEqual delegates to go-cmp's cmp.Equal, whose totality on Folang values depends only on its configuration: " +
		"(a) the closed form of OpEqual is cmp.Equal(p0, p1, opts...) with the operands in order; the option set, followed through a package-level variable that is never reassigned, " +
		"contains an Exporter accepting every type (records are emitted with their field names verbatim, so unexported fields are common; without it cmp.Equal panics) " +
		"and cmpopts.EquateEmpty (slice.New returns an empty non-nil slice, accumulating functions return nil), and no option that could break structural equality (Comparer, Transformer, Ignore*, Approx, Sort*); " +
		"(b) OpNotEqual is the negation of OpEqual on the same operands; (c) the compiler routes `=`/`<>` to these two functions and types both operands alike. " +
		"Decided for all values at once; go-cmp's own correctness is trusted."
	r.NotDecided = []string{"go-cmp's implementation of structural equality (trusted)", "values containing functions (excluded by the statement)"}
	r.Assumptions = []string{"github.com/google/go-cmp v0.6.0: cmp.Equal with Exporter(all) never panics on unexported fields; EquateEmpty equates nil and empty slices/maps; Equal is reflexive, symmetric and transitive on values without NaN/functions"}
	r.Rule("C10.a", "OpEqual = cmp.Equal(p0, p1, opts…) with an accept-all Exporter and EquateEmpty, no other option kind", 2)
	r.Rule("C10.b", "OpNotEqual = not(OpEqual(p0, p1))", 1)
	r.Rule("C10.c", "`=` and `<>` are routed to frt.OpEqual / frt.OpNotEqual and both operands get the same type", 3)

	// (e) the module graph
	r.Rule("C10.e", "go-cmp is the module and version the assumption names: required at v0.6.0, and no go.mod replaces an external module", 12)
	checkModuleGraph(c, "C10.e")
	// (d) go-cmp calls a type's own Equal method instead of comparing structurally: no type a Folang value can have defines one
	r.Rule("C10.d", "no Equal method exists on any type of the run-time libraries, and the compiler emits only the marker and String methods on generated types (go-cmp would use an Equal method in place of structural comparison)", 8)
	for _, dir := range []string{"pkg/frt", "pkg/slice", "pkg/dict", "pkg/strings", "pkg/buf", "pkg/sys"} {
		lm, lp, _ := libProg(c, dir)
		if lm == nil {
			continue
		}
		var eq []string
		for _, fn := range lp.Funcs {
			if fn.Decl != nil && fn.Decl.Recv != nil && fn.Decl.Name.Name == "Equal" {
				eq = append(eq, funcLabel(fn.Decl))
			}
		}
		r.Check(len(eq) == 0, "C10.d", dir, "no-Equal-method", dir, "no type of "+dir+" has an Equal method",
			"method(s) "+strings.Join(eq, ", ")+": cmp.Equal calls a type's Equal method instead of comparing its contents, so `=` on values of this type (and on anything containing them) is whatever that method says")
	}
	if f := c.LoadFC("fc"); f != nil {
		var methodPins []pin
		for _, p := range c03Pins {
			switch p.fn {
			case "csToConformMethod", "udCSConformMethods", "csToStringerMethod", "udCSStringerMethods":
				methodPins = append(methodPins, p)
			}
		}
		c.checkPins(f, "C10.d", methodPins)
		// (f) `a = b` is an application of frt.OpEqual; it stays one in the Go text: the emitter of applications has
		// no case for particular callees (a "fast path" that prints Go's == for some operand types makes = panic on
		// uncomparable dynamic values and compare interfaces by identity-like rules)
		r.Rule("C10.f", "an application of frt.OpEqual / frt.OpNotEqual is emitted as that call: the application emitters (fcToGo, fcFullApplyGo, fcPartialApplyGo) have their documented templates, with no case for particular callees", 3)
		var appPins []pin
		for _, p := range c03Pins {
			switch p.fn {
			case "fcToGo", "fcFullApplyGo", "fcPartialApplyGo":
				appPins = append(appPins, p)
			}
		}
		c.checkPins(f, "C10.f", appPins)
		// the emitter writes the text "func (" only in those two method emitters
		var others []string
		for _, fn := range f.Prog.Funcs {
			if !fn.Generated || fn.Name == "csToConformMethod" || fn.Name == "csToStringerMethod" {
				continue
			}
			has := false
			ir.WalkFunc(fn, func(t ir.Term) bool {
				if lit, ok := t.(*ir.Lit); ok && strings.Contains(lit.Val, "func (") && strings.Contains(lit.Val, ") ") && !strings.HasPrefix(strings.TrimSpace(lit.Val), "(func") {
					// a method header has a receiver list directly after func; function literals are "(func (" / "func ("+params
					if strings.HasPrefix(strings.TrimSpace(lit.Val), "func (v ") || strings.HasPrefix(strings.TrimSpace(lit.Val), "func (") && strings.Contains(lit.Val, ") Equal") {
						has = true
					}
				}
				return true
			})
			if has {
				others = append(others, fn.Name)
			}
		}
		r.Check(len(others) == 0, "C10.d", "fc", "method-emitters", "fc", "only csToConformMethod and csToStringerMethod emit method declarations", "method declarations are also emitted by "+strings.Join(others, ", "))
	}

	m, prog, n := libProg(c, "pkg/frt")
	if m == nil {
		return
	}
	pkg := m.Main()
	pp := pkg.PkgPath
	eq, ok := prog.ByName["OpEqual"]
	if !ok {
		r.Undecided("C10.a", "frt.OpEqual", "definition", "pkg/frt", "anchor function OpEqual not found")
		return
	}
	pos := c.Pos(m.Fset, eq.Decl.Pos())
	nf := n.Func(eq)
	nfs := ir.String(pp, nf)
	app, ok := nf.(*ir.App)
	var callee *ir.FuncRef
	if ok {
		callee, _ = app.Fun.(*ir.FuncRef)
	}
	if callee == nil || callee.Key != cmpPath+".Equal" || len(app.Args) < 2 {
		r.Undecided("C10.a", "frt.OpEqual", "closed-form", pos, "OpEqual is not a direct call of cmp.Equal: "+nfs+" (any other implementation — fast paths, extra branches — is undecided: totality then depends on run-time shapes)")
		checkC10Rest(c, m, prog, n, pp)
		return
	}
	defer checkC10Rest(c, m, prog, n, pp)
	a0, a1 := ir.String(pp, app.Args[0]), ir.String(pp, app.Args[1])
	r.Check(a0 == "p0" && a1 == "p1", "C10.a", "frt.OpEqual", "operands", pos, "cmp.Equal(p0, p1, …): operands in order", "operands of cmp.Equal are ("+a0+", "+a1+"), expected (p0, p1)")

	// collect option expressions
	var opts []ir.Term
	optsKnown := true
	rest := app.Args[2:]
	if app.Spread && len(rest) == 1 {
		g, ok := rest[0].(*ir.Global)
		if !ok {
			optsKnown = false
			r.Undecided("C10.a", "frt.OpEqual", "options", pos, "options are spread from "+ir.String(pp, rest[0])+", which is not a package-level variable")
		} else {
			init := globalInit(prog, g.Obj)
			if init == nil {
				optsKnown = false
				r.Undecided("C10.a", "frt.OpEqual", "options", pos, "no initialiser found for "+g.Obj.Name())
			} else if sl, ok := init.(*ir.SliceLit); ok {
				opts = sl.Elems
			} else {
				optsKnown = false
				r.Undecided("C10.a", "frt.OpEqual", "options", pos, "initialiser of "+g.Obj.Name()+" is not a slice literal: "+ir.String(pp, init))
			}
			// the variable must never be written after initialisation
			if w := globalWrites(prog, g.Obj); len(w) > 0 {
				optsKnown = false
				r.Bad("C10.a", "frt.OpEqual", "options-variable-written", pos, g.Obj.Name()+" is assigned or has its address taken in "+strings.Join(w, ", ")+": the option set is not a constant")
			} else {
				r.OK("C10.a", "frt.OpEqual", "options-variable-constant", pos, g.Obj.Name()+" is initialised once and never written")
			}
		}
	} else if !app.Spread {
		opts = rest
	} else {
		optsKnown = false
		r.Undecided("C10.a", "frt.OpEqual", "options", pos, "unsupported option passing: "+nfs)
	}
	if !optsKnown {
		return
	}
	hasExporter, hasEquateEmpty := false, false
	for i, o := range opts {
		os := ir.String(pp, o)
		oa, ok := o.(*ir.App)
		var fr *ir.FuncRef
		if ok {
			fr, _ = oa.Fun.(*ir.FuncRef)
		}
		if fr == nil {
			r.Undecided("C10.a", "frt.OpEqual", sprintf("option#%d", i), pos, "option is not a direct constructor call: "+os)
			continue
		}
		switch fr.Key {
		case cmpPath + ".Exporter":
			good := false
			if len(oa.Args) == 1 {
				if lam, ok := oa.Args[0].(*ir.Lam); ok {
					body := ir.NewNormalizer().Func(&ir.Func{Body: lam.Body})
					good = ir.String(pp, body) == "true"
				}
			}
			if good {
				hasExporter = true
				r.OK("C10.a", "frt.OpEqual", "option Exporter", pos, "cmp.Exporter(func(reflect.Type) bool { return true }): unexported (lower-case) record fields are compared instead of panicking")
			} else {
				r.Bad("C10.a", "frt.OpEqual", "option Exporter", pos, "the Exporter does not accept every type: "+os+" (a record with a lower-case field of another type still panics)")
			}
		case cmpPath + "/cmpopts.EquateEmpty":
			hasEquateEmpty = true
			r.OK("C10.a", "frt.OpEqual", "option EquateEmpty", pos, "cmpopts.EquateEmpty(): nil and empty slices are equal")
		default:
			r.Bad("C10.a", "frt.OpEqual", "option "+ir.ShortKey(fr.Key), pos, "option "+os+" is outside {Exporter(all), EquateEmpty}: it may break totality, reflexivity or transitivity of structural equality")
		}
	}
	if !hasExporter {
		r.Bad("C10.a", "frt.OpEqual", "missing Exporter", pos, "cmp.Equal is called without an Exporter accepting every type: comparing records with lower-case (unexported) fields panics")
	}
	if !hasEquateEmpty {
		r.Bad("C10.a", "frt.OpEqual", "missing EquateEmpty", pos, "cmp.Equal is called without cmpopts.EquateEmpty: []T(nil) = []T{} is false although both are the empty slice")
	}

}

func checkC10Rest(c *Ctx, m *core.Module, prog *ir.Program, n *ir.Normalizer, pp string) {
	r := c.R
	// C10.b
	if ne, ok := prog.ByName["OpNotEqual"]; ok {
		s := ir.String(pp, n.Func(ne))
		r.Check(s == "not((p0 eq p1))" || s == "not((p1 eq p0))", "C10.b", "frt.OpNotEqual", "closed-form", c.Pos(m.Fset, ne.Decl.Pos()),
			"OpNotEqual = not(OpEqual(p0, p1))", "closed form "+s+" is not not(OpEqual(p0, p1))")
	} else {
		r.Undecided("C10.b", "frt.OpNotEqual", "definition", "pkg/frt", "anchor function OpNotEqual not found")
	}
	checkC10Routing(c)
}

// globalInit lowers the initialiser of a package-level variable.
func globalInit(prog *ir.Program, v *types.Var) ir.Term {
	for _, f := range prog.Pkg.Syntax {
		for _, d := range f.Decls {
			gd, ok := d.(*ast.GenDecl)
			if !ok {
				continue
			}
			for _, sp := range gd.Specs {
				vs, ok := sp.(*ast.ValueSpec)
				if !ok {
					continue
				}
				for i, name := range vs.Names {
					if prog.Pkg.TypesInfo.Defs[name] == v && i < len(vs.Values) {
						return prog.L.Func(&ast.FuncDecl{Name: ast.NewIdent("_init"), Type: &ast.FuncType{Params: &ast.FieldList{}},
							Body: &ast.BlockStmt{List: []ast.Stmt{&ast.ReturnStmt{Results: []ast.Expr{vs.Values[i]}}}}}, false).Body.Ret
					}
				}
			}
		}
	}
	return nil
}

// globalWrites lists functions that assign to v (or an element/field of it) or take its address.
func globalWrites(prog *ir.Program, v *types.Var) []string {
	var res []string
	rootIs := func(t ir.Term) bool {
		for {
			switch x := t.(type) {
			case *ir.Global:
				return x.Obj == v
			case *ir.Index:
				t = x.X
			case *ir.Field:
				t = x.X
			case *ir.SliceOf:
				t = x.X
			default:
				return false
			}
		}
	}
	for _, fn := range prog.Funcs {
		hit := false
		var ws func(b *ir.Block)
		ws = func(b *ir.Block) {
			if b == nil {
				return
			}
			for _, s := range b.Stmts {
				switch x := s.(type) {
				case *ir.Assign:
					if rootIs(x.LHS) {
						hit = true
					}
				case *ir.IfStmt:
					ws(x.Then)
					ws(x.Else)
				case *ir.Loop:
					ws(x.Body)
				}
			}
		}
		ws(fn.Body)
		ir.WalkFunc(fn, func(t ir.Term) bool {
			switch x := t.(type) {
			case *ir.AddrOf:
				if rootIs(x.X) {
					hit = true
				}
			case *ir.Lam:
				ws(x.Body)
			case *ir.If:
				ws(x.Then)
				ws(x.Else)
			case *ir.Match:
				for _, a := range x.Arms {
					ws(a.Body)
				}
				ws(x.Default)
			}
			return true
		})
		if hit {
			res = append(res, fn.Name)
		}
	}
	return res
}
