package rules

import (
	"go/types"
	"strings"

	"verif/tools/internal/ir"
)

// ORDER — list-valued components keep their order through every AST/type transformer (shared by C03 and C01).
//
// The emitters print fields, cases, parameters, arguments, elements and statements "in the order of the list"
// (templates, C03.ab / C01.cde); that is the documented order only if every pass between the parser and the
// emitter hands the lists on in order.  Rule: wherever a record value of type T is built with a list field F
// whose new value is computed from the field F of an existing T (a transformer), the new list is an
// order-preserving image of the old one:
//     OP ::= x.F | slice.Map(g, OP) | slice.Mapi(g, OP) | slice.Zip(OP, OP)
// Filter, Append, Concat, Sort, Distinct, PushHead/PushLast, Take/Skip … are not.  Exceptions are a frozen table.

var orderExceptions = map[string]string{
	"fcToType|FuncType.Targets":                 "the type of a partial application is the function type without the parameters already supplied: a suffix of the target list, in order",
	"parseFieldInitializers|fiListInfo.NePairs": "parser: the list is built in source order by consing the current initialiser onto the result of the recursive call",
	"newRecTypeWith|RecordTypeInfo.Fields":      "the field names of the old record zipped with the already translated field types handed in by the caller; every call site must pass an element-wise image of the same Fields (checked below)",
}

// functions whose list parameter stands for an element-wise image of a field computed by the caller: param index, field
var orderImageParams = map[string]struct {
	idx   int
	field string
}{
	"newRecTypeWith": {0, "Fields"},
}

// asFieldAccess: t as a field selection — directly, or through a package-local accessor whose whole normal form
// is a field selection (utCases(u) = lookupUniInfo(u).Cases).
func asFieldAccess(f *FC, t ir.Term) *ir.Field {
	switch x := t.(type) {
	case *ir.Field:
		return x
	case *ir.App:
		if fr, ok := x.Fun.(*ir.FuncRef); ok {
			if g, ok := f.Prog.ByKey[fr.Key]; ok && g.Generated {
				if fl, ok := f.N.Func(g).(*ir.Field); ok {
					return fl
				}
			}
		}
	}
	return nil
}

func isOrderPreservingImage(f *FC, e ir.Term, typ types.Type, field string) bool {
	if fl := asFieldAccess(f, e); fl != nil && fl.Name == field {
		return true
	}
	switch x := e.(type) {
	case *ir.Field:
		if x.Name == field {
			return true
		}
	case *ir.Proj:
		// #0(compositeTpList(g, E1, E2)): the pairwise composite of two lists of equal length (closed form pinned)
		if app, ok := isCallTo(x.X, f.Path+".compositeTpList"); ok && x.I == 0 && len(app.Args) == 3 {
			return isOrderPreservingImage(f, app.Args[1], typ, field) && isOrderPreservingImage(f, app.Args[2], typ, field)
		}
	case *ir.App:
		fr, ok := x.Fun.(*ir.FuncRef)
		if !ok {
			return false
		}
		switch fr.Key {
		case slicePath + ".Map", slicePath + ".Mapi":
			return len(x.Args) == 2 && isOrderPreservingImage(f, x.Args[1], typ, field)
		case slicePath + ".Zip":
			return len(x.Args) == 2 && isOrderPreservingImage(f, x.Args[0], typ, field) && isOrderPreservingImage(f, x.Args[1], typ, field)
		}
		// a package-local helper whose own normal form is an element-wise image of one of its parameters
		if g, ok := f.Prog.ByKey[fr.Key]; ok {
			if i := imageOfParam(f, f.N.Func(g)); i >= 0 && i < len(x.Args) {
				return isOrderPreservingImage(f, x.Args[i], typ, field)
			}
		}
	}
	return false
}

func checkListOrder(c *Ctx, rule string, f *FC) { checkListOrderOf(c, rule, f, nil, 8) }

// checkListOrderOf: ORDER restricted to the list fields keep accepts (nil: all).
func checkListOrderOf(c *Ctx, rule string, f *FC, keep func(key string) bool, minSites int) {
	r := c.R
	sites := 0
	for _, fn := range f.Prog.Funcs {
		if !fn.Generated {
			continue
		}
		fn := fn
		pos := c.Pos(f.M.Fset, fn.Decl.Pos())
		n := map[string]int{}
		ir.Walk(f.N.Func(fn), func(t ir.Term) bool {
			rec, ok := t.(*ir.Record)
			if !ok || rec.Type == nil {
				return true
			}
			named, ok := rec.Type.(*types.Named)
			if !ok {
				return true
			}
			st, ok := named.Underlying().(*types.Struct)
			if !ok {
				return true
			}
			for _, fv := range rec.Fields {
				// a list field …
				var ft types.Type
				for i := 0; i < st.NumFields(); i++ {
					if st.Field(i).Name() == fv.Name {
						ft = st.Field(i).Type()
					}
				}
				if _, isSlice := ft.(*types.Slice); !isSlice {
					continue
				}
				// … computed from the same field of an existing value of the same type
				derives := false
				ir.Walk(fv.Val, func(x ir.Term) bool {
					if fl := asFieldAccess(f, x); fl != nil && fl.Name == fv.Name && fl.Obj != nil {
						if structDeclaringField(f, fl.Obj) == named.Obj().Name() {
							derives = true
						}
					}
					return true
				})
				if !derives {
					continue
				}
				key := named.Obj().Name() + "." + fv.Name
				if keep != nil && !keep(key) {
					continue
				}
				sites++
				n[key]++
				cons := sprintf("%s#%d", key, n[key])
				if why, ok := orderExceptions[fn.Name+"|"+key]; ok {
					r.OK(rule, fn.Name, cons, pos, "frozen exception: "+why)
					continue
				}
				good := isOrderPreservingImage(f, fv.Val, named, fv.Name)
				r.Check(good, rule, fn.Name, cons, pos, "the new "+key+" is an element-wise image of the old list (order and length kept)",
					"the new "+key+" is computed from the old list by "+short(ir.String(f.Path, fv.Val), 160)+", which is not an element-wise image (Map/Mapi/Zip): elements can be dropped, duplicated or moved, and the emitters print the list in its stored order")
			}
			return true
		})
	}
	if keep != nil {
		r.Unit("list_transformer_sites_"+rule, sites)
		if sites < minSites {
			r.Undecided(rule, "-", "sites", "fc", sprintf("%d list-rebuilding sites found; at least %d were confirmed by hand", sites, minSites))
		}
		return
	}
	// pins the rule relies on
	c.expectNF(f, rule, "compositeTpList", []string{`seq[if((slice.Len(p1) ne slice.Len(p2)), seq[PanicNow(<msg>)])] (slice.Map(frt.Fst, slice.Map(tupApply(p0, _), slice.Zip(p1, p2))), slice.Concat(slice.Map(frt.Snd, slice.Map(tupApply(p0, _), slice.Zip(p1, p2)))))`}, "pairwise composite of two lists of equal length, in order")
	for _, name := range sortedKeysAny(orderImageParams) {
		ip := orderImageParams[name]
		g, ok := f.Prog.ByName[name]
		if !ok {
			continue
		}
		nCalls := 0
		for _, fn := range f.Prog.Funcs {
			fn := fn
			ir.Walk(f.N.Func(fn), func(t ir.Term) bool {
				if app, ok := isCallTo(t, g.Key); ok && ip.idx < len(app.Args) {
					nCalls++
					good := isOrderPreservingImage(f, app.Args[ip.idx], nil, ip.field)
					r.Check(good, rule, fn.Name, sprintf("%s-argument#%d", name, nCalls), c.Pos(f.M.Fset, fn.Decl.Pos()),
						"passes an element-wise image of ."+ip.field+" to "+name, "passes "+short(ir.String(f.Path, app.Args[ip.idx]), 120)+" to "+name+", which is not an element-wise image of ."+ip.field)
				}
				return true
			})
		}
	}
	r.Unit("list_transformer_sites", sites)
	if sites < 8 {
		r.Undecided(rule, "-", "sites", "fc", sprintf("%d list-rebuilding sites found; at least 8 were confirmed by hand", sites))
	}
	_ = strings.TrimSpace
}

func sortedKeysAny[V any](m map[string]V) []string {
	var ks []string
	for k := range m {
		ks = append(ks, k)
	}
	sortStrings(ks)
	return ks
}

// imageOfParam: the index of the parameter of which t is an element-wise image (Map/Mapi/Zip), or -1.
func imageOfParam(f *FC, t ir.Term) int {
	switch x := t.(type) {
	case *ir.Param:
		if _, ok := x.Obj.Type().Underlying().(*types.Slice); ok {
			return x.Idx
		}
	case *ir.App:
		fr, ok := x.Fun.(*ir.FuncRef)
		if !ok {
			return -1
		}
		switch fr.Key {
		case slicePath + ".Map", slicePath + ".Mapi":
			if len(x.Args) == 2 {
				return imageOfParam(f, x.Args[1])
			}
		case slicePath + ".Zip":
			if len(x.Args) == 2 {
				a, b := imageOfParam(f, x.Args[0]), imageOfParam(f, x.Args[1])
				if a == b {
					return a
				}
			}
		}
	}
	return -1
}

// Tparams provenance (C03.f).  Explicit type arguments bind to type parameters BY POSITION (f<int, string> gives the
// first declared parameter int), and the emitted Go lists them in the same order; so the Tparams list of every
// declaration value must be the declared list itself: a parameter handed in, the .Tparams of an existing
// declaration, or the identifier list the parser read between `<` and `>`.  A list recomputed from the signature
// (first appearance, sorted, distinct …) has the same elements in another order.  The one frozen exception is
// inference: an un-annotated let has no declared list, its parameters are numbered by first occurrence (C02.c).
var tparamsExceptions = map[string]string{
	"InferLfd": "inferred type parameters have no declared order: they are the leftover variables numbered by first occurrence (closed form pinned under C02.c)",
}

func checkTparamsProvenance(c *Ctx, rule string, f *FC) {
	r := c.R
	n := 0
	for _, fn := range f.Prog.Funcs {
		if !fn.Generated || fn.Decl == nil {
			continue
		}
		fn := fn
		pos := c.Pos(f.M.Fset, fn.Decl.Pos())
		k := 0
		seen := map[string]bool{}
		ir.Walk(f.N.Func(fn), func(t ir.Term) bool {
			rec, ok := t.(*ir.Record)
			if !ok {
				return true
			}
			for _, fv := range rec.Fields {
				if fv.Name != "Tparams" {
					continue
				}
				text := ir.String(f.Path, fv.Val)
				tn := "?"
				if named, ok := rec.Type.(*types.Named); ok {
					tn = named.Obj().Name()
				}
				if seen[tn+"|"+text] {
					continue
				}
				seen[tn+"|"+text] = true
				n++
				k++
				cons := sprintf("%s.Tparams#%d", tn, k)
				if why, ok := tparamsExceptions[fn.Name]; ok {
					r.OK(rule, fn.Name, cons, pos, "frozen exception: "+why)
					continue
				}
				good := false
				switch x := fv.Val.(type) {
				case *ir.Param:
					good = true
				case *ir.Field:
					good = x.Name == "Tparams"
				case *ir.Proj:
					if _, ok := isCallTo(x.X, f.Path+".mightParseIdList"); ok && x.I == 1 {
						good = true
					}
					if _, ok := isCallTo(x.X, f.Path+".parseIdList"); ok && x.I == 1 {
						good = true
					}
				}
				r.Check(good, rule, fn.Name, cons, pos, "the type-parameter list is the declared one ("+short(text, 80)+")",
					"the type-parameter list of this "+tn+" is computed ("+short(text, 140)+") instead of being the declared list: explicit type arguments bind by position, so a list in another order (first appearance, sorted, distinct) silently binds them to the wrong parameters")
			}
			return true
		})
	}
	r.Unit("tparams_construction_sites", n)
}
