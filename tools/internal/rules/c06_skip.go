package rules

import (
	"sort"
	"strings"

	"verif/tools/internal/ir"
)

// C06.j — continuation points skip line ends.  After `=`, `with` and the `->` of a lambda or a match rule the
// construct may continue on the next line; the parser allows that by handing the state it gets from consuming the
// token straight to psSkipEOL.  The rule is read off the tree itself (every one of the sites does it; the one
// exception is the arrow of a TYPE, which does not span lines) and then required of every site: a site that
// parses on from the state without skipping accepts the one-line layout and rejects the same program re-laid
// with a line break there.
var skipAfter = map[string]bool{"New_TokenType_EQ": true, "New_TokenType_WITH": true, "New_TokenType_RARROW": true}

var skipAfterExceptions = map[string]string{
	"parseTypeArrows|New_TokenType_RARROW": "the arrow of a type expression: types do not continue on the next line",
}

// consumedToken: the token type a psConsume / psMulConsume call consumes last ("" if not such a call).
func consumedToken(f *FC, t ir.Term) string {
	app, ok := t.(*ir.App)
	if !ok || len(app.Args) != 2 {
		return ""
	}
	fr, ok := app.Fun.(*ir.FuncRef)
	if !ok {
		return ""
	}
	switch fr.Key {
	case f.Path + ".psConsume":
		if g, ok := app.Args[0].(*ir.Global); ok {
			return g.Obj.Name()
		}
	case f.Path + ".psMulConsume":
		if sl, ok := app.Args[0].(*ir.SliceLit); ok && len(sl.Elems) > 0 {
			if g, ok := sl.Elems[len(sl.Elems)-1].(*ir.Global); ok {
				return g.Obj.Name()
			}
		}
	}
	return ""
}

func checkSkipAfterContinuationTokens(c *Ctx, f *FC, rule string) {
	r := c.R
	total := 0
	for _, fn := range f.Prog.Funcs {
		if !fn.Generated || fn.Decl == nil {
			continue
		}
		nf := f.N.Func(fn)
		skipped := map[ir.Term]bool{}
		ir.Walk(nf, func(t ir.Term) bool {
			if app, ok := isCallTo(t, f.Path+".psSkipEOL"); ok && len(app.Args) == 1 {
				skipped[app.Args[0]] = true
			}
			return true
		})
		// distinct sites by printed form
		type site struct {
			tok  string
			ok   bool
			text string
		}
		sites := map[string]*site{}
		ir.Walk(nf, func(t ir.Term) bool {
			tok := consumedToken(f, t)
			if !skipAfter[tok] {
				return true
			}
			key := tok + "|" + ir.String(f.Path, t)
			s := sites[key]
			if s == nil {
				s = &site{tok: tok, ok: true, text: ir.String(f.Path, t)}
				sites[key] = s
			}
			if !skipped[t] {
				s.ok = false
			}
			return true
		})
		var keys []string
		for k := range sites {
			keys = append(keys, k)
		}
		sort.Strings(keys)
		ord := map[string]int{}
		pos := c.Pos(f.M.Fset, fn.Decl.Pos())
		for _, k := range keys {
			s := sites[k]
			total++
			ord[s.tok]++
			cons := sprintf("after-%s#%d", strings.TrimPrefix(s.tok, "New_TokenType_"), ord[s.tok])
			if why, ok := skipAfterExceptions[fn.Name+"|"+s.tok]; ok {
				r.OK(rule, fn.Name, cons, pos, "frozen exception: "+why)
				continue
			}
			r.Check(s.ok, rule, fn.Name, cons, pos, "the state after the token goes straight to psSkipEOL",
				"the state produced by consuming "+strings.TrimPrefix(s.tok, "New_TokenType_")+" is parsed on without psSkipEOL ("+short(s.text, 140)+"): the construct is accepted on one line and rejected when what follows the token starts on the next line — every other site of this token skips line ends")
		}
	}
	r.Unit("continuation_token_sites", total)
}
