package rules

import (
	"go/ast"
	"go/types"
	"sort"
	"strings"

	"verif/tools/internal/core"
	"verif/tools/internal/ir"
)

// C05 — transpilation is deterministic.
// Source→sink argument: output bytes and the accept/reject decision are a
// function of the input files if no nondeterministic source reaches them.
//  (a) inventory of nondeterminism sources in fc and the pkg/* modules it imports,
//  (b) enumeration of map ranges (the only exposure of Go's random map order),
//  (c) BAG taint: values in map-enumeration order reach only order-insensitive consumers.

func init() { Register("C05", checkC05) }

const (
	slicePath   = "github.com/karino2/folang/pkg/slice"
	dictPath    = "github.com/karino2/folang/pkg/dict"
	stringsPath = "github.com/karino2/folang/pkg/strings"
	bufPath     = "github.com/karino2/folang/pkg/buf"
)

// packages whose functions may be called (everything else external is undecided)
var detAllowedPkgs = map[string]bool{
	"fmt": true, "bytes": true, "strings": true, "slices": true, "cmp": true,
	"github.com/google/go-cmp/cmp": true, "github.com/google/go-cmp/cmp/cmpopts": true,
	"strconv": true, "unicode": true, "unicode/utf8": true, "errors": true,
}

// per-function allow-list inside otherwise restricted packages
var detAllowedFuncs = map[string]bool{
	"os.ReadFile": true, "os.WriteFile": true, "os.Exit": true,
	// path/filepath: only the functions that compute on the path text; Glob, Walk, Abs, EvalSymlinks read the file system
	"path/filepath.Join": true, "path/filepath.Dir": true, "path/filepath.Base": true, "path/filepath.Ext": true, "path/filepath.Clean": true,
	"path/filepath.Split": true, "path/filepath.ToSlash": true, "path/filepath.FromSlash": true, "path/filepath.IsAbs": true, "path/filepath.Rel": true,
	"reflect.ValueOf": true, "reflect.(Value).Kind": true, "reflect.(Value).Int": true, "reflect.(Value).Uint": true,
	"reflect.(Value).Float": true, "reflect.(Value).String": true, "reflect.(Value).Bool": true, "reflect.TypeOf": true,
}

var detForbidden = []string{"time.", "math/rand", "crypto/rand", "sync", "runtime", "unsafe", "maps.", "os.Get", "os.Environ", "os.Hostname", "os.Getwd", "os.Getpid",
	"reflect.(Value).MapKeys", "reflect.(Value).MapRange", "os.UserHomeDir", "os.TempDir", "os.Stat", "os.ReadDir", "net", "os/exec", "os/signal"}

type tval int

const (
	tClean tval = iota
	tBag
	tOrd
)

func (t tval) String() string { return [...]string{"Clean", "Bag", "OrderDep"}[t] }

func tjoin(a, b tval) tval {
	if a > b {
		return a
	}
	return b
}

type bagAn struct {
	c       *Ctx
	f       *FC
	nr      map[string]bool
	effect  map[string]bool
	paramT  map[string][]tval
	retT    map[string]tval
	called  map[string]bool
	changed bool
	report  bool
	cur     *ir.Func
	sites   int
	siteOrd map[string]int
}

// effectful external or library callees (base of the effect summary)
func baseEffect(key string) bool {
	switch {
	case key == dictPath+".Add", key == bufPath+".Write":
		return true
	case strings.HasPrefix(key, ir.FrtPath+".Print"):
		return true
	case strings.HasPrefix(key, sysPath+"."):
		return true
	case strings.HasPrefix(key, "os."), strings.HasPrefix(key, "fmt.Print"), strings.HasPrefix(key, "fmt.Fprint"):
		return true
	case strings.HasPrefix(key, "bytes.(Buffer).Write"):
		return true
	}
	return false
}

func pureExternal(key string) bool {
	if strings.HasPrefix(key, slicePath+".") || strings.HasPrefix(key, stringsPath+".") || strings.HasPrefix(key, ir.FrtPath+".") {
		return true
	}
	if strings.HasPrefix(key, dictPath+".") || strings.HasPrefix(key, bufPath+".") {
		return true // dict.Add / buf.Write are caught by baseEffect first
	}
	for _, p := range []string{"fmt.Sprint", "strings.", "path/filepath.", "reflect.", "github.com/google/go-cmp/", "bytes.(Buffer).String", "bytes.(Buffer).Len", "strconv.", "cmp.", "slices."} {
		if strings.HasPrefix(key, p) {
			return true
		}
	}
	return false
}

// computeEffects: a function is effectful if it (transitively) references an effectful callee, assigns a
// global or a field, loops with assignments to non-locals, or applies a function value of unknown origin.
func (b *bagAn) computeEffects() {
	b.effect = map[string]bool{}
	own := map[string]*ir.Func{}
	for _, fn := range b.f.Prog.Funcs {
		own[fn.Key] = fn
	}
	direct := func(fn *ir.Func) bool {
		eff := false
		nf := b.f.N.Func(fn)
		lamParams := map[*types.Var]bool{}
		ir.Walk(nf, func(t ir.Term) bool {
			if l, ok := t.(*ir.Lam); ok {
				for _, p := range l.Params {
					lamParams[p] = true
				}
			}
			return true
		})
		ir.Walk(nf, func(t ir.Term) bool {
			switch x := t.(type) {
			case *ir.AssignT:
				// assignment to anything that is not a plain local cell
				switch l := x.LHS.(type) {
				case *ir.Local:
					_ = l
				default:
					eff = true
				}
			case *ir.App:
				switch fun := x.Fun.(type) {
				case *ir.FuncRef:
					if baseEffect(fun.Key) {
						eff = true
					} else if _, mine := own[fun.Key]; !mine && !pureExternal(fun.Key) && !b.nr[fun.Key] {
						eff = true
					}
				case *ir.Param:
					eff = true // unknown function value applied
				case *ir.Local:
					if !lamParams[fun.Obj] {
						eff = true
					} else {
						eff = true // a lambda parameter of function type: unknown origin
					}
				case *ir.Builtin:
					if fun.Name == "defer" || fun.Name == "recover" {
						eff = true
					}
				case *ir.Field, *ir.Proj, *ir.App:
					eff = true
				}
			}
			return !eff
		})
		return eff
	}
	refs := map[string][]string{}
	for _, fn := range b.f.Prog.Funcs {
		if direct(fn) {
			b.effect[fn.Key] = true
		}
		ir.Walk(b.f.N.Func(fn), func(t ir.Term) bool {
			if fr, ok := t.(*ir.FuncRef); ok {
				if _, mine := own[fr.Key]; mine {
					refs[fn.Key] = append(refs[fn.Key], fr.Key)
				}
			}
			return true
		})
	}
	for changed := true; changed; {
		changed = false
		for k, rs := range refs {
			if b.effect[k] {
				continue
			}
			for _, r := range rs {
				if b.effect[r] {
					b.effect[k] = true
					changed = true
					break
				}
			}
		}
	}
}

// effectFree: a function-valued term has no effect when applied.
func (b *bagAn) effectFree(t ir.Term) bool {
	free := true
	var lamParams = map[*types.Var]bool{}
	if l, ok := t.(*ir.Lam); ok {
		for _, p := range l.Params {
			lamParams[p] = true
		}
	}
	ir.Walk(t, func(x ir.Term) bool {
		switch y := x.(type) {
		case *ir.FuncRef:
			if b.effect[y.Key] || baseEffect(y.Key) {
				free = false
			} else if _, mine := b.f.Prog.ByKey[y.Key]; !mine && !pureExternal(y.Key) && !b.nr[y.Key] {
				free = false
			}
		case *ir.App:
			switch fun := y.Fun.(type) {
			case *ir.Param:
				free = false
			case *ir.Local:
				_ = fun
				free = false
			}
		case *ir.AssignT:
			free = false
		}
		return free
	})
	return free
}

type tenv map[*types.Var]tval

func (b *bagAn) key(kind string) string {
	b.siteOrd[b.cur.Name+"|"+kind]++
	return sprintf("%s#%d", kind, b.siteOrd[b.cur.Name+"|"+kind])
}

func (b *bagAn) bad(kind, msg string, t ir.Term) {
	if !b.report {
		return
	}
	b.c.R.Bad("C05.c", b.cur.Name, b.key(kind), b.c.Pos(b.f.M.Fset, b.cur.Decl.Pos()), msg+": "+short(ir.String(b.f.Path, t), 200))
}

func (b *bagAn) ok(kind, msg string) {
	if !b.report {
		return
	}
	b.c.R.OK("C05.c", b.cur.Name, b.key(kind), b.c.Pos(b.f.M.Fset, b.cur.Decl.Pos()), msg)
}

// commutative Iter actions: callee name -> index of the iterated element among its arguments
var commutativeActions = map[string]struct {
	elem int
	why  string
}{
	"setAddKeys":   {1, "dict.Add(set, element, true): key = element, constant value — commutative and idempotent"},
	"rsRegisterTo": {2, "dict.Add(res.eid, element, ei): key = element, same value for every element"},
	"regFF":        {2, "dict.Add(scope.VarFacMap, piFullName pi key, …): keys of one dictionary are distinct and piFullName is injective in the key"},
	"regTF":        {2, "dict.Add(scope.TypeFacMap, entry.Name, …): entry.Name = piFullName pi key (set only by piRegEType), injective in the key"},
}

// closed forms the commutative table relies on
var commutativePins = map[string]string{
	"setAddKeys":        "seq[dict.Add(p0, p1, true)]",
	"rsRegisterTo":      "seq[dict.Add(p0.eid, p2, p1)]",
	"regFF":             "seq[scRegFunFac(p1, piFullName(p0, #0(p2)), #1(p2))]",
	"scRegFunFac":       "seq[scRegisterVarFac(p0, p1, GenFuncVar(p1, p2, _, _))]",
	"scRegisterVarFac":  "seq[dict.Add(SCSDict(p0).VarFacMap, p1, p2)]",
	"regTF":             "seq[scRegTFData(p1, #1(p2).Name, #1(p2))]",
	"scRegTFData":       "seq[scRegisterTypeFac(p0, p1, GenType(p2, _))]",
	"scRegisterTypeFac": "seq[dict.Add(SCSDict(p0).TypeFacMap, p1, p2)]",
	"piRegEType":        "seq[dict.Add(p0.TypeInfo, p1, TypeFactoryData{Name: piFullName(p0, p1), Tparams: p2})] TypeFactoryData{Name: piFullName(p0, p1), Tparams: p2}",
	"piFullName":        `if((p0.Name eq "_"), p1, ((p0.Name + ".") + p1))`,
}

func (b *bagAn) isCommutativeAction(act ir.Term) (string, bool) {
	// \x. seq[g(…, x, …)]  or  g(…, _) partial application with the element last
	var callee *ir.FuncRef
	var args []ir.Term
	elemIdx := -1
	switch a := act.(type) {
	case *ir.Lam:
		if len(a.Params) != 1 {
			return "", false
		}
		body := a.Body.Ret
		if sq, ok := body.(*ir.Seq); ok && len(sq.Effs) == 1 && sq.Ret == nil {
			body = sq.Effs[0]
		}
		app, ok := body.(*ir.App)
		if !ok {
			return "", false
		}
		callee, _ = app.Fun.(*ir.FuncRef)
		args = app.Args
		for i, x := range args {
			if lc, ok := x.(*ir.Local); ok && lc.Obj == a.Params[0] {
				if elemIdx >= 0 {
					return "", false
				}
				elemIdx = i
			} else {
				m := false
				ir.Walk(x, func(y ir.Term) bool {
					if lc, ok := y.(*ir.Local); ok && lc.Obj == a.Params[0] {
						m = true
					}
					return !m
				})
				if m {
					return "", false
				}
			}
		}
	case *ir.PApp:
		callee, _ = a.Fun.(*ir.FuncRef)
		args = a.First
		if a.Arity != 1 {
			return "", false
		}
		elemIdx = len(a.First)
	}
	if callee == nil {
		return "", false
	}
	name := strings.TrimPrefix(callee.Key, b.f.Path+".")
	ent, ok := commutativeActions[name]
	if !ok || ent.elem != elemIdx {
		return "", false
	}
	return name + ": " + ent.why, true
}

func (b *bagAn) eval(t ir.Term, env tenv) tval {
	switch x := t.(type) {
	case nil:
		return tClean
	case *ir.Param:
		ps := b.paramT[b.cur.Key]
		if x.Idx < len(ps) {
			return ps[x.Idx]
		}
		return tClean
	case *ir.Local:
		return env[x.Obj]
	case *ir.Lam:
		e2 := tenv{}
		for k, v := range env {
			e2[k] = v
		}
		b.eval(x.Body.Ret, e2)
		return tClean
	case *ir.PApp:
		r := tClean
		for _, a := range x.First {
			r = tjoin(r, b.eval(a, env))
		}
		if r != tClean {
			// a bag captured in a partial application: treat the closure as carrying it
			return r
		}
		return tClean
	case *ir.If:
		ct := b.eval(x.Cond, env)
		if ct != tClean {
			b.bad("condition", "a value that depends on map enumeration order decides a branch", x.Cond)
		}
		r := b.eval(x.Then.Ret, env)
		if x.Else != nil {
			r = tjoin(r, b.eval(x.Else.Ret, env))
		}
		return r
	case *ir.IfT:
		ct := b.eval(x.Cond, env)
		if ct != tClean {
			b.bad("condition", "a value that depends on map enumeration order decides a branch", x.Cond)
		}
		return tjoin(b.eval(x.Then, env), b.eval(x.Else, env))
	case *ir.Match:
		if b.eval(x.Scrut, env) != tClean {
			b.bad("condition", "a value that depends on map enumeration order is matched on", x.Scrut)
		}
		r := tClean
		for _, a := range x.Arms {
			r = tjoin(r, b.eval(a.Body.Ret, env))
		}
		if x.Default != nil {
			r = tjoin(r, b.eval(x.Default.Ret, env))
		}
		return r
	case *ir.StrMatch:
		if b.eval(x.Scrut, env) != tClean {
			b.bad("condition", "a value that depends on map enumeration order is matched on", x.Scrut)
		}
		r := tClean
		for _, a := range x.Arms {
			r = tjoin(r, b.eval(a.Body.Ret, env))
		}
		if x.Default != nil {
			r = tjoin(r, b.eval(x.Default.Ret, env))
		}
		return r
	case *ir.Seq:
		for _, e := range x.Effs {
			b.eval(e, env)
		}
		return b.eval(x.Ret, env)
	case *ir.App:
		return b.evalApp(x, env)
	default:
		// structural join over children
		r := tClean
		first := true
		ir.Walk(t, func(y ir.Term) bool {
			if first {
				first = false
				return true
			}
			r = tjoin(r, b.eval(y, env))
			return false
		})
		return r
	}
}

func (b *bagAn) evalApp(x *ir.App, env tenv) tval {
	av := make([]tval, len(x.Args))
	anyT := tClean
	for i, a := range x.Args {
		av[i] = b.eval(a, env)
		anyT = tjoin(anyT, av[i])
	}
	fr, _ := x.Fun.(*ir.FuncRef)
	if fr == nil {
		b.eval(x.Fun, env)
		if bi, ok := x.Fun.(*ir.Builtin); ok {
			switch bi.Name {
			case "len", "cap":
				if anyT == tBag {
					return tClean
				}
				return anyT
			case "panic":
				return tClean // diagnostic sink
			}
			if anyT == tBag {
				return tOrd
			}
			return anyT
		}
		if anyT != tClean {
			b.bad("unknown-consumer", "a value in map enumeration order is passed to a function value of unknown origin", x)
		}
		return tClean
	}
	key := fr.Key
	if b.nr[key] {
		return tClean // no-return diagnostic call: order-dependent wording is allowed
	}
	coll := func(i int) tval {
		if i < len(av) {
			return av[i]
		}
		return tClean
	}
	fnArg := func(i int) ir.Term {
		if i < len(x.Args) {
			return x.Args[i]
		}
		return nil
	}
	short := strings.TrimPrefix(strings.TrimPrefix(strings.TrimPrefix(key, slicePath+"."), dictPath+"."), stringsPath+".")
	switch {
	case key == dictPath+".Keys" || key == dictPath+".Values" || key == dictPath+".KVs":
		b.sites++
		return tBag
	case strings.HasPrefix(key, slicePath+"."):
		switch short {
		case "Sort":
			if coll(0) == tBag {
				b.ok("cleanse", "slice.Sort of a bag: total order on the elements makes the result independent of enumeration order")
				return tClean
			}
			return coll(0)
		case "Length", "Len", "IsEmpty", "IsNotEmpty":
			if coll(0) == tBag {
				b.ok("cleanse", "slice."+short+" of a bag is order-insensitive")
				return tClean
			}
			return coll(0)
		case "Forall", "Forany":
			if coll(1) == tBag {
				if b.effectFree(fnArg(0)) {
					b.ok("cleanse", "slice."+short+" with an effect-free predicate over a bag is order-insensitive")
					return tjoin(tClean, av[0])
				}
				b.bad("effect-order", "slice."+short+" applies an effectful predicate in map enumeration order", x)
				return tOrd
			}
			return anyT
		case "Map", "Filter", "Collect":
			if coll(1) == tBag {
				if b.effectFree(fnArg(0)) {
					return tBag
				}
				b.bad("effect-order", "slice."+short+" applies an effectful function in map enumeration order", x)
				return tOrd
			}
			return anyT
		case "SortBy":
			return coll(1) // ties keep enumeration order: still a bag
		case "Distinct", "Concat":
			return coll(0)
		case "Append", "PushHead", "PushLast":
			return anyT
		case "Iter":
			if coll(1) == tBag {
				if why, ok := b.isCommutativeAction(fnArg(0)); ok {
					b.ok("iter-commutative", "slice.Iter over a bag with a commutative action ("+why+")")
					return tClean
				}
				b.bad("iter-order", "slice.Iter runs an action that is not in the commutative table in map enumeration order", x)
				return tClean
			}
			if coll(1) == tOrd {
				b.bad("iter-order", "slice.Iter over an order-dependent slice", x)
			}
			return tClean
		case "New":
			return tClean
		default:
			// Head Last Item Take Skip Tail PopLast TryFind Mapi Zip Fold …
			if anyT == tBag {
				if b.report {
					b.c.R.Note("%s: slice.%s observes the enumeration order of a bag; its result is order-dependent", b.cur.Name, short)
				}
				return tOrd
			}
			return anyT
		}
	case strings.HasPrefix(key, dictPath+"."):
		switch short {
		case "Add":
			if anyT != tClean {
				b.bad("stored", "a value in/depending on map enumeration order is stored in a dictionary", x)
			}
			return tClean
		case "New":
			return tClean
		case "ToDict":
			if coll(0) == tBag {
				return tOrd // last value per key wins: order-dependent unless keys are known distinct
			}
			return coll(0)
		default:
			if anyT == tBag {
				return tOrd
			}
			return anyT
		}
	case strings.HasPrefix(key, stringsPath+"."), strings.HasPrefix(key, ir.FrtPath+"."), strings.HasPrefix(key, "fmt.Sprint"):
		if baseEffect(key) && anyT != tClean {
			b.bad("emitted", "a value in/depending on map enumeration order is printed", x)
			return tClean
		}
		if anyT == tBag {
			return tOrd
		}
		return anyT
	case key == bufPath+".Write":
		if anyT != tClean {
			b.bad("emitted", "a value depending on map enumeration order is written to an output buffer", x)
		}
		return tClean
	}
	if callee, ok := b.f.Prog.ByKey[key]; ok {
		b.called[key] = true
		ps := b.paramT[key]
		for len(ps) < len(callee.Params) {
			ps = append(ps, tClean)
		}
		for i, v := range av {
			if v == tOrd {
				// an order-dependent value must be consumed where it is created (keeps one report per cause)
				b.bad("escapes", "an order-dependent value (order of a map enumeration was observed) is passed on to "+callee.Name, x)
				v = tClean
			}
			if i < len(ps) && v > ps[i] {
				ps[i] = v
				b.changed = true
			}
		}
		b.paramT[key] = ps
		return b.retT[key]
	}
	// other external callee
	if anyT != tClean {
		b.bad("unknown-consumer", "a value in/depending on map enumeration order is passed to "+ir.ShortKey(key)+", which has no transfer function", x)
	}
	return tClean
}

func (b *bagAn) run() {
	for iter := 0; iter < 50; iter++ {
		b.changed = false
		for _, fn := range b.f.Prog.Funcs {
			b.cur = fn
			r := b.eval(b.f.N.Func(fn), tenv{})
			if r == tOrd {
				r = tClean // reported at the creating function in the final pass; not propagated
			}
			if r > b.retT[fn.Key] {
				b.retT[fn.Key] = r
				b.changed = true
			}
		}
		if !b.changed {
			break
		}
	}
	// reporting pass
	b.report = true
	b.sites = 0
	b.siteOrd = map[string]int{}
	for _, fn := range b.f.Prog.Funcs {
		b.cur = fn
		if b.eval(b.f.N.Func(fn), tenv{}) == tOrd {
			b.c.R.Bad("C05.c", fn.Name, "returned", b.c.Pos(b.f.M.Fset, fn.Decl.Pos()),
				"the function returns a value that depends on the enumeration order of a map (a bag was observed by position: Head/TryFind/Fold/Concat/…): output or accept/reject can differ between runs")
		}
	}
}

func checkC05(c *Ctx) {
	r := c.R
	r.Explanation = "Decided as a source→sink argument over fc and every pkg/* module it imports: output bytes and the accept/reject decision are a function of the input files if no nondeterministic source reaches them. " +
		"(a) inventory: no goroutines/select/channels, no time/rand/sync/runtime/unsafe/env/pid, no reflect map iteration, no %p, no formatting of pointer/func/chan-typed values, every external callee in an allow-list; " +
		"(b) every `range` over a map is enumerated — exactly dict.Keys/Values/KVs, which are thereby the only order-exposing values (bags); " +
		"(c) interprocedural bag taint on FoIR normal forms: a bag may be sorted, measured, tested with effect-free predicates, mapped/filtered with effect-free functions, or iterated with an action from the commutative table " +
		"(each entry's closed form is pinned); anything that observes its order yields an order-dependent value, which may flow only into the message of a no-return diagnostic call — never into a condition, a dictionary, an output buffer, or an unknown consumer. " +
		"Holds for all programs and all map orders at once."
	r.NotDecided = []string{"wording of diagnostics (which uncovered case is named may vary; the statement fixes output files and accept/reject)", "determinism of the Go toolchain and standard library beyond the allow-list (trusted)"}
	r.Assumptions = []string{"Go maps are the only source of enumeration-order nondeterminism in the allow-listed standard library functions", "fmt prints maps in sorted key order (Go >= 1.12)"}
	r.Rule("C05.a", "no nondeterminism source is referenced in fc or the pkg/* modules it imports; external callees are allow-listed", 20)
	r.Rule("C05.b", "map ranges are exactly dict.Keys/Values/KVs", 3)
	r.Rule("C05.c", "bags (map-enumeration-order slices) reach only order-insensitive consumers", 5)
	r.Rule("C05.pins", "closed forms the commutative-action table relies on", 8)
	r.Rule("C05.d", "the diagnostic sink is closed: the recovered panic value (whose wording may depend on enumeration order) reaches only console printing, and output files have the single write path transpileOne -> sys.WriteFile", 3)

	f := c.LoadFC("fc")
	if f == nil {
		return
	}
	_, frtProg, _ := libProg(c, "pkg/frt")
	if frtProg == nil {
		return
	}
	nr := noReturn(f.Prog, frtProg)

	// (a) + (b)
	progs := map[string]*ir.Program{"fc": f.Prog, "pkg/frt": frtProg}
	mods := map[string]*core.Module{"fc": f.M}
	for _, d := range []string{"pkg/slice", "pkg/dict", "pkg/strings", "pkg/buf", "pkg/sys"} {
		m, p, _ := libProg(c, d)
		if p == nil {
			return
		}
		progs[d] = p
		mods[d] = m
	}
	mfrt, _, _ := libProg(c, "pkg/frt")
	mods["pkg/frt"] = mfrt
	checkDetInventory(c, progs, mods)

	// pins
	for _, name := range sortedKeys(commutativePins) {
		c.expectNF(f, "C05.pins", name, []string{commutativePins[name]}, "closed form relied on by the commutative-action table")
	}
	// who adds to PackageInfo.TypeInfo: only piRegEType
	var adders []string
	for _, fn := range f.Prog.Funcs {
		ir.Walk(f.N.Func(fn), func(t ir.Term) bool {
			if app, ok := isCallTo(t, dictPath+".Add"); ok && len(app.Args) == 3 {
				if fl, ok := app.Args[0].(*ir.Field); ok && fl.Name == "TypeInfo" {
					adders = append(adders, fn.Name)
				}
			}
			return true
		})
	}
	r.Check(len(adders) == 1 && adders[0] == "piRegEType", "C05.pins", "PackageInfo.TypeInfo", "who-may-add", "fc", "only piRegEType adds to TypeInfo, so every entry's Name is the full name of its key", "TypeInfo is written in "+strings.Join(adders, ","))

	// (c)
	b := &bagAn{c: c, f: f, nr: nr, paramT: map[string][]tval{}, retT: map[string]tval{}, called: map[string]bool{}, siteOrd: map[string]int{}}
	b.computeEffects()
	b.run()
	r.Unit("bag_source_sites", b.sites)
	if b.sites < 5 {
		r.Undecided("C05.c", "-", "bag-sites", "fc", sprintf("only %d uses of dict.Keys/Values/KVs found in fc; at least 5 were confirmed by hand (anchor moved?)", b.sites))
	}
	nEff := 0
	for range b.effect {
		nEff++
	}
	r.Unit("effectful_functions", nEff)

	// (d) the exemption for diagnostics in (c) is sound only if diagnostic text cannot come back into a file or a decision
	checkFileAPIs(c, "C05.d", f)
	checkDiagnosticSink(c, f)
	// (f) "the same files": the bytes written depend on a file through its content, not through the spelling of its path
	r.Rule("C05.f", "the content handed to sys.WriteFile mentions a path parameter only as the argument of sys.ReadFile or filepath.Base (same files under another path spelling or working directory give the same bytes)", 1)
	checkContentIndependentOfPath(c, f)
	// (g) progress lines cannot decide the run: fc prints "transpile: <file>" before its recover handler is installed;
	// the console wrappers forward to fmt and drop its error, so a stdout that rejects writes changes nothing
	r.Rule("C05.g", "the console wrappers fc uses for progress lines (frt.Println, frt.Printf1) forward to fmt and ignore its result: what stdout is connected to cannot change the exit status or the output files", 2)
	{
		var sp []termSpec
		for _, t := range c14Specs["pkg/frt"] {
			if t.fn == "Println" || t.fn == "Printf1" {
				sp = append(sp, t)
			}
		}
		checkTermSpecsOpt(c, "C05.g", "pkg/frt", sp, false)
	}
	// the allow-list trusts the standard library and go-cmp as built: no go.mod replaces an external module
	r.Rule("C05.e", "the allow-listed external modules are the ones actually built: no go.mod replaces an external module; go-cmp at the reviewed version", 12)
	checkModuleGraph(c, "C05.e")
}

// checkContentIndependentOfPath (C05.f): in the normal form (helpers inlined) of every function that calls
// sys.WriteFile, the content argument may mention a parameter that is also used as a file path (argument of
// sys.ReadFile or path of sys.WriteFile) only inside sys.ReadFile(·) — the content — or filepath.Base(·) — the
// file's own name, which no spelling of the path changes.
func checkContentIndependentOfPath(c *Ctx, f *FC) {
	r := c.R
	n := 0
	for _, fn := range f.Prog.Funcs {
		has := false
		ir.WalkFunc(fn, func(t ir.Term) bool {
			if _, ok := isCallTo(t, sysPath+".WriteFile"); ok {
				has = true
			}
			return true
		})
		if !has {
			continue
		}
		nf := f.N.Func(fn)
		pos := c.Pos(f.M.Fset, fn.Decl.Pos())
		// parameters used as paths
		pathParams := map[int]bool{}
		var paramsOf func(t ir.Term, into map[int]bool)
		paramsOf = func(t ir.Term, into map[int]bool) {
			ir.Walk(t, func(x ir.Term) bool {
				if p, ok := x.(*ir.Param); ok {
					into[p.Idx] = true
				}
				return true
			})
		}
		var writes []*ir.App
		ir.Walk(nf, func(t ir.Term) bool {
			if app, ok := isCallTo(t, sysPath+".ReadFile"); ok && len(app.Args) == 1 {
				paramsOf(app.Args[0], pathParams)
			}
			if app, ok := isCallTo(t, sysPath+".WriteFile"); ok && len(app.Args) == 2 {
				paramsOf(app.Args[0], pathParams)
				writes = append(writes, app)
			}
			return true
		})
		for _, w := range writes {
			n++
			var leaks []string
			ir.Walk(w.Args[1], func(x ir.Term) bool {
				if _, ok := isCallTo(x, sysPath+".ReadFile"); ok {
					return false // the content of the file: what the output is meant to depend on
				}
				if _, ok := isCallTo(x, "path/filepath.Base"); ok {
					return false // the file's own name: the same for every spelling of the path
				}
				if p, ok := x.(*ir.Param); ok && pathParams[p.Idx] {
					leaks = append(leaks, sprintf("p%d", p.Idx))
				}
				if g, ok := x.(*ir.Global); ok && g.Key == "os.Args" {
					leaks = append(leaks, "os.Args")
				}
				return true
			})
			r.Check(len(leaks) == 0, "C05.f", fn.Name, sprintf("write#%d", n), pos,
				"the written content depends on the path parameter only through sys.ReadFile(path)",
				"the content written to the output file mentions the path ("+strings.Join(leaks, ", ")+") outside sys.ReadFile: the bytes depend on how the file name was spelled on the command line / on the working directory, not only on the files: "+short(ir.String(f.Path, w.Args[1]), 200))
		}
	}
	if n == 0 {
		r.Undecided("C05.f", "-", "write-sites", "fc", "no sys.WriteFile call found in fc (anchor moved?)")
	}
}

// console printers: the only consumers allowed for a value derived from recover()
var consolePrinters = map[string]bool{"fmt.Printf": true, "fmt.Println": true, "fmt.Print": true, "os.Exit": false}

// pure formatters: their result carries the taint to the enclosing consumer
var diagFormatters = map[string]bool{"fmt.Sprintf": true, "fmt.Sprint": true, "fmt.Sprintln": true, "fmt.Errorf": true}

// checkDiagnosticSink: in every function that calls recover(), the recovered value is compared with nil,
// formatted, or printed to the console — nothing else (C05.d).
func checkDiagnosticSink(c *Ctx, f *FC) {
	r := c.R
	n := 0
	for _, fn := range f.Prog.Funcs {
		calls := false
		ir.WalkFunc(fn, func(t ir.Term) bool {
			if b, ok := t.(*ir.Builtin); ok && b.Name == "recover" {
				calls = true
			}
			return true
		})
		if !calls {
			continue
		}
		n++
		pos := c.Pos(f.M.Fset, fn.Decl.Pos())
		nf := f.N.Func(fn)
		tainted := func(t ir.Term) bool {
			found := false
			ir.Walk(t, func(x ir.Term) bool {
				if b, ok := x.(*ir.Builtin); ok && b.Name == "recover" {
					found = true
				}
				return !found
			})
			return found
		}
		var bad []string
		var visit func(t ir.Term)
		visit = func(t ir.Term) {
			ir.Walk(t, func(x ir.Term) bool {
				app, ok := x.(*ir.App)
				if !ok || x == t {
					return true
				}
				any := false
				for _, a := range app.Args {
					if tainted(a) {
						any = true
					}
				}
				if !any {
					return true
				}
				switch fun := app.Fun.(type) {
				case *ir.Builtin:
					return true // recover() itself, comparisons, conversions: taint continues upward
				case *ir.FuncRef:
					k := ir.ShortKey(fun.Key)
					if consolePrinters[k] {
						return false // printed: the value ends here
					}
					if (k == "fmt.Fprintf" || k == "fmt.Fprintln" || k == "fmt.Fprint") && len(app.Args) > 0 {
						if g, ok := app.Args[0].(*ir.Global); ok && (g.Key == "os.Stderr" || g.Key == "os.Stdout") && !tainted(app.Args[0]) {
							return false // printed to a console stream
						}
					}
					if diagFormatters[k] {
						return true
					}
					bad = append(bad, k)
					return false
				default:
					bad = append(bad, ir.String(f.Path, app.Fun))
					return false
				}
			})
		}
		// a tainted formatter result is harmless only as the argument of a printer; walk from the root so the
		// enclosing consumer of every tainted application is classified
		visit(&ir.Seq{Effs: []ir.Term{nf}})
		stored := false
		ir.Walk(nf, func(x ir.Term) bool {
			if as, ok := x.(*ir.AssignT); ok && tainted(as.RHS) {
				if _, isLocal := as.LHS.(*ir.Local); !isLocal {
					stored = true
				}
			}
			return true
		})
		if stored {
			bad = append(bad, "a store to a non-local location")
		}
		sort.Strings(bad)
		r.Check(len(bad) == 0, "C05.d", fn.Name, "recovered-value-consumers", pos,
			"the value of recover() is only compared, formatted and printed to the console",
			"the recovered diagnostic (its wording may name whichever uncovered case the map enumeration yields first) is handed to "+strings.Join(bad, ", ")+": diagnostic text can reach a file or a later decision, so identical runs can leave different results")
	}
	if n == 0 {
		r.Undecided("C05.d", "-", "recover-sites", "fc", "no function calling recover() found (anchor OnParseError moved?)")
	}
}

// checkDetInventory: C05.a and C05.b over typed syntax and resolved callees.
func checkDetInventory(c *Ctx, progs map[string]*ir.Program, mods map[string]*core.Module) {
	r := c.R
	for _, dir := range sortedKeys(progs) {
		p := progs[dir]
		m := mods[dir]
		pkg := p.Pkg
		// concurrency constructs
		n := 0
		for _, file := range pkg.Syntax {
			if strings.HasSuffix(m.Fset.Position(file.Pos()).Filename, "_test.go") {
				continue
			}
			n += countConcurrency(file)
		}
		r.Check(n == 0, "C05.a", dir, "concurrency", dir, "no go/select/channel construct", sprintf("%d go/select/channel constructs: scheduling is a nondeterminism source", n))
		// imports
		var badImp []string
		for path := range pkg.Imports {
			for _, fb := range detForbidden {
				if path == strings.TrimSuffix(fb, ".") || strings.HasPrefix(path, strings.TrimSuffix(fb, ".")+"/") {
					badImp = append(badImp, path)
				}
			}
		}
		sort.Strings(badImp)
		r.Check(len(badImp) == 0, "C05.a", dir, "imports", dir, "no import of a nondeterminism-source package", "imports "+strings.Join(badImp, ", "))
		// callees
		ext := map[string]bool{}
		for _, fn := range p.Funcs {
			ir.WalkFunc(fn, func(t ir.Term) bool {
				if fr, ok := t.(*ir.FuncRef); ok && fr.Fn != nil && fr.Fn.Pkg() != nil {
					pp := fr.Fn.Pkg().Path()
					if !strings.HasPrefix(pp, "github.com/karino2/folang") {
						ext[ir.ShortKey(fr.Key)+"|"+pp] = true
					}
				}
				if g, ok := t.(*ir.Global); ok && g.Obj.Pkg() != nil && !strings.HasPrefix(g.Obj.Pkg().Path(), "github.com/karino2/folang") {
					if g.Key != "os.Args" && g.Key != "os.Stderr" && g.Key != "os.Stdout" {
						ext["var:"+g.Key+"|"+g.Obj.Pkg().Path()] = true
					}
				}
				return true
			})
		}
		for _, e := range sortedKeys(ext) {
			parts := strings.SplitN(e, "|", 2)
			name, pp := parts[0], parts[1]
			forbidden := false
			for _, fb := range detForbidden {
				if strings.HasPrefix(name, fb) {
					forbidden = true
				}
			}
			switch {
			case forbidden:
				r.Bad("C05.a", dir, "callee "+name, dir, name+" is a nondeterminism source (time, randomness, environment, addresses, map iteration)")
			case detAllowedPkgs[pp] || detAllowedFuncs[name]:
				r.OK("C05.a", dir, "callee "+name, dir, name+" is in the deterministic allow-list")
			default:
				r.Undecided("C05.a", dir, "callee "+name, dir, name+" (package "+pp+") is outside the allow-list of deterministic external callees")
			}
		}
		// format verbs: %p and pointer-like operands
		for _, file := range pkg.Syntax {
			if strings.HasSuffix(m.Fset.Position(file.Pos()).Filename, "_test.go") {
				continue
			}
			ast.Inspect(file, func(nd ast.Node) bool {
				call, ok := nd.(*ast.CallExpr)
				if !ok {
					return true
				}
				for i, a := range call.Args {
					tv := pkg.TypesInfo.Types[a]
					if tv.Value != nil && strings.Contains(tv.Value.ExactString(), "%p") {
						r.Bad("C05.a", dir, "format-%p", c.Pos(m.Fset, a.Pos()), "a %p verb prints an address")
					}
					_ = i
				}
				return true
			})
		}
		// (b) map ranges
		for _, file := range pkg.Syntax {
			fname := m.Fset.Position(file.Pos()).Filename
			if strings.HasSuffix(fname, "_test.go") {
				continue
			}
			for _, d := range file.Decls {
				fd, ok := d.(*ast.FuncDecl)
				if !ok || fd.Body == nil {
					continue
				}
				ast.Inspect(fd.Body, func(nd ast.Node) bool {
					rs, ok := nd.(*ast.RangeStmt)
					if !ok {
						return true
					}
					tv := pkg.TypesInfo.Types[rs.X]
					if _, isMap := tv.Type.Underlying().(*types.Map); !isMap {
						return true
					}
					name := dir + "." + fd.Name.Name
					allowed := dir == "pkg/dict" && (fd.Name.Name == "Keys" || fd.Name.Name == "Values" || fd.Name.Name == "KVs")
					if allowed {
						r.OK("C05.b", name, "map-range", c.Pos(m.Fset, rs.Pos()), "order-exposing by classification: its result is a bag, tracked by C05.c")
					} else {
						r.Undecided("C05.b", name, "map-range", c.Pos(m.Fset, rs.Pos()), "a range over a map outside dict.Keys/Values/KVs: a new exposure of Go's random map order with no transfer function")
					}
					return true
				})
			}
		}
	}
}
