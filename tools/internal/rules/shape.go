package rules

import (
	"fmt"
	"go/types"
	"strconv"
	"strings"

	"verif/tools/internal/ir"
)

// SHAPE — string-shape (emission-template) analysis (DESIGN.md §2).
// An emitter function is summarised to the sequence of pieces it writes:
//   "text"          literal piece (white space runs collapsed: gofmt runs afterwards)
//   ⟨term⟩          dynamic piece (canonical term)
//   join(sep; xs)   strings.Concat sep xs
//   ?(c){…}{…}      conditional pieces
//   match(x){C: …}  pieces per case
//   !⟨term⟩         an effect that is not a write (kept in order)
// Buffer identity is kept (KeepShared normal form): pieces are the writes to
// the function's own buffer in program order, then the returned String().

type shaper struct {
	f   *FC
	ks  *ir.Normalizer
	p   *ir.Printer
	lin []linPiece // pieces of the last Template call in left-to-right order
}

type linPiece struct {
	lit  string  // literal text (uncollapsed) or ""
	term ir.Term // dynamic term or nil
}

func newShaper(f *FC) *shaper {
	ks := ir.NewNormalizer()
	ks.KeepShared = true
	for k, v := range f.N.Inline {
		ks.Inline[k] = v
	}
	return &shaper{f: f, ks: ks}
}

func collapseWS(s string) string {
	var b strings.Builder
	ws := false
	for _, r := range s {
		if r == ' ' || r == '\n' || r == '\t' {
			if !ws {
				b.WriteByte(' ')
			}
			ws = true
			continue
		}
		ws = false
		b.WriteRune(r)
	}
	return b.String()
}

func (s *shaper) lit(v string) string {
	s.lin = append(s.lin, linPiece{lit: v})
	return strconv.Quote(collapseWS(v))
}

func (s *shaper) dyn(t ir.Term) string {
	s.lin = append(s.lin, linPiece{term: t})
	return "⟨" + s.p.S(t) + "⟩"
}

func isKey(t ir.Term, key string) (*ir.App, bool) { return isCallTo(t, key) }

var fmtVerbs = []string{"%s", "%d", "%t", "%v"}

// splitFormat splits a format at verbs into literal and argument pieces.
func (s *shaper) splitFormat(format string, args []ir.Term) (string, bool) {
	var out []string
	ai := 0
	for len(format) > 0 {
		i := strings.IndexByte(format, '%')
		if i < 0 {
			out = append(out, s.lit(format))
			break
		}
		if i > 0 {
			out = append(out, s.lit(format[:i]))
		}
		if i+1 >= len(format) {
			return "", false
		}
		verb := format[i : i+2]
		format = format[i+2:]
		if verb == "%%" {
			out = append(out, s.lit("%"))
			continue
		}
		okv := false
		for _, v := range fmtVerbs {
			if v == verb {
				okv = true
			}
		}
		if !okv || ai >= len(args) {
			return "", false
		}
		piece := s.str(args[ai])
		if verb != "%s" {
			piece = verb + piece
		}
		out = append(out, piece)
		ai++
	}
	if ai != len(args) {
		return "", false
	}
	return strings.Join(out, " "), true
}

// str renders a string-valued term as pieces.
func (s *shaper) str(t ir.Term) string {
	switch x := t.(type) {
	case *ir.Lit:
		if x.Kind.String() == "STRING" {
			return s.lit(x.Val)
		}
	case *ir.BinOp:
		if x.Op == "+" {
			return s.str(x.L) + " " + s.str(x.R)
		}
	case *ir.If:
		if x.Else != nil {
			return "?(" + s.p.S(x.Cond) + "){" + s.str(x.Then.Ret) + "}{" + s.str(x.Else.Ret) + "}"
		}
	case *ir.Match:
		out := "match(" + s.p.S(x.Scrut) + "){"
		s.p.S(x) // register binders
		for i, a := range x.Arms {
			if i > 0 {
				out += "; "
			}
			out += strings.TrimPrefix(ir.CaseName(a.Cases[0]), "") + ": " + s.str(a.Body.Ret)
		}
		if x.Default != nil && !x.NeverReached {
			out += "; _: " + s.str(x.Default.Ret)
		}
		return out + "}"
	case *ir.Seq:
		// a block-valued string: effects then the value
		var parts []string
		for _, e := range x.Effs {
			parts = append(parts, "!"+s.dyn(e))
		}
		if x.Ret != nil {
			parts = append(parts, s.str(x.Ret))
		}
		return strings.Join(parts, " ")
	case *ir.App:
		fr, _ := x.Fun.(*ir.FuncRef)
		if fr == nil {
			break
		}
		switch fr.Key {
		case ir.FrtPath + ".Sprintf1", ir.FrtPath + ".Sprintf2", ir.FrtPath + ".SInterP":
			if len(x.Args) >= 1 {
				if l, ok := x.Args[0].(*ir.Lit); ok {
					if out, ok := s.splitFormat(l.Val, x.Args[1:]); ok {
						return out
					}
				}
			}
		case stringsPath + ".Concat":
			if len(x.Args) == 2 {
				sep := s.str(x.Args[0])
				s.lin = append(s.lin, linPiece{term: x.Args[1]})
				return "join(" + sep + "; " + s.p.S(x.Args[1]) + ")"
			}
		case stringsPath + ".EncloseWith":
			if len(x.Args) == 3 {
				return s.str(x.Args[0]) + " " + s.str(x.Args[2]) + " " + s.str(x.Args[1])
			}
		case stringsPath + ".AppendTail":
			if len(x.Args) == 2 {
				return s.str(x.Args[1]) + " " + s.str(x.Args[0])
			}
		case stringsPath + ".AppendHead":
			if len(x.Args) == 2 {
				return s.str(x.Args[0]) + " " + s.str(x.Args[1])
			}
		}
	}
	return s.dyn(t)
}

// effs renders a list of effects on buffer cells as pieces.
func (s *shaper) effs(es []ir.Term, bufs map[string]bool) string {
	var parts []string
	for _, e := range es {
		switch x := e.(type) {
		case *ir.AssignT:
			if app, ok := isKey(x.RHS, bufPath+".New"); ok && len(app.Args) == 0 {
				bufs[s.p.S(x.LHS)] = true
				continue
			}
			parts = append(parts, "!⟨"+s.p.S(x.LHS)+" := "+s.p.S(x.RHS)+"⟩")
		case *ir.Seq:
			parts = append(parts, s.effs(x.Effs, bufs))
			if x.Ret != nil {
				parts = append(parts, "!"+s.dyn(x.Ret))
			}
		case *ir.If:
			th := s.block(x.Then, bufs)
			if x.Else != nil {
				parts = append(parts, "?("+s.p.S(x.Cond)+"){"+th+"}{"+s.block(x.Else, bufs)+"}")
			} else {
				parts = append(parts, "?("+s.p.S(x.Cond)+"){"+th+"}")
			}
		case *ir.Match:
			out := "match(" + s.p.S(x.Scrut) + "){"
			s.p.S(x)
			for i, a := range x.Arms {
				if i > 0 {
					out += "; "
				}
				out += ir.CaseName(a.Cases[0]) + ": " + s.block(a.Body, bufs)
			}
			if x.Default != nil && !x.NeverReached {
				out += "; _: " + s.block(x.Default, bufs)
			}
			parts = append(parts, out+"}")
		case *ir.App:
			if app, ok := isKey(x, bufPath+".Write"); ok && len(app.Args) == 2 && bufs[s.p.S(app.Args[0])] {
				parts = append(parts, s.str(app.Args[1]))
				continue
			}
			parts = append(parts, "!"+s.dyn(x))
		default:
			parts = append(parts, "!"+s.dyn(e))
		}
	}
	var nz []string
	for _, p := range parts {
		if p != "" {
			nz = append(nz, p)
		}
	}
	return strings.Join(nz, " ")
}

func (s *shaper) block(b *ir.Block, bufs map[string]bool) string {
	if b == nil || b.Ret == nil {
		return ""
	}
	if sq, ok := b.Ret.(*ir.Seq); ok {
		out := s.effs(sq.Effs, bufs)
		if sq.Ret != nil {
			out += " ⇒" + s.str(sq.Ret)
		}
		return out
	}
	return "⇒" + s.str(b.Ret)
}

// Template summarises the function `name` ("" if absent).
func (s *shaper) Template(name string) (string, *ir.Func) {
	fn, ok := s.f.Prog.ByName[name]
	if !ok {
		return "", nil
	}
	s.p = ir.NewPrinter(s.f.Path)
	s.lin = nil
	nf := s.ks.Func(fn)
	if sq, ok := nf.(*ir.Seq); ok {
		bufs := map[string]bool{}
		body := s.effs(sq.Effs, bufs)
		if sq.Ret == nil {
			return body, fn
		}
		if app, ok := isKey(sq.Ret, bufPath+".String"); ok && len(app.Args) == 1 && bufs[s.p.S(app.Args[0])] {
			return body, fn
		}
		return fmt.Sprintf("%s ⇒%s", body, s.str(sq.Ret)), fn
	}
	return s.str(nf), fn
}

// OperandsInClosure lists the dynamic pieces of `name` that apply one of the function's emitter callbacks (a
// function-typed parameter) to AST children and lie inside a function literal opened by the emitter's own text.
func (s *shaper) OperandsInClosure(name string) []string {
	if _, fn := s.Template(name); fn == nil {
		return nil
	}
	var res []string
	depth := 0       // brace depth inside emitted text
	var funcAt []int // brace depths at which an emitted func literal body was opened
	pendingFunc := false
	for _, pc := range s.lin {
		if pc.term == nil {
			txt := pc.lit
			for i := 0; i < len(txt); i++ {
				switch {
				case strings.HasPrefix(txt[i:], "func"):
					pendingFunc = true
				case txt[i] == '{':
					depth++
					if pendingFunc {
						funcAt = append(funcAt, depth)
						pendingFunc = false
					}
				case txt[i] == '}':
					if len(funcAt) > 0 && funcAt[len(funcAt)-1] == depth {
						funcAt = funcAt[:len(funcAt)-1]
					}
					depth--
				}
			}
			continue
		}
		if len(funcAt) == 0 {
			continue
		}
		// does the term apply a function-typed parameter (emitter callback)?
		uses := false
		ir.Walk(pc.term, func(t ir.Term) bool {
			switch x := t.(type) {
			case *ir.App:
				if p, ok := x.Fun.(*ir.Param); ok {
					if isExprEmitter(p.Obj.Type()) {
						uses = true
					}
				}
				if fr, ok := x.Fun.(*ir.FuncRef); ok && fr.Key == slicePath+".Map" && len(x.Args) == 2 {
					if p, ok := x.Args[0].(*ir.Param); ok {
						if isExprEmitter(p.Obj.Type()) {
							uses = true
						}
					}
				}
			}
			return !uses
		})
		if uses {
			res = append(res, s.p.S(pc.term))
		}
	}
	return res
}

// isExprEmitter: func(Expr) string — the callback that emits a source expression.
func isExprEmitter(t types.Type) bool {
	sig, ok := t.Underlying().(*types.Signature)
	if !ok || sig.Params().Len() != 1 {
		return false
	}
	n, ok := sig.Params().At(0).Type().(*types.Named)
	return ok && (n.Obj().Name() == "Expr" || n.Obj().Name() == "Block" || n.Obj().Name() == "Stmt")
}
