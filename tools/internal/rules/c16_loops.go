package rules

import (
	"fmt"
	"go/ast"
	"go/token"
	"go/types"
	"sort"
	"strings"

	"golang.org/x/tools/go/packages"

	"verif/tools/internal/core"
)

// C16.d — every hand-written loop exits at end of input and makes progress.
//
// For a for-statement the rule looks for a *cursor*: a local integer variable
// that every cycle increments (by a positive constant, never assigning it
// otherwise) and that every cycle compares — in the loop condition or in the
// body — against an invariant bound in a way that leaves the loop when the
// bound is reached: `E < bound` / `E >= bound` tests, end-of-input-false
// helpers (isCharAt, isStringAt), an index access buf[E] (out of range is a
// recoverable panic), or `E == bound` tests provided the cursor moves by unit
// steps between tests.  A cursor state machine (BELOW < bound, ATMOST <= bound,
// OVER) is run over every cycle path; an `==` test evaluated in state OVER can
// be jumped over and is a violation, as is a cycle without any test.

type evKind int

const (
	evInc evKind = iota
	evSet
	evGuardRobust // E<bound false / E>=bound true exits; index access; EOF-false helper
	evGuardEq     // E == bound exits
	evIncStar     // inner loop that may advance the variable
)

type loopEv struct {
	k   evKind
	v   *types.Var
	n   int64
	pos token.Pos
}

type lterm int

const (
	tFall lterm = iota
	tBack
	tExit
)

type lpath struct {
	evs  []loopEv
	term lterm
}

type loopAn struct {
	c        *Ctx
	pkg      *packages.Package
	fset     *token.FileSet
	fn       *ast.FuncDecl
	eofFalse map[string]bool // helper functions verified end-of-input-false
	over     bool            // path explosion
}

// manual table: loops whose progress is semantic.  Keyed function#ordinal.
var manualLoops = map[string]string{
	"fc.ParseList#1":      "callback loop: progress is the obligation C16.f2 — every function bound to the step returns a state advanced by at least one token or panics (discharged at every binding site by the ADV analysis)",
	"fc.ParseList2#1":     "callback loop: progress is the obligation C16.f2 — the step or the separator function advances at every binding site (ADV analysis)",
	"fc.scanSpaceToken#1": "outer loop: each true disjunct of its guard is consumed by the corresponding inner step (blanks, tabs, block comment, line comment); its end-of-input exit is checked mechanically",
	"fc.nextToken#1":      "SPACE-skipping loop: a SPACE token has positive length (previous entry), so tk.end() strictly increases; scanTokenAt returns EOF at the end",
}

func (a *loopAn) obj(id *ast.Ident) *types.Var {
	if v, ok := a.pkg.TypesInfo.Uses[id].(*types.Var); ok {
		return v
	}
	if v, ok := a.pkg.TypesInfo.Defs[id].(*types.Var); ok {
		return v
	}
	return nil
}

// vars mentioned additively in e (x, x+e, e+x, parenthesised); nil if e is not such an expression.
func (a *loopAn) additiveVars(e ast.Expr) []*types.Var {
	switch x := ast.Unparen(e).(type) {
	case *ast.Ident:
		if v := a.obj(x); v != nil {
			return []*types.Var{v}
		}
		return nil
	case *ast.BasicLit:
		return []*types.Var{}
	case *ast.BinaryExpr:
		if x.Op == token.ADD {
			l, r := a.additiveVars(x.X), a.additiveVars(x.Y)
			if l == nil || r == nil {
				return nil
			}
			return append(l, r...)
		}
		if x.Op == token.SUB {
			l := a.additiveVars(x.X)
			if _, ok := ast.Unparen(x.Y).(*ast.BasicLit); ok && l != nil {
				return l
			}
		}
	case *ast.CallExpr:
		// len(x) is a non-negative invariant term
		if id, ok := x.Fun.(*ast.Ident); ok && id.Name == "len" {
			return []*types.Var{}
		}
	}
	return nil
}

func (a *loopAn) isBound(e ast.Expr) bool {
	switch x := ast.Unparen(e).(type) {
	case *ast.Ident:
		return a.obj(x) != nil
	case *ast.CallExpr:
		if id, ok := x.Fun.(*ast.Ident); ok && id.Name == "len" && len(x.Args) == 1 {
			return true
		}
	case *ast.BinaryExpr:
		return a.isBound(x.X) && a.isBound(x.Y)
	case *ast.BasicLit:
		return true
	}
	return false
}

func guardsFor(vars []*types.Var, k evKind, pos token.Pos) []loopEv {
	var evs []loopEv
	for _, v := range vars {
		evs = append(evs, loopEv{k: k, v: v, pos: pos})
	}
	return evs
}

// indexGuards: buf[E] accesses inside e (evaluation of e panics when E is out of range).
func (a *loopAn) indexGuards(e ast.Node) []loopEv {
	var evs []loopEv
	if e == nil {
		return nil
	}
	ast.Inspect(e, func(n ast.Node) bool {
		switch x := n.(type) {
		case *ast.FuncLit:
			return false
		case *ast.IndexExpr:
			if tv, ok := a.pkg.TypesInfo.Types[x.X]; ok {
				switch tv.Type.Underlying().(type) {
				case *types.Basic, *types.Slice, *types.Array:
					if vs := a.additiveVars(x.Index); vs != nil {
						evs = append(evs, guardsFor(vs, evGuardRobust, x.Pos())...)
					}
				}
			}
		}
		return true
	})
	return evs
}

type tri int

const (
	triF tri = iota
	triT
	triU
)

// evalEOF evaluates a condition under the assumption "every additive expression over v has reached the bound".
func (a *loopAn) evalEOF(e ast.Expr, v *types.Var) tri {
	mentions := func(x ast.Expr) bool {
		for _, w := range a.additiveVars(x) {
			if w == v {
				return true
			}
		}
		return false
	}
	switch x := ast.Unparen(e).(type) {
	case *ast.BinaryExpr:
		switch x.Op {
		case token.LAND:
			l, r := a.evalEOF(x.X, v), a.evalEOF(x.Y, v)
			if l == triF || r == triF {
				return triF
			}
			if l == triT && r == triT {
				return triT
			}
			return triU
		case token.LOR:
			l, r := a.evalEOF(x.X, v), a.evalEOF(x.Y, v)
			if l == triT || r == triT {
				return triT
			}
			if l == triF && r == triF {
				return triF
			}
			return triU
		case token.LSS:
			if mentions(x.X) && a.isBound(x.Y) {
				return triF
			}
		case token.GTR:
			if mentions(x.Y) && a.isBound(x.X) {
				return triF
			}
		case token.GEQ:
			if mentions(x.X) && a.isBound(x.Y) {
				return triT
			}
		case token.LEQ:
			if mentions(x.Y) && a.isBound(x.X) {
				return triT
			}
		}
	case *ast.UnaryExpr:
		if x.Op == token.NOT {
			switch a.evalEOF(x.X, v) {
			case triF:
				return triT
			case triT:
				return triF
			}
		}
	case *ast.CallExpr:
		if id, ok := x.Fun.(*ast.Ident); ok && a.eofFalse[id.Name] && len(x.Args) >= 2 && mentions(x.Args[1]) {
			if id.Name == "isStringAt" {
				// end-of-input-false only for a non-empty constant pattern
				tv := a.pkg.TypesInfo.Types[x.Args[2]]
				if tv.Value == nil || tv.Value.ExactString() == `""` {
					return triU
				}
			}
			return triF
		}
	}
	return triU
}

// condGuards: guard events established when cond evaluates to `outcome` and the other outcome leaves the loop.
// For a loop condition the loop continues on true; for `if C { exit }` the path continues on false.
func (a *loopAn) condGuards(cond ast.Expr, continueOn bool, cands []*types.Var) []loopEv {
	var evs []loopEv
	if cond == nil {
		return nil
	}
	for _, v := range cands {
		r := a.evalEOF(cond, v)
		if (continueOn && r == triF) || (!continueOn && r == triT) {
			evs = append(evs, loopEv{k: evGuardRobust, v: v, pos: cond.Pos()})
		}
	}
	// E == bound (continue on false) / E != bound (continue on true)
	if be, ok := ast.Unparen(cond).(*ast.BinaryExpr); ok {
		if (be.Op == token.EQL && !continueOn) || (be.Op == token.NEQ && continueOn) {
			for _, side := range [][2]ast.Expr{{be.X, be.Y}, {be.Y, be.X}} {
				if vs := a.additiveVars(side[0]); len(vs) > 0 && a.isBound(side[1]) {
					for _, v := range vs {
						for _, cnd := range cands {
							if cnd == v {
								evs = append(evs, loopEv{k: evGuardEq, v: v, pos: cond.Pos()})
							}
						}
					}
					break
				}
			}
		}
	}
	return evs
}

func isPanicStmt(s ast.Stmt) bool {
	es, ok := s.(*ast.ExprStmt)
	if !ok {
		return false
	}
	call, ok := es.X.(*ast.CallExpr)
	if !ok {
		return false
	}
	id, ok := call.Fun.(*ast.Ident)
	return ok && id.Name == "panic"
}

// assigned variables of a subtree (for inner loops)
func (a *loopAn) modified(n ast.Node) (incs, sets map[*types.Var]bool) {
	incs, sets = map[*types.Var]bool{}, map[*types.Var]bool{}
	ast.Inspect(n, func(x ast.Node) bool {
		switch y := x.(type) {
		case *ast.FuncLit:
			return false
		case *ast.IncDecStmt:
			if id, ok := y.X.(*ast.Ident); ok {
				if v := a.obj(id); v != nil {
					if y.Tok == token.INC {
						incs[v] = true
					} else {
						sets[v] = true
					}
				}
			}
		case *ast.AssignStmt:
			for _, lh := range y.Lhs {
				if id, ok := lh.(*ast.Ident); ok {
					if v := a.obj(id); v != nil {
						if y.Tok == token.ADD_ASSIGN {
							incs[v] = true
						} else {
							sets[v] = true
						}
					}
				}
			}
		}
		return true
	})
	return
}

func (a *loopAn) stmtPaths(stmts []ast.Stmt, cands []*types.Var) []lpath {
	cur := []lpath{{}}
	for _, s := range stmts {
		var next []lpath
		sp := a.onePaths(s, cands)
		for _, p := range cur {
			if p.term != tFall {
				next = append(next, p)
				continue
			}
			for _, q := range sp {
				np := lpath{evs: append(append([]loopEv{}, p.evs...), q.evs...), term: q.term}
				next = append(next, np)
			}
		}
		if len(next) > 4000 {
			a.over = true
			next = next[:4000]
		}
		cur = next
	}
	return cur
}

func (a *loopAn) onePaths(s ast.Stmt, cands []*types.Var) []lpath {
	isCand := func(v *types.Var) bool {
		for _, c := range cands {
			if c == v {
				return true
			}
		}
		return false
	}
	switch x := s.(type) {
	case *ast.ExprStmt:
		if isPanicStmt(x) {
			return []lpath{{evs: a.indexGuards(x), term: tExit}}
		}
		return []lpath{{evs: a.indexGuards(x)}}
	case *ast.IncDecStmt:
		evs := a.indexGuards(x.X)
		if id, ok := x.X.(*ast.Ident); ok {
			if v := a.obj(id); v != nil && isCand(v) {
				if x.Tok == token.INC {
					evs = append(evs, loopEv{k: evInc, v: v, n: 1, pos: x.Pos()})
				} else {
					evs = append(evs, loopEv{k: evSet, v: v, pos: x.Pos()})
				}
			}
		}
		return []lpath{{evs: evs}}
	case *ast.AssignStmt:
		var evs []loopEv
		for _, rh := range x.Rhs {
			evs = append(evs, a.indexGuards(rh)...)
		}
		for i, lh := range x.Lhs {
			id, ok := lh.(*ast.Ident)
			if !ok {
				evs = append(evs, a.indexGuards(lh)...)
				continue
			}
			v := a.obj(id)
			if v == nil || !isCand(v) {
				continue
			}
			switch {
			case x.Tok == token.ADD_ASSIGN && len(x.Rhs) == 1:
				tv := a.pkg.TypesInfo.Types[x.Rhs[0]]
				if tv.Value != nil {
					var n int64
					fmt.Sscan(tv.Value.ExactString(), &n)
					if n >= 1 {
						evs = append(evs, loopEv{k: evInc, v: v, n: n, pos: x.Pos()})
						continue
					}
				}
				evs = append(evs, loopEv{k: evSet, v: v, pos: x.Pos()})
			case x.Tok == token.ASSIGN && i < len(x.Rhs):
				// x = x + c
				if be, ok := ast.Unparen(x.Rhs[i]).(*ast.BinaryExpr); ok && be.Op == token.ADD {
					if l, ok := ast.Unparen(be.X).(*ast.Ident); ok && a.obj(l) == v {
						if tv := a.pkg.TypesInfo.Types[be.Y]; tv.Value != nil {
							var n int64
							fmt.Sscan(tv.Value.ExactString(), &n)
							if n >= 1 {
								evs = append(evs, loopEv{k: evInc, v: v, n: n, pos: x.Pos()})
								continue
							}
						}
					}
				}
				evs = append(evs, loopEv{k: evSet, v: v, pos: x.Pos()})
			default:
				evs = append(evs, loopEv{k: evSet, v: v, pos: x.Pos()})
			}
		}
		return []lpath{{evs: evs}}
	case *ast.DeclStmt:
		return []lpath{{evs: a.indexGuards(x)}}
	case *ast.ReturnStmt:
		return []lpath{{evs: a.indexGuards(x), term: tExit}}
	case *ast.BranchStmt:
		switch x.Tok {
		case token.BREAK:
			if x.Label == nil {
				return []lpath{{term: tExit}}
			}
		case token.CONTINUE:
			if x.Label == nil {
				return []lpath{{term: tBack}}
			}
		}
		a.over = true
		return []lpath{{term: tExit}}
	case *ast.BlockStmt:
		return a.stmtPaths(x.List, cands)
	case *ast.IfStmt:
		var pre []loopEv
		if x.Init != nil {
			for _, p := range a.onePaths(x.Init, cands) {
				pre = append(pre, p.evs...)
			}
		}
		pre = append(pre, a.indexGuards(x.Cond)...)
		thenP := a.stmtPaths(x.Body.List, cands)
		var elseP []lpath
		switch e := x.Else.(type) {
		case nil:
			elseP = []lpath{{}}
		case *ast.BlockStmt:
			elseP = a.stmtPaths(e.List, cands)
		default:
			elseP = a.onePaths(e, cands)
		}
		allExit := func(ps []lpath) bool {
			for _, p := range ps {
				if p.term != tExit {
					return false
				}
			}
			return len(ps) > 0
		}
		var res []lpath
		// guards: the condition leaves the loop on one side
		var gThen, gElse []loopEv
		if allExit(thenP) {
			gElse = a.condGuards(x.Cond, false, cands)
		}
		if allExit(elseP) {
			gThen = a.condGuards(x.Cond, true, cands)
		}
		for _, p := range thenP {
			res = append(res, lpath{evs: append(append(append([]loopEv{}, pre...), gThen...), p.evs...), term: p.term})
		}
		for _, p := range elseP {
			res = append(res, lpath{evs: append(append(append([]loopEv{}, pre...), gElse...), p.evs...), term: p.term})
		}
		return res
	case *ast.ForStmt, *ast.RangeStmt:
		// inner loop: zero or more internally checked steps
		incs, sets := a.modified(x)
		var evs []loopEv
		if fs, ok := x.(*ast.ForStmt); ok && fs.Cond != nil {
			evs = append(evs, a.indexGuards(fs.Cond)...)
		}
		for _, v := range cands {
			if sets[v] {
				evs = append(evs, loopEv{k: evSet, v: v, pos: x.Pos()})
			} else if incs[v] {
				evs = append(evs, loopEv{k: evIncStar, v: v, pos: x.Pos()})
			}
		}
		return []lpath{{evs: evs}}
	case *ast.SwitchStmt:
		var pre []loopEv
		if x.Tag != nil {
			pre = a.indexGuards(x.Tag)
		}
		var res []lpath
		hasDefault := false
		for _, cl := range x.Body.List {
			cc := cl.(*ast.CaseClause)
			if cc.List == nil {
				hasDefault = true
			}
			for _, p := range a.stmtPaths(cc.Body, cands) {
				t := p.term
				res = append(res, lpath{evs: append(append([]loopEv{}, pre...), p.evs...), term: t})
			}
		}
		if !hasDefault {
			res = append(res, lpath{evs: pre})
		}
		return res
	case *ast.EmptyStmt:
		return []lpath{{}}
	}
	a.over = true
	return []lpath{{}}
}

type curState int

const (
	stBelow curState = iota
	stAtMost
	stOver
)

// verifyCursor checks one candidate cursor over all cycle paths.  Returns "" if verified.
func verifyCursor(v *types.Var, condEvs []loopEv, paths []lpath) string {
	filter := func(evs []loopEv) []loopEv {
		var r []loopEv
		for _, e := range evs {
			if e.v == v {
				r = append(r, e)
			}
		}
		return r
	}
	var cycles [][]loopEv
	for _, p := range paths {
		if p.term == tExit {
			continue
		}
		cycles = append(cycles, append(filter(condEvs), filter(p.evs)...))
	}
	if len(cycles) == 0 {
		return "" // the body always leaves the loop
	}
	for _, cyc := range cycles {
		inc, guard := false, false
		for _, e := range cyc {
			switch e.k {
			case evInc:
				inc = true
			case evSet:
				return "the variable is assigned (not only incremented) on a cycle"
			case evGuardEq, evGuardRobust:
				guard = true
			}
		}
		if !inc {
			return "a cycle does not increment it (no progress)"
		}
		if !guard {
			return "a cycle never compares it with the end of input"
		}
	}
	// state machine to a fixpoint over entry states
	reach := map[curState]bool{stAtMost: true}
	for changed := true; changed; {
		changed = false
		for st := range reach {
			for _, cyc := range cycles {
				s := st
				for _, e := range cyc {
					switch e.k {
					case evInc:
						if s == stBelow && e.n == 1 {
							s = stAtMost
						} else {
							s = stOver
						}
					case evIncStar:
						if s == stBelow {
							s = stAtMost // the inner loop stops at the bound at the latest (checked on its own)
						} else {
							s = stOver
						}
					case evGuardRobust:
						s = stBelow
					case evGuardEq:
						if s == stOver {
							return "an `== end` test is evaluated after the cursor may have moved more than one step past the previous test: the end of input can be jumped over"
						}
						s = stBelow
					}
				}
				if !reach[s] {
					reach[s] = true
					changed = true
				}
			}
		}
	}
	return ""
}

func (a *loopAn) checkFor(fs *ast.ForStmt, key string, pos string) {
	r := a.c.R
	// candidates: variables incremented in the loop
	incs, _ := a.modified(fs)
	var cands []*types.Var
	for v := range incs {
		cands = append(cands, v)
	}
	sort.Slice(cands, func(i, j int) bool { return cands[i].Pos() < cands[j].Pos() })
	a.over = false
	body := append([]ast.Stmt{}, fs.Body.List...)
	paths := a.stmtPaths(body, cands)
	// post statement runs on every back edge
	var postEvs []loopEv
	if fs.Post != nil {
		for _, p := range a.onePaths(fs.Post, cands) {
			postEvs = append(postEvs, p.evs...)
		}
	}
	for i := range paths {
		if paths[i].term != tExit {
			paths[i].evs = append(paths[i].evs, postEvs...)
		}
	}
	condEvs := append(a.indexGuards(fs.Cond), a.condGuards(fs.Cond, true, cands)...)
	if reason, manual := manualLoops[key]; manual {
		// progress is semantic; the end-of-input exit of the condition is still checked where a cursor exists
		if len(cands) > 0 && fs.Cond != nil {
			okExit := false
			for _, e := range condEvs {
				if e.k == evGuardRobust {
					okExit = true
				}
			}
			if strings.HasSuffix(key, "scanSpaceToken#1") {
				r.Check(okExit, "C16.d", key, "eof-exit", pos, "manual-table loop: its condition is false at end of input (checked); progress: "+reason,
					"the loop condition is not false at end of input")
				return
			}
		}
		r.OK("C16.d", key, "manual", pos, "manual table: "+reason)
		return
	}
	if a.over {
		r.Undecided("C16.d", key, "shape", pos, "loop body uses a construct the path enumeration has no transfer function for (label, goto, select, >4000 paths)")
		return
	}
	// linked-structure walk: for x.F != nil { …; x = x.F }
	if why := a.linkedWalk(fs); why != "" {
		r.OK("C16.d", key, "linked-walk", pos, why)
		return
	}
	if len(cands) == 0 {
		r.Bad("C16.d", key, "progress", pos, "no variable is incremented in this loop and it is not in the manual table: termination cannot be argued")
		return
	}
	var reasons []string
	for _, v := range cands {
		why := verifyCursor(v, condEvs, paths)
		if why == "" {
			r.OK("C16.d", key, "cursor "+v.Name(), pos, "every cycle increments "+v.Name()+" and tests it against the end of input (condition false at end of input, idx==len/idx>=len exit, or index access) with unit steps between == tests")
			return
		}
		reasons = append(reasons, v.Name()+": "+why)
	}
	r.Bad("C16.d", key, "eof-exit/progress", pos, "no cursor variable satisfies the exit-at-end-of-input and progress obligations ("+strings.Join(reasons, "; ")+"): on some input the loop does not terminate")
}

// linkedWalk recognises `for x.F != nil { … x = x.F … }` over a write-once pointer field.
func (a *loopAn) linkedWalk(fs *ast.ForStmt) string {
	be, ok := ast.Unparen(fs.Cond).(*ast.BinaryExpr)
	if !ok || be.Op != token.NEQ {
		return ""
	}
	sel, ok := ast.Unparen(be.X).(*ast.SelectorExpr)
	if !ok {
		return ""
	}
	if id, ok := ast.Unparen(be.Y).(*ast.Ident); !ok || id.Name != "nil" {
		return ""
	}
	xid, ok := sel.X.(*ast.Ident)
	if !ok {
		return ""
	}
	xv := a.obj(xid)
	// every path through the body assigns x = x.F exactly
	okAssign := false
	steps := append([]ast.Stmt{}, fs.Body.List...)
	if fs.Post != nil {
		steps = append(steps, fs.Post) // for x := s; x.F != nil; x = x.F { … }: the step in the post statement
	}
	for _, s := range steps {
		if as, ok := s.(*ast.AssignStmt); ok && as.Tok == token.ASSIGN && len(as.Lhs) == 1 && len(as.Rhs) == 1 {
			if l, ok := as.Lhs[0].(*ast.Ident); ok && a.obj(l) == xv {
				if rs, ok := as.Rhs[0].(*ast.SelectorExpr); ok && rs.Sel.Name == sel.Sel.Name {
					if ri, ok := rs.X.(*ast.Ident); ok && a.obj(ri) == xv {
						okAssign = true
					}
				}
			}
		}
	}
	if !okAssign {
		return ""
	}
	// the field is never assigned outside composite literals in this package
	fieldObj := a.pkg.TypesInfo.Selections[sel]
	if fieldObj == nil {
		return ""
	}
	written := false
	for _, f := range a.pkg.Syntax {
		ast.Inspect(f, func(n ast.Node) bool {
			if as, ok := n.(*ast.AssignStmt); ok {
				for _, lh := range as.Lhs {
					if s2, ok := lh.(*ast.SelectorExpr); ok {
						if so := a.pkg.TypesInfo.Selections[s2]; so != nil && so.Obj() == fieldObj.Obj() {
							written = true
						}
					}
				}
			}
			return true
		})
	}
	if written {
		return ""
	}
	return "linked-structure walk over field " + sel.Sel.Name + ", which is only ever set in the constructor literal (write-once ⇒ the chain is acyclic and finite)"
}

// verifyEOFHelpers checks isCharAt/isStringAt return false past the end of the buffer (closed forms).
func verifyEOFHelpers(c *Ctx, m *core.Module) map[string]bool {
	res := map[string]bool{}
	f := c.LoadFC("fc")
	if f == nil {
		return res
	}
	if nf, fn := f.NF("isCharAt"); fn != nil {
		ok := canonShape(nf) == canonShape("if((p1 >= len(p0)), false, (p0[p1] == p2))")
		c.R.Check(ok, "C16.d", "fc.isCharAt", "eof-false", c.Pos(f.M.Fset, fn.Decl.Pos()), "isCharAt returns false when the index is at or past the end", "isCharAt is not end-of-input-false: "+nf)
		res["isCharAt"] = ok
	}
	if nf, fn := f.NF("isStringAt"); fn != nil {
		ok := strings.HasPrefix(nf, "if(((p1 + len(p2)) > len(p0)), false, ")
		c.R.Check(ok, "C16.d", "fc.isStringAt", "eof-false", c.Pos(f.M.Fset, fn.Decl.Pos()), "isStringAt returns false when the (non-empty) pattern does not fit before the end", "isStringAt is not end-of-input-false: "+short(nf, 120))
		res["isStringAt"] = ok
	}
	return res
}

func checkLoops(c *Ctx) {
	r := c.R
	type unit struct {
		dir, label string
	}
	units := []unit{{"fc", "fc"}, {"pkg/slice", "slice"}, {"pkg/dict", "dict"}, {"pkg/strings", "strings"}, {"pkg/frt", "frt"}, {"pkg/buf", "buf"}, {"pkg/sys", "sys"}}
	total := 0
	for _, u := range units {
		m := c.Load(u.dir, false)
		if m == nil {
			continue
		}
		pkg := m.Main()
		var helpers map[string]bool
		if u.dir == "fc" {
			helpers = verifyEOFHelpers(c, m)
			// a hand-written predicate `func h(buf, pos, …) bool { return E }` whose E is false at the end of input
			// (by the same evaluation, with pos at the bound) is end-of-input-false like the helpers it is made of
			for round := 0; round < 2; round++ {
				for _, file := range pkg.Syntax {
					if core.IsGenerated(m.Fset.Position(file.Pos()).Filename) {
						continue
					}
					for _, d := range file.Decls {
						fd, ok := d.(*ast.FuncDecl)
						if !ok || fd.Body == nil || fd.Recv != nil || len(fd.Body.List) != 1 || helpers[fd.Name.Name] {
							continue
						}
						rs, ok := fd.Body.List[0].(*ast.ReturnStmt)
						if !ok || len(rs.Results) != 1 {
							continue
						}
						var params []*types.Var
						for _, fl := range fd.Type.Params.List {
							for _, nm := range fl.Names {
								if v, ok := pkg.TypesInfo.Defs[nm].(*types.Var); ok {
									params = append(params, v)
								}
							}
						}
						if len(params) < 2 {
							continue
						}
						if b, ok := params[1].Type().Underlying().(*types.Basic); !ok || b.Info()&types.IsInteger == 0 {
							continue
						}
						a := &loopAn{c: c, pkg: pkg, fset: m.Fset, fn: fd, eofFalse: helpers}
						if a.evalEOF(rs.Results[0], params[1]) == triF {
							helpers[fd.Name.Name] = true
						}
					}
				}
			}
		}
		for _, file := range pkg.Syntax {
			fname := m.Fset.Position(file.Pos()).Filename
			if core.IsGenerated(fname) || strings.HasSuffix(fname, "_test.go") {
				continue
			}
			for _, d := range file.Decls {
				fd, ok := d.(*ast.FuncDecl)
				if !ok || fd.Body == nil {
					continue
				}
				ord := 0
				a := &loopAn{c: c, pkg: pkg, fset: m.Fset, fn: fd, eofFalse: helpers}
				ast.Inspect(fd.Body, func(n ast.Node) bool {
					switch x := n.(type) {
					case *ast.RangeStmt:
						ord++
						total++
						key := fmt.Sprintf("%s.%s#%d", u.label, fd.Name.Name, ord)
						pos := c.Pos(m.Fset, x.Pos())
						tv := pkg.TypesInfo.Types[x.X]
						switch tv.Type.Underlying().(type) {
						case *types.Slice, *types.Array, *types.Map, *types.Basic, *types.Pointer:
							r.OK("C16.d", key, "range", pos, "range over a finite collection (length fixed at loop entry)")
						default:
							r.Undecided("C16.d", key, "range", pos, "range over "+tv.Type.String()+": no termination argument")
						}
					case *ast.ForStmt:
						ord++
						total++
						key := fmt.Sprintf("%s.%s#%d", u.label, fd.Name.Name, ord)
						a.checkFor(x, key, c.Pos(m.Fset, x.Pos()))
					}
					return true
				})
			}
		}
	}
	r.Unit("hand_written_loops", total)
}
