package rules

func checkLoops(c *Ctx) {}
