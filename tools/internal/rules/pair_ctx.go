package rules

import (
	"fmt"
	"go/token"
	"go/types"
	"sort"
	"strings"

	"verif/tools/internal/ir"
)

// PAIR.depth — absolute scope depth at variable-registration sites.
//
// PAIR's summaries are relative (Δscope of a function's result w.r.t. its own
// ParseState parameter).  A push/pop pair dropped *together* keeps every summary
// balanced, yet the names bound between them land one scope further out — for a
// pattern or parameter binder at the top of a root `let` that is the root scope,
// where it overwrites a global and changes how later definitions translate.
//
// The rule: every variable-registration site outside the definition-level family
// (let statements, type definitions, package_info — they bind in the scope
// current at the statement, which is the root scope at top level by design)
// executes at scope depth ≥ 1 relative to the top-level statement, on every call
// path.  Depths are propagated top-down from the entries over resolved calls;
// a callback's application depth is taken relative to the function that applies
// it (cbRel) and added at each site that binds a function value to it, so the
// propagation is context-sensitive in the one dimension that matters.

const infDepth = 1 << 20

type binderSite struct {
	fn     *ir.Func
	callee string
	pos    token.Pos
	min    int
	unres  string
}

type pairCtx struct {
	binderFns map[string]int // function key -> index of its Scope argument
	cbRel     map[string]int // "fnKey#i" -> min Δscope (relative to fn's entry) at which fn applies its callback parameter i
	entry     map[string]int // function key -> min absolute scope depth of its ParseState parameter
	sites     map[token.Pos]*binderSite
	changed   bool
	mute      int
	diverged  bool
}

func (cx *pairCtx) lower(m map[string]int, k string, v int) {
	if v < -40 {
		cx.diverged = true
		return
	}
	if old, ok := m[k]; !ok || v < old {
		m[k] = v
		cx.changed = true
	}
}

func (a *pairAn) isScope(t types.Type) bool {
	t = types.Unalias(t)
	if p, ok := t.(*types.Pointer); ok {
		t = p.Elem()
	}
	n, ok := t.(*types.Named)
	return ok && n.Obj().Name() == "scopeImpl" && n.Obj().Pkg() != nil && n.Obj().Pkg().Path() == a.f.Path
}

// definition-level registration: may execute in the root scope (one reason each)
var rootBinderFamily = map[string]string{
	"parseRootLet":       "registers the top-level definition itself",
	"parseLetOneVarDef":  "let x = …: binds in the scope current at the let (root scope for a top-level let)",
	"parseLetDestVarDef": "let (a, b) = …: binds in the scope current at the let",
	"piRegFF":            "package_info declarations are root-level by design",
	"parsePackageInfo":   "package_info declarations are root-level by design",
	"psRegMdTypes":       "type definitions are registered in the root scope once their group is parsed",
	"psRegUdToTDCtx":     "union constructors are registered where the type is defined (root)",
}

// cxSite records a registration through binder function `name` whose Scope argument is the term sc.
func (a *pairAn) cxSite(name string, pos token.Pos, sc ir.Term, env penv) {
	cx := a.cx
	if cx == nil || cx.mute > 0 {
		return
	}
	s := cx.sites[pos]
	if s == nil {
		s = &binderSite{fn: a.cur, callee: name, pos: pos, min: infDepth}
		cx.sites[pos] = s
	}
	switch x := sc.(type) {
	case *ir.Field:
		if x.Name == "scope" {
			v := a.eval(x.X, env)
			if v.k == pkPS {
				if base, ok := cx.entry[a.cur.Key]; ok {
					if base+v.d.s < s.min {
						s.min = base + v.d.s
						cx.changed = true
					}
				}
				return
			}
			if v.k == pkBot {
				return
			}
		}
	case *ir.Param:
		return // a wrapper: its own call sites are the sites
	}
	s.unres = "the scope argument " + ir.String(a.f.Path, sc) + " is not the scope of a tracked parse state"
}

// cxCall is invoked for every resolved call while the context pass runs.
func (a *pairAn) cxCall(f *ir.FuncRef, sig *types.Signature, args []pval) {
	cx := a.cx
	if cx == nil || cx.mute > 0 || sig == nil {
		return
	}
	rel, has := 0, false
	special := false
	switch f.Key {
	case a.f.Path + ".ParseList", a.f.Path + ".ParseList2":
		special = true
		if len(args) > 0 && args[len(args)-1].k == pkPS {
			rel, has = args[len(args)-1].d.s, true
		}
	case slicePath + ".Fold":
		special = true
		if len(args) == 3 {
			if d, ok := firstDelta(args[1]); ok {
				rel, has = d.s, true
			}
		}
	default:
		if pi, ok := a.psParam[f.Key]; ok && pi >= 0 && pi < len(args) && args[pi].k == pkPS {
			rel, has = args[pi].d.s, true
		} else {
			for _, x := range args {
				if d, ok := firstDelta(x); ok {
					rel, has = d.s, true
					break
				}
			}
		}
	}
	_, known := a.f.Prog.ByKey[f.Key]
	if known && has {
		if base, ok := cx.entry[a.cur.Key]; ok {
			cx.lower(cx.entry, f.Key, base+rel)
		}
	}
	for i := 0; i < sig.Params().Len() && i < len(args); i++ {
		psig, ok := sig.Params().At(i).Type().Underlying().(*types.Signature)
		if !ok || args[i].k != pkFn {
			continue
		}
		takesPS := false
		for j := 0; j < psig.Params().Len(); j++ {
			if hasPS(a.shapeOf(psig.Params().At(j).Type(), delta{})) {
				takesPS = true
			}
		}
		if !takesPS {
			if _, isParam := args[i].fn.(*ir.Param); !known && !isParam {
				// a closure handed to a library combinator (slice.Iter, slice.Map …): its body runs with the captured states
				var xs []pval
				for j := 0; j < psig.Params().Len(); j++ {
					xs = append(xs, a.shapeOf(psig.Params().At(j).Type(), delta{}))
				}
				a.applyFn(args[i], xs)
			}
			continue
		}
		r := 0
		if known && !special {
			v, ok := cx.cbRel[fmt.Sprintf("%s#%d", f.Key, i)]
			if !ok {
				continue // the callee does not apply it (or not yet known)
			}
			r = v
		} else if !has {
			continue
		}
		a.cxApply(args[i], psig, rel+r)
	}
}

// cxApply: the function value fv (created in the current function) is applied to a state at Δscope d relative to the current function's entry.
func (a *pairAn) cxApply(fv pval, psig *types.Signature, d int) {
	cx := a.cx
	if p, ok := fv.fn.(*ir.Param); ok {
		cx.lower(cx.cbRel, fmt.Sprintf("%s#%d", a.cur.Key, p.Idx), d)
		return
	}
	var args []pval
	for j := 0; j < psig.Params().Len(); j++ {
		args = append(args, a.shapeOf(psig.Params().At(j).Type(), delta{s: d}))
	}
	a.applyFn(fv, args)
}

// cxParamApplied: callback parameter p of the current function is applied directly.
func (a *pairAn) cxParamApplied(p *ir.Param, args []pval) {
	cx := a.cx
	if cx == nil || cx.mute > 0 {
		return
	}
	for _, x := range args {
		if d, ok := firstDelta(x); ok {
			cx.lower(cx.cbRel, fmt.Sprintf("%s#%d", a.cur.Key, p.Idx), d.s)
			return
		}
	}
}

// runPairDepth runs the context pass and reports PAIR.depth.
func (a *pairAn) runPairDepth(fns []*ir.Func) {
	a.runPairDepthWith(fns, "PAIR.depth", "pattern and parameter binders never land in the root scope: every variable-registration site outside the definition-level family executes at scope depth ≥ 1 on every call path from the top-level statement parser",
		nil, "this binder can be registered at scope depth %d — the root scope — when the construct is reached from a top-level let without an intervening scope push: the bound name then replaces a global of the same name and later definitions (and later files) translate differently")
	// the same propagation, with the depth re-based to 0 at every entry of the expression parser: relative to the
	// nearest enclosing expression a lambda parameter, a pattern binder or a local function's parameter sits at
	// depth ≥ 1 — it never lands in the scope that was current when that expression started, where it would
	// shadow (and retype) the enclosing definition's names for the rest of the block
	a.runPairDepthWith(fns, "PAIR.own", "binders of an expression (lambda parameters, pattern binders, parameters and own name of a local function) are registered in a scope opened inside that expression: depth ≥ 1 relative to the nearest enclosing entry of the expression parser, on every call path",
		[]string{"parseExpr", "parseExprWithPrec", "parseTerm"}, "this binder can be registered at depth %d relative to the enclosing expression — in the scope that was current when the expression started: a lambda parameter or pattern variable then stays visible after its construct and replaces (and retypes) a name of the enclosing definition")
}

func (a *pairAn) runPairTypeParams(fns []*ir.Func) {
	a.runPairDepthFor(fns, "PAIR.tparam", "type-parameter names never land in the root scope: every registration of a type name outside the definition-level family (type definitions, package_info types) executes at scope depth ≥ 1 on every call path from the top-level statement parser",
		nil, "this type name can be registered at scope depth %d — the root scope: a type parameter (T) of one declaration then replaces a user type of the same name for every later definition and every later file",
		[]string{"scRegisterType", "scRegisterTypeFac"}, rootTypeBinderFamily, 1, "the type-variable registration regTypeVar (≥1)")
}

func (a *pairAn) runPairDepthWith(fns []*ir.Func, rule, title string, extraEntries []string, badFmt string) {
	a.runPairDepthFor(fns, rule, title, extraEntries, badFmt, []string{"scDefVar", "scRegisterVarFac"}, rootBinderFamily, 6,
		"parameter (2), union-pattern, string-pattern, own-name and local-function binders (≥6)")
}

// definition-level registration of TYPE names
var rootTypeBinderFamily = map[string]string{
	"piRegAll":           "package_info declarations are root-level by design",
	"parsePackageInfo":   "package_info declarations are root-level by design",
	"scRegTFData":        "package_info types are root-level by design",
	"psRegMdTypes":       "type definitions are registered in the root scope once their group is parsed",
	"psRegUdToTDCtx":     "a union is pre-registered where it is defined (root) so that its cases can refer to it",
	"psRegRecDefToTDCtx": "a record is pre-registered where it is defined (root) so that its fields can refer to it",
}

func (a *pairAn) runPairDepthFor(fns []*ir.Func, rule, title string, extraEntries []string, badFmt string, binders []string, family map[string]string, minInner int, innerWhat string) {
	c, f, r := a.c, a.f, a.c.R
	r.Rule(rule, title, 1)
	cx := &pairCtx{binderFns: map[string]int{}, cbRel: map[string]int{}, entry: map[string]int{}, sites: map[token.Pos]*binderSite{}}
	for _, b := range binders {
		if _, ok := f.Prog.ByName[b]; !ok {
			r.Undecided(rule, b, "binder-function", "fc", "anchor function not found (renamed or removed)")
		}
		cx.binderFns[f.Path+"."+b] = 0
	}
	// wrappers: a Scope parameter handed on as the scope argument of a binder function
	for changed := true; changed; {
		changed = false
		for _, fn := range f.Prog.Funcs {
			if _, ok := cx.binderFns[fn.Key]; ok {
				continue
			}
			ir.WalkFunc(fn, func(t ir.Term) bool {
				var fr *ir.FuncRef
				var xs []ir.Term
				switch x := t.(type) {
				case *ir.App:
					fr, _ = x.Fun.(*ir.FuncRef)
					xs = x.Args
				case *ir.PApp:
					fr, _ = x.Fun.(*ir.FuncRef)
					xs = x.First
				}
				if fr == nil {
					return true
				}
				if idx, ok := cx.binderFns[fr.Key]; ok && idx < len(xs) {
					if p, ok := xs[idx].(*ir.Param); ok && a.isScope(p.Obj.Type()) {
						if _, done := cx.binderFns[fn.Key]; !done {
							cx.binderFns[fn.Key] = p.Idx
							changed = true
						}
					}
				}
				return true
			})
		}
	}
	for _, name := range []string{"ParseAll", "parseRootOneStmt", "parseRootStmts"} {
		if fn, ok := f.Prog.ByName[name]; ok {
			cx.entry[fn.Key] = 0
		}
	}
	for _, name := range extraEntries {
		if fn, ok := f.Prog.ByName[name]; ok {
			cx.entry[fn.Key] = 0
		} else {
			r.Undecided(rule, name, "entry", "fc", "anchor function not found (renamed or removed)")
		}
	}
	// every syntactic site is an obligation, visited by the pass or not
	for _, fn := range f.Prog.Funcs {
		fn := fn
		ir.Walk(f.N.Func(fn), func(t ir.Term) bool {
			var fr *ir.FuncRef
			var xs []ir.Term
			switch x := t.(type) {
			case *ir.App:
				fr, _ = x.Fun.(*ir.FuncRef)
				xs = x.Args
			case *ir.PApp:
				fr, _ = x.Fun.(*ir.FuncRef)
				xs = x.First
			}
			if fr == nil {
				return true
			}
			if idx, ok := cx.binderFns[fr.Key]; ok && idx < len(xs) {
				if _, isParam := xs[idx].(*ir.Param); !isParam {
					cx.sites[t.Pos()] = &binderSite{fn: fn, callee: strings.TrimPrefix(fr.Key, f.Path+"."), pos: t.Pos(), min: infDepth}
				}
			}
			return true
		})
	}
	a.cx = cx
	saved := a.report
	a.report = false
	all := append([]*ir.Func{}, fns...)
	// functions that register but do not thread a state themselves still need their sites visited
	inFns := map[string]bool{}
	for _, fn := range fns {
		inFns[fn.Key] = true
	}
	for _, fn := range f.Prog.Funcs {
		if !inFns[fn.Key] && a.psParam[fn.Key] >= 0 {
			all = append(all, fn)
		}
	}
	for iter := 0; ; iter++ {
		cx.changed = false
		for _, fn := range all {
			a.cur = fn
			a.eval(f.N.Func(fn), penv{})
		}
		if !cx.changed || cx.diverged || iter > 200 {
			if cx.changed {
				cx.diverged = true
			}
			break
		}
	}
	a.cx = nil
	a.report = saved
	if cx.diverged {
		r.Undecided(rule, "-", "fixpoint", "fc", "the depth propagation did not stabilise (a call cycle with a negative net scope depth)")
		return
	}
	// report, keyed by function + binder + ordinal in source order
	var list []*binderSite
	for _, s := range cx.sites {
		list = append(list, s)
	}
	sort.Slice(list, func(i, j int) bool { return list[i].pos < list[j].pos })
	ord := map[string]int{}
	inner := 0
	referenced := map[string]bool{}
	for _, fn := range f.Prog.Funcs {
		ir.WalkFunc(fn, func(t ir.Term) bool {
			if fr, ok := t.(*ir.FuncRef); ok && fr.Key != fn.Key {
				referenced[fr.Key] = true
			}
			return true
		})
	}
	for _, s := range list {
		k := s.fn.Name + "|" + s.callee
		ord[k]++
		cons := fmt.Sprintf("%s#%d", s.callee, ord[k])
		pos := c.Pos(f.M.Fset, s.pos)
		why, exempt := family[s.fn.Name]
		switch {
		case s.unres != "":
			r.Undecided(rule, s.fn.Name, cons, pos, s.unres)
		case exempt:
			d := "unreached"
			if s.min < infDepth {
				d = fmt.Sprint(s.min)
			}
			r.OK(rule, s.fn.Name, cons, pos, "definition-level registration ("+why+"); minimum depth "+d)
		case s.min >= infDepth && !referenced[s.fn.Key]:
			r.OK(rule, s.fn.Name, cons, pos, "the enclosing function is referenced nowhere in the program (dead code)")
		case s.min >= infDepth:
			r.Undecided(rule, s.fn.Name, cons, pos, "no call path from the top-level statement parser reaches this registration through resolved calls and bound callbacks — its scope depth is unknown")
		case s.min >= 1:
			inner++
			r.OK(rule, s.fn.Name, cons, pos, fmt.Sprintf("minimum scope depth over all call paths is %d ≥ 1", s.min))
		default:
			inner++
			r.Bad(rule, s.fn.Name, cons, pos, fmt.Sprintf(badFmt, s.min))
		}
	}
	if rule == "PAIR.depth" {
		r.Unit("binder_sites", len(list))
		r.Unit("binder_sites_inner", inner)
	}
	if inner < minInner {
		r.Undecided(rule, "-", "sites", "fc", sprintf("%d inner binder sites found; %s were confirmed by hand", inner, innerWhat))
	}
	var ws []string
	for k := range cx.binderFns {
		ws = append(ws, strings.TrimPrefix(k, f.Path+"."))
	}
	sort.Strings(ws)
	r.Note(rule+": binder functions (scope argument tracked): %s", strings.Join(ws, ", "))
}
