package rules

import (
	"go/ast"
	"go/token"
)

// countConcurrency counts go statements, select statements, channel sends/receives.
func countConcurrency(n ast.Node) int {
	c := 0
	ast.Inspect(n, func(x ast.Node) bool {
		switch y := x.(type) {
		case *ast.GoStmt, *ast.SelectStmt, *ast.SendStmt:
			c++
		case *ast.UnaryExpr:
			if y.Op == token.ARROW {
				c++
			}
		case *ast.ChanType:
			c++
		}
		return true
	})
	return c
}
