package rules

import (
	"go/ast"
	"go/parser"
	"go/token"
	"strconv"
)

// countConcurrency counts go statements, select statements, channel sends/receives.
func countConcurrency(n ast.Node) int {
	c := 0
	ast.Inspect(n, func(x ast.Node) bool {
		switch y := x.(type) {
		case *ast.GoStmt, *ast.SelectStmt, *ast.SendStmt:
			c++
		case *ast.UnaryExpr:
			if y.Op == token.ARROW {
				c++
			}
		case *ast.ChanType:
			c++
		}
		return true
	})
	return c
}

// parserParseImports returns the import paths of a Go file.
func parserParseImports(fset *token.FileSet, path string) ([]string, error) {
	f, err := parser.ParseFile(fset, path, nil, parser.ImportsOnly)
	if err != nil {
		return nil, err
	}
	var res []string
	for _, im := range f.Imports {
		if p, err := strconv.Unquote(im.Path.Value); err == nil {
			res = append(res, p)
		}
	}
	return res, nil
}
