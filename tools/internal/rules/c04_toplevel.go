package rules

import (
	"os"
	"path/filepath"

	"verif/tools/internal/core"
	"verif/tools/internal/fo"
)

// (g) top-level shape.  A necessary condition of "fc translates this file again": the file is a sequence of
// top-level items.  Decided on the checker's own token stream (comments removed exactly as fc's lexer removes
// them: a block comment ends at the FIRST "*/"):
//
//	g1  every line-leading token in column 0 opens an item (package/import/package_info/type/let) or, inside a
//	    type item, continues it (`|`, `and`, `}`) — text that
//	    fell out of a comment or a mis-indented continuation is not an item;
//	g2  no "*" immediately followed by "/" outside comments and strings — the closing mark of a comment that
//	    had already been closed earlier (no Folang expression contains that pair);
//	g3  a package_info item is `package_info NAME =` followed only by `let NAME[<..>] : …` / `type NAME[<..>]`
//	    lines (fc rejects anything else with "Unknown pkginfo def").
func checkTopLevelShape(r *core.Report, label string, toks []fo.Tok) {
	bad := 0
	lineLead := true
	// the kind of the item a token belongs to (a type item continues in column 0 with `|`, `and`, `}`)
	inType := map[int]bool{}
	for _, seg := range fo.Segments(toks) {
		if seg.Kind == "type" {
			for _, t := range seg.Toks {
				inType[t.Off] = true
			}
		}
	}
	for i, t := range toks {
		if t.Kind == fo.EOF {
			break
		}
		if t.Kind == fo.EOL {
			lineLead = true
			continue
		}
		if lineLead && t.Col == 0 && !(t.Kind == fo.IDENT && fo.IsTopKeyword(t.Text)) &&
			!(inType[t.Off] && (t.Text == "|" || t.Text == "and" || t.Text == "}")) {
			bad++
			r.Bad("C04.g", label, sprintf("column-0@%d", t.Line), sprintf("%s:%d", label, t.Line),
				sprintf("line %d starts in column 0 with %q, which opens no top-level item (package/import/package_info/type/let): stray text — e.g. the tail of a comment that was closed earlier than intended — that fc's parser rejects", t.Line, t.Text))
		}
		lineLead = false
		if t.Text == "*" && i+1 < len(toks) && toks[i+1].Text == "/" && toks[i+1].Off == t.Off+1 {
			bad++
			r.Bad("C04.g", label, sprintf("stray-comment-end@%d", t.Line), sprintf("%s:%d", label, t.Line),
				sprintf("`*/` outside any comment at line %d: the block comment it was meant to close ended at an earlier `*/` (fc's lexer closes a comment at the first one), so the text in between is read as code", t.Line))
		}
	}
	nInfo := 0
	for _, seg := range fo.Segments(toks) {
		if seg.Kind != "package_info" {
			continue
		}
		nInfo++
		// lines
		var lines [][]fo.Tok
		var cur []fo.Tok
		for _, t := range seg.Toks {
			if t.Kind == fo.EOL {
				if len(cur) > 0 {
					lines = append(lines, cur)
				}
				cur = nil
				continue
			}
			cur = append(cur, t)
		}
		if len(cur) > 0 {
			lines = append(lines, cur)
		}
		for k, ln := range lines {
			ok := false
			if k == 0 {
				ok = len(ln) == 3 && ln[1].Kind == fo.IDENT && ln[2].Text == "="
			} else {
				switch {
				case len(ln) >= 2 && ln[0].Text == "type" && ln[1].Kind == fo.IDENT:
					ok = true
				case len(ln) >= 4 && ln[0].Text == "let" && ln[1].Kind == fo.IDENT:
					// `:` directly or after the type parameter list
					j := 2
					if ln[j].Text == "<" {
						for j < len(ln) && ln[j].Text != ">" {
							j++
						}
						j++
					}
					ok = j < len(ln)-1 && ln[j].Text == ":"
				}
			}
			if !ok {
				bad++
				r.Bad("C04.g", label, sprintf("package_info@%d", ln[0].Line), sprintf("%s:%d", label, ln[0].Line),
					sprintf("line %d inside a package_info item is neither `let NAME: type` nor `type NAME` (fc: \"Unknown pkginfo def\")", ln[0].Line))
			}
		}
	}
	if bad == 0 {
		r.OK("C04.g", label, "top-level-shape", label, sprintf("all column-0 lines open items, no stray comment terminator, %d package_info item(s) hold only declaration lines", nInfo))
	}
}

// checkFoiShapes applies (g) to the interface files fc reads during regeneration.
func checkFoiShapes(c *Ctx) {
	root := c.Repo.Root
	files, _ := filepath.Glob(filepath.Join(root, "pkg", "*", "*.foi"))
	files = append(files, filepath.Join(root, "pkg", "pkg_all.foi"))
	for _, f := range files {
		rel, _ := filepath.Rel(root, f)
		src, err := os.ReadFile(f)
		if err != nil {
			c.R.Undecided("C04.g", rel, "read", rel, err.Error())
			continue
		}
		toks, err := fo.Tokenize(string(src))
		if err != nil {
			c.R.Bad("C04.g", rel, "tokenize", rel, "does not tokenise: "+err.Error())
			continue
		}
		checkTopLevelShape(c.R, rel, toks)
	}
}
