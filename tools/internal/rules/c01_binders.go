package rules

import (
	"go/types"
	"strings"

	"verif/tools/internal/ir"
)

// C01.m — a binder's name is the name written in the source.
//
// The parser builds AST nodes that carry binder names (a match pattern's variable, let-bound variables,
// parameters).  The emitters print those names verbatim and the scope analysis registers them (PAIR.depth), so
// lexical scoping in the emitted Go is the source's scoping only if the name stored in the node is the token's
// text — in particular, not something chosen after looking at the construct's body ("this variable looks unused,
// call it _": a use the analysis does not see — a `$"…{v}…"` hole — then refers to an outer variable of the same
// name, or to nothing).  Rule: in every state-threading function, the value given to a name-carrying field
// (UnionMatchPattern.VarName, Var.Name) contains no parse result of a body: no application of a parser callback
// and no call whose result carries a Block or an Expr.
// binderNameProvenanceOK: t is the text of an identifier token (psIdentName, #1(psIdentNameNx)), a parameter, the
// name field of an existing node, a literal ("_", ""), a constructor name (csConstructorName) or a compiler
// temporary (uniqueTmpVarName) — or a choice between such values.  Anything else is a name the compiler made up
// from the source name: text that refers to the variable by its spelling (a `{x}` hole of an interpolated literal, a
// GoEval) would then refer to something else.
func binderNameProvenanceOK(f *FC, t ir.Term, depth int) bool {
	if depth > 6 {
		return false
	}
	switch x := t.(type) {
	case *ir.Param, *ir.Lit, *ir.Local:
		return true
	case *ir.Field:
		return x.Name == "Name" || x.Name == "VarName" || x.Name == "CaseId"
	case *ir.App:
		if fr, ok := x.Fun.(*ir.FuncRef); ok {
			switch strings.TrimPrefix(fr.Key, f.Path+".") {
			case "psIdentName", "psStringVal":
				// the identifier at a position reached by consuming specific tokens only
				return len(x.Args) == 1 && identStateOK(f, x.Args[0], 0)
			case "csConstructorName", "uniqueTmpVarName":
				return true
			}
		}
		return false
	case *ir.Proj:
		switch y := x.X.(type) {
		case *ir.App:
			if fr, ok := y.Fun.(*ir.FuncRef); ok {
				switch strings.TrimPrefix(fr.Key, f.Path+".") {
				case "psIdentNameNx", "psIdentOrUSNameNx", "psIdentNameNxL", "psStringValNx":
					return x.I == 1 && len(y.Args) == 1 && identStateOK(f, y.Args[0], 0)
				}
			}
		case *ir.Tuple:
			if x.I < len(y.Elems) {
				return binderNameProvenanceOK(f, y.Elems[x.I], depth+1)
			}
		case *ir.Match:
			ok := true
			each := func(b *ir.Block) {
				if b != nil && b.Ret != nil && !binderNameProvenanceOK(f, &ir.Proj{X: b.Ret, I: x.I}, depth+1) {
					ok = false
				}
			}
			for _, a := range y.Arms {
				each(a.Body)
			}
			each(y.Default)
			return ok
		case *ir.If:
			ok := true
			for _, b := range []*ir.Block{y.Then, y.Else} {
				if b != nil && b.Ret != nil && !binderNameProvenanceOK(f, &ir.Proj{X: b.Ret, I: x.I}, depth+1) {
					ok = false
				}
			}
			return ok
		}
		return false
	case *ir.Match:
		ok := true
		for _, a := range x.Arms {
			if a.Body != nil && a.Body.Ret != nil && !binderNameProvenanceOK(f, a.Body.Ret, depth+1) {
				ok = false
			}
		}
		if x.Default != nil && x.Default.Ret != nil && !binderNameProvenanceOK(f, x.Default.Ret, depth+1) {
			ok = false
		}
		return ok
	case *ir.If:
		ok := true
		for _, b := range []*ir.Block{x.Then, x.Else} {
			if b != nil && b.Ret != nil && !binderNameProvenanceOK(f, b.Ret, depth+1) {
				ok = false
			}
		}
		return ok
	}
	return false
}

// identStateOK: the state an identifier is read from was reached from a parameter by consuming specific tokens
// (psConsume / psMulConsume), opening the scope, skipping line ends, or reading a preceding identifier — not
// through a function that decides by itself how many tokens to skip (a "skip an optional keyword" helper makes an
// identifier that happens to spell that keyword disappear from the name).
func identStateOK(f *FC, t ir.Term, depth int) bool {
	if depth > 8 {
		return false
	}
	switch x := t.(type) {
	case *ir.Param, *ir.Local:
		return true
	case *ir.App:
		fr, ok := x.Fun.(*ir.FuncRef)
		if !ok || len(x.Args) == 0 {
			return false
		}
		switch strings.TrimPrefix(fr.Key, f.Path+".") {
		case "psConsume", "psMulConsume":
			return len(x.Args) == 2 && identStateOK(f, x.Args[1], depth+1)
		case "psPushScope", "psPushOffside", "psSkipEOL", "psNext", "psNextNOL":
			return identStateOK(f, x.Args[0], depth+1)
		}
		return false
	case *ir.Proj:
		if y, ok := x.X.(*ir.App); ok && x.I == 0 {
			if fr, ok := y.Fun.(*ir.FuncRef); ok && len(y.Args) == 1 {
				switch strings.TrimPrefix(fr.Key, f.Path+".") {
				case "psIdentNameNx", "psIdentOrUSNameNx":
					return identStateOK(f, y.Args[0], depth+1)
				}
			}
		}
		return false
	}
	return false
}

func checkBinderNames(c *Ctx, f *FC) {
	r := c.R
	info := f.M.Main().TypesInfo
	isPS := func(t types.Type) bool {
		n, ok := t.(*types.Named)
		return ok && n.Obj().Name() == "ParseState" && n.Obj().Pkg() != nil && n.Obj().Pkg().Path() == f.Path
	}
	var carriesBody func(t types.Type, depth int) bool
	carriesBody = func(t types.Type, depth int) bool {
		if t == nil || depth > 4 {
			return false
		}
		switch x := t.(type) {
		case *types.Named:
			if x.Obj().Pkg() != nil && x.Obj().Pkg().Path() == f.Path && (x.Obj().Name() == "Block" || x.Obj().Name() == "Expr") {
				return true
			}
			for i := 0; i < x.TypeArgs().Len(); i++ {
				if carriesBody(x.TypeArgs().At(i), depth+1) {
					return true
				}
			}
		case *types.Slice:
			return carriesBody(x.Elem(), depth+1)
		}
		return false
	}
	nameFields := map[string]string{"UnionMatchPattern": "VarName", "Var": "Name"}
	sites := 0
	for _, fn := range f.Prog.Funcs {
		if !fn.Generated {
			continue
		}
		hasPS := false
		for _, p := range fn.Params {
			if isPS(p.Type()) {
				hasPS = true
			}
		}
		if !hasPS {
			continue
		}
		fn := fn
		pos := c.Pos(f.M.Fset, fn.Decl.Pos())
		n := map[string]int{}
		ir.Walk(f.N.Func(fn), func(t ir.Term) bool {
			rec, ok := t.(*ir.Record)
			if !ok {
				return true
			}
			named, ok := rec.Type.(*types.Named)
			if !ok {
				return true
			}
			field, ok := nameFields[named.Obj().Name()]
			if !ok {
				return true
			}
			for _, fv := range rec.Fields {
				if fv.Name != field {
					continue
				}
				sites++
				key := named.Obj().Name() + "." + field
				n[key]++
				bad := ""
				ir.Walk(fv.Val, func(x ir.Term) bool {
					app, ok := x.(*ir.App)
					if !ok || bad != "" {
						return bad == ""
					}
					if p, ok := app.Fun.(*ir.Param); ok {
						if sig, ok := p.Obj.Type().Underlying().(*types.Signature); ok && sig.Results().Len() == 1 && carriesBody(sig.Results().At(0).Type(), 0) {
							bad = "the result of the parser callback " + p.Obj.Name()
						}
					}
					if app.Call != nil && carriesBody(info.TypeOf(app.Call), 0) {
						bad = "the result of " + short(ir.String(f.Path, app.Fun), 40)
					}
					return bad == ""
				})
				// provenance: the name is the identifier the lexer read (or a name the compiler owns)
				if bad == "" && !binderNameProvenanceOK(f, fv.Val, 0) {
					bad = "a computed value (" + short(ir.String(f.Path, fv.Val), 100) + ") rather than the identifier read from the source, a parameter, the name of an existing variable, a constructor name or a compiler temporary"
				}
				r.Check(bad == "", "C01.m", fn.Name, sprintf("%s#%d", key, n[key]), pos, "the name comes from the tokens before the body",
					"the binder name stored in "+key+" depends on "+bad+" — a parsed body: the name in the AST is no longer the name written in the source, so a use the deciding analysis does not see (a string-interpolation hole, a GoEval) binds differently in the emitted Go")
			}
			return true
		})
	}
	r.Unit("binder_name_sites", sites)
	if sites < 6 {
		r.Undecided("C01.m", "-", "sites", "fc", sprintf("%d binder-name constructions found in the parser; at least 6 were confirmed by hand", sites))
	}
	_ = strings.TrimSpace
}
