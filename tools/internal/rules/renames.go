package rules

import (
	"sort"
	"strings"

	"verif/tools/internal/ir"
)

// Rename recovery.  Every rule anchors on function names (pins, frozen tables, known findings).  Renaming a function
// is the commonest behaviour-preserving refactoring, and without help it would turn every anchor on that function —
// and every closed form that mentions it — into an alarm.  When a reviewed generated function is gone and a
// function that did not exist at the review has, under the old name, exactly the reviewed normal form (digest table
// of C01.n), the new function IS the old one under a new name: it is given the old name inside the model (its key,
// every reference to it), so that every rule sees the program it reviewed.  Nothing is assumed: the identification
// is by the function's whole normal form; a renamed function whose body also changed is not recovered and is
// reported through its anchors as before.
func recoverRenames(c *Ctx, prog *ir.Program, path string, mkNorm func(skip string) *ir.Normalizer) {
	base, ok := baselineFuncs["fc"]
	if !ok {
		return
	}
	var missing []string
	for name := range c01ReviewedNF {
		if _, ok := prog.ByName[name]; !ok {
			missing = append(missing, name)
		}
	}
	var news []*ir.Func
	for _, g := range prog.Funcs {
		if g.Generated && g.Decl != nil && g.Decl.Recv == nil && !base[g.Name] {
			news = append(news, g)
		}
	}
	if len(missing) == 0 || len(news) == 0 {
		return
	}
	sort.Strings(missing)
	// references to each new function
	refs := map[string][]*ir.FuncRef{}
	for _, fn := range prog.Funcs {
		ir.WalkFunc(fn, func(t ir.Term) bool {
			if fr, ok := t.(*ir.FuncRef); ok {
				refs[fr.Key] = append(refs[fr.Key], fr)
			}
			return true
		})
	}
	defer func() {
		// second chance, by position in the call graph: a reviewed function that is gone, and exactly one new function
		// that every surviving reviewed caller of it now refers to, are the same function renamed AND edited.  It is
		// analysed under the old name; its edited body is then compared with the reviewed forms like any other edit.
		recoverRenamesByCallers(c, prog, path)
	}()
	taken := map[string]bool{}
	done := map[*ir.Func]bool{}
	// repeat: a renamed function that calls another renamed function matches only after the callee was recovered
	for progress := true; progress; {
		progress = false
		for _, g := range news {
			if done[g] {
				continue
			}
			if recoverOne(c, prog, path, mkNorm, g, missing, taken, refs) {
				done[g] = true
				progress = true
			}
		}
	}
}

func recoverOne(c *Ctx, prog *ir.Program, path string, mkNorm func(skip string) *ir.Normalizer, g *ir.Func, missing []string, taken map[string]bool, refs map[string][]*ir.FuncRef) bool {
	{
		oldKey, oldName := g.Key, g.Name
		var match []string
		for _, fname := range missing {
			if taken[fname] {
				continue
			}
			newKey := path + "." + fname
			for _, fr := range refs[oldKey] {
				fr.Key = newKey
			}
			g.Key, g.Name = newKey, fname
			tmp := &FC{Prog: prog, N: mkNorm(newKey), Path: path, nf: map[string]string{}}
			d := nfDigest(tmp, g)
			for _, fr := range refs[oldKey] {
				fr.Key = oldKey
			}
			g.Key, g.Name = oldKey, oldName
			if d == c01ReviewedNF[fname] {
				match = append(match, fname)
			}
		}
		if len(match) != 1 {
			return false
		}
		fname := match[0]
		taken[fname] = true
		newKey := path + "." + fname
		for _, fr := range refs[oldKey] {
			fr.Key = newKey
		}
		g.Key, g.Name = newKey, fname
		delete(prog.ByName, oldName)
		prog.ByName[fname] = g
		prog.ByKey[newKey] = g
		c.R.Note("rename recovered: the function now called %s has the reviewed normal form of %s and is analysed under that name", oldName, fname)
		return true
	}
}

func recoverRenamesByCallers(c *Ctx, prog *ir.Program, path string) {
	base := baselineFuncs["fc"]
	var missing []string
	for name := range c01ReviewedNF {
		if _, ok := prog.ByName[name]; !ok {
			missing = append(missing, name)
		}
	}
	if len(missing) == 0 {
		return
	}
	sort.Strings(missing)
	// current references: function name -> set of names it mentions
	cur := map[string]map[string]bool{}
	refsTo := map[string][]*ir.FuncRef{}
	for _, fn := range prog.Funcs {
		set := map[string]bool{}
		ir.WalkFunc(fn, func(t ir.Term) bool {
			if fr, ok := t.(*ir.FuncRef); ok {
				set[trimPkg(ir.ShortKey(fr.Key))] = true
				refsTo[fr.Key] = append(refsTo[fr.Key], fr)
			}
			return true
		})
		cur[fn.Name] = set
	}
	for _, fname := range missing {
		// surviving reviewed callers of fname (other than itself)
		var callers []string
		for caller, refs := range c01ReviewedRefs {
			if caller == fname {
				continue
			}
			for _, r := range strings.Fields(refs) {
				if r == fname {
					if _, ok := prog.ByName[caller]; ok {
						callers = append(callers, caller)
					}
				}
			}
		}
		if len(callers) == 0 {
			continue
		}
		var cands []*ir.Func
		for _, g := range prog.Funcs {
			if !g.Generated || g.Decl == nil || g.Decl.Recv != nil || base[g.Name] {
				continue
			}
			all := true
			for _, cl := range callers {
				if !cur[cl][g.Name] {
					all = false
				}
			}
			if all {
				cands = append(cands, g)
			}
		}
		if len(cands) != 1 {
			continue
		}
		g := cands[0]
		oldKey, oldName := g.Key, g.Name
		newKey := path + "." + fname
		for _, fr := range refsTo[oldKey] {
			fr.Key = newKey
		}
		g.Key, g.Name = newKey, fname
		delete(prog.ByName, oldName)
		prog.ByName[fname] = g
		prog.ByKey[newKey] = g
		c.R.Note("rename recovered by callers: every surviving reviewed caller of %s now refers to the new function %s, which is analysed under the old name (its body is compared with the reviewed forms as an edit of %s)", fname, oldName, fname)
	}
}
