package rules

import (
	"bytes"
	"fmt"
	"go/ast"
	"go/format"
	"go/parser"
	"go/scanner"
	"go/token"
	"go/types"
	"os"
	"path/filepath"
	"sort"
	"strconv"
	"strings"

	"verif/tools/internal/fo"
	"verif/tools/internal/ir"
)

// C04 — checked-in generated Go is a fixed point of the self-hosted compiler.
// "Build fc, run it, compare bytes" is an execution and is NOT decided.  What
// static analysis decides is the agreement of every checked-in (source,
// generated) pair — a necessary condition no test looks at (DESIGN.md §C04).

func init() { Register("C04", checkC04) }

type foPair struct {
	fo, gen string // absolute paths
	label   string
	program []string // all sources of the program the file belongs to (nil: the file alone)
}

// ---------- expected declarations from a .fo file (tokens only) ----------

type expDecl struct {
	kind  string // package | import | func | var | struct | interface | method
	name  string
	n     int      // func: number of non-unit parameters
	flds  []string // struct: field names in order
	line  int
	pcase bool // struct: a union case with a payload (its Stringer calls frt.Sprintf1)
	rec   bool // struct: a record type
}

func (d expDecl) String() string {
	switch d.kind {
	case "func":
		return fmt.Sprintf("func %s/%d", d.name, d.n)
	case "struct":
		return "struct " + d.name + "{" + strings.Join(d.flds, ",") + "}"
	}
	return d.kind + " " + d.name
}

// splitDepth0 splits tokens at separator texts that occur at bracket depth 0.
func splitDepth0(ts []fo.Tok, seps ...string) [][]fo.Tok {
	var res [][]fo.Tok
	var cur []fo.Tok
	depth := 0
	isSep := func(t fo.Tok) bool {
		for _, s := range seps {
			if t.Text == s && (t.Kind == fo.PUNCT || t.Kind == fo.IDENT) {
				return true
			}
		}
		return false
	}
	for _, t := range ts {
		if t.Kind == fo.PUNCT {
			switch t.Text {
			case "(", "[", "{":
				depth++
			case ")", "]", "}":
				depth--
			}
		}
		if depth == 0 && isSep(t) {
			res = append(res, cur)
			cur = nil
			continue
		}
		cur = append(cur, t)
	}
	res = append(res, cur)
	return res
}

// letHeader analyses `let name params… [: type] = …` and returns name, arity (non-unit params) and whether it is a function.
func letHeader(ts []fo.Tok) (name string, arity int, isFunc bool, body []fo.Tok, ok bool) {
	ts = fo.NoEOL(ts)
	if len(ts) < 3 || ts[1].Kind != fo.IDENT {
		return "", 0, false, nil, false
	}
	name = ts[1].Text
	i := 2
	depth := 0
	angle := 0
	for i < len(ts) {
		t := ts[i]
		if t.Kind == fo.PUNCT {
			switch t.Text {
			case "(":
				if depth == 0 && angle == 0 {
					// a parameter group
					if i+1 < len(ts) && ts[i+1].Text == ")" {
						isFunc = true // unit parameter
					} else {
						isFunc = true
						arity++
					}
				}
				depth++
			case ")":
				depth--
			case "<":
				if depth == 0 {
					angle++
				}
			case ">":
				if depth == 0 && angle > 0 {
					angle--
				}
			case ":":
				if depth == 0 && angle == 0 {
					// result annotation: skip to '='
					for i < len(ts) && !(ts[i].Text == "=" && ts[i].Kind == fo.PUNCT) {
						i++
					}
					continue
				}
			case "=":
				if depth == 0 && angle == 0 {
					return name, arity, isFunc, ts[i+1:], true
				}
			}
		} else if t.Kind == fo.IDENT && depth == 0 && angle == 0 {
			isFunc = true
			arity++
		}
		i++
	}
	return name, arity, isFunc, nil, false
}

// typeDecls analyses one `type … and …` segment.
func typeDecls(ts []fo.Tok) ([]expDecl, string) {
	ts = fo.NoEOL(ts)
	var res []expDecl
	groups := splitDepth0(ts[1:], "and")
	for _, g := range groups {
		if len(g) < 3 || g[0].Kind != fo.IDENT {
			return nil, "cannot read type definition"
		}
		name := g[0].Text
		i := 1
		ntp := 0
		if g[i].Text == "<" {
			for i < len(g) && g[i].Text != ">" {
				if g[i].Kind == fo.IDENT {
					ntp++
				}
				i++
			}
			i++
		}
		if i >= len(g) || g[i].Text != "=" {
			return nil, "type " + name + " without '='"
		}
		body := g[i+1:]
		if len(body) == 0 {
			return nil, "type " + name + " without body"
		}
		if body[0].Text == "{" {
			// record: fields separated by ';'
			inner := body[1 : len(body)-1]
			d := expDecl{kind: "struct", name: name, line: g[0].Line, rec: true}
			for _, f := range splitDepth0(inner, ";") {
				if len(f) >= 2 && f[0].Kind == fo.IDENT && f[1].Text == ":" {
					d.flds = append(d.flds, f[0].Text)
				}
			}
			res = append(res, d)
			continue
		}
		if body[0].Text != "|" {
			return nil, "type " + name + ": neither record nor union"
		}
		type ucase struct {
			name    string
			payload bool
		}
		var cases []ucase
		for _, c := range splitDepth0(body, "|") {
			if len(c) == 0 {
				continue
			}
			uc := ucase{name: c[0].Text}
			if len(c) > 1 && c[1].Text == "of" {
				uc.payload = true
			}
			cases = append(cases, uc)
		}
		res = append(res, expDecl{kind: "interface", name: name, line: g[0].Line})
		for _, c := range cases {
			res = append(res, expDecl{kind: "method", name: name + "_" + c.name + "." + name + "_Union", line: g[0].Line})
		}
		for _, c := range cases {
			res = append(res, expDecl{kind: "method", name: name + "_" + c.name + ".String", line: g[0].Line})
		}
		for _, c := range cases {
			d := expDecl{kind: "struct", name: name + "_" + c.name, line: g[0].Line}
			if c.payload {
				d.flds = []string{"Value"}
				d.pcase = true
			}
			res = append(res, d)
			if !c.payload && ntp == 0 {
				res = append(res, expDecl{kind: "var", name: "New_" + name + "_" + c.name, line: g[0].Line})
			} else {
				n := 0
				if c.payload {
					n = 1
				}
				res = append(res, expDecl{kind: "func", name: "New_" + name + "_" + c.name, n: n, line: g[0].Line})
			}
		}
	}
	return res, ""
}

// leaves of a Folang token range: int literals and string values in order; construct counts.
type leafInfo struct {
	lits   []string
	counts map[string]int
}

// interpFormat applies the documented transformation of a $-literal body to its fmt format.
func interpFormat(val string, raw bool) string {
	var b strings.Builder
	for i := 0; i < len(val); i++ {
		c := val[i]
		switch {
		case c == '{':
			j := strings.IndexByte(val[i:], '}')
			if j < 0 {
				b.WriteByte(c)
				continue
			}
			b.WriteString("%s")
			i += j
		case c == '%':
			b.WriteString("%%")
		default:
			b.WriteByte(c)
		}
	}
	return b.String()
}

// foInterpValue: the Go string value the emitted format literal has for a $"…" token (escapes interpreted after brace handling).
func foInterpValue(t fo.Tok) string {
	if t.Raw {
		return interpFormat(t.Val, true)
	}
	// work on the source text so that \{ and \} are seen before escape processing
	text := t.Text
	text = strings.TrimPrefix(text, "$")
	text = text[1 : len(text)-1]
	var b strings.Builder
	for i := 0; i < len(text); i++ {
		c := text[i]
		switch {
		case c == '\\' && i+1 < len(text):
			if text[i+1] == '{' || text[i+1] == '}' {
				b.WriteByte(text[i+1])
			} else {
				b.WriteByte(c)
				b.WriteByte(text[i+1])
			}
			i++
		case c == '{':
			j := strings.IndexByte(text[i:], '}')
			if j < 0 {
				b.WriteByte(c)
				continue
			}
			b.WriteString("%s")
			i += j
		case c == '%':
			b.WriteString("%%")
		default:
			b.WriteByte(c)
		}
	}
	s, err := strconv.Unquote(`"` + strings.ReplaceAll(b.String(), "\n", `\n`) + `"`)
	if err != nil {
		return b.String()
	}
	return s
}

func goLiteralsOf(src string) []string {
	var res []string
	fset := token.NewFileSet()
	file := fset.AddFile("", fset.Base(), len(src))
	var s scanner.Scanner
	s.Init(file, []byte(src), nil, 0)
	for {
		_, tok, lit := s.Scan()
		if tok == token.EOF {
			break
		}
		switch tok {
		case token.INT:
			res = append(res, "i:"+lit)
		case token.STRING:
			if v, err := strconv.Unquote(lit); err == nil {
				res = append(res, "s:"+v)
			}
		case token.CHAR:
			res = append(res, "c:"+lit)
		}
	}
	return res
}

func foLeaves(ts []fo.Tok) leafInfo {
	li := leafInfo{counts: map[string]int{}}
	for i, t := range ts {
		switch t.Kind {
		case fo.INT:
			li.lits = append(li.lits, "i:"+strings.TrimLeft(t.Text, "0")+zeroIf(t.Text))
		case fo.STRING, fo.RAWSTR:
			// GoEval "…": the string is Go code
			isGoEval := false
			for j := i - 1; j >= 0 && j >= i-12; j-- {
				if ts[j].Kind == fo.EOL {
					continue
				}
				if ts[j].Kind == fo.IDENT && ts[j].Text == "GoEval" {
					isGoEval = true
				}
				if ts[j].Text == ">" || ts[j].Text == "<" || ts[j].Text == "[" || ts[j].Text == "]" || ts[j].Text == "," || ts[j].Text == "." || ts[j].Text == "*" || ts[j].Text == "(" || ts[j].Text == ")" || ts[j].Text == "->" || ts[j].Kind == fo.IDENT {
					if isGoEval {
						break
					}
					continue
				}
				break
			}
			if isGoEval {
				li.lits = append(li.lits, goLiteralsOf(goEvalText(t))...)
				continue
			}
			li.lits = append(li.lits, "s:"+t.Val)
		case fo.SINTERP:
			li.lits = append(li.lits, "s:"+foInterpValue(t))
		case fo.IDENT:
			switch t.Text {
			case "if", "elif":
				li.counts["if"]++
			case "match":
				li.counts["match"]++
			case "not":
				li.counts["not"]++
			}
		case fo.PUNCT:
			switch t.Text {
			case "|>":
				li.counts["pipe"]++
			case "<>":
				li.counts["ne"]++
			case "&&", "||":
				li.counts[t.Text]++
			}
		}
	}
	return li
}

func zeroIf(s string) string {
	if strings.Trim(s, "0") == "" {
		return "0"
	}
	return ""
}

// goEvalText: the Go text a GoEval argument denotes ("\n" is a newline; other escapes are kept for Go).
func goEvalText(t fo.Tok) string {
	if t.Raw {
		return t.Val
	}
	// the token text keeps Go escapes verbatim; reinterpretEscape turns \n into a newline and drops other backslashes' effect
	text := t.Text[1 : len(t.Text)-1]
	var b strings.Builder
	for i := 0; i < len(text); i++ {
		if text[i] == '\\' && i+1 < len(text) {
			i++
			if text[i] == 'n' {
				b.WriteByte('\n')
			} else {
				b.WriteByte(text[i])
			}
			continue
		}
		b.WriteByte(text[i])
	}
	return b.String()
}

const neverReachedText = "Union pattern fail. Never reached here."

func goLeaves(n ast.Node) leafInfo {
	li := leafInfo{counts: map[string]int{}}
	ast.Inspect(n, func(x ast.Node) bool {
		switch y := x.(type) {
		case *ast.BasicLit:
			switch y.Kind {
			case token.INT:
				li.lits = append(li.lits, "i:"+y.Value)
			case token.STRING:
				if v, err := strconv.Unquote(y.Value); err == nil {
					if v == neverReachedText {
						return true
					}
					li.lits = append(li.lits, "s:"+v)
				}
			case token.CHAR:
				li.lits = append(li.lits, "c:"+y.Value)
			}
		case *ast.CallExpr:
			if se, ok := y.Fun.(*ast.SelectorExpr); ok {
				if id, ok := se.X.(*ast.Ident); ok && id.Name == "frt" {
					switch se.Sel.Name {
					case "IfElse", "IfElseUnit", "IfOnly":
						li.counts["if"]++
					case "OpNot":
						li.counts["not"]++
					case "Pipe", "PipeUnit":
						li.counts["pipe"]++
					case "OpNotEqual":
						li.counts["ne"]++
					}
				}
			}
		case *ast.TypeSwitchStmt, *ast.SwitchStmt:
			li.counts["match"]++
		case *ast.BinaryExpr:
			switch y.Op {
			case token.LAND:
				li.counts["&&"]++
			case token.LOR:
				li.counts["||"]++
			}
		}
		return true
	})
	return li
}

// goDecls lists the declarations of a generated file in order.
func goDecls(f *ast.File) []expDecl {
	res := []expDecl{{kind: "package", name: f.Name.Name}}
	for _, d := range f.Decls {
		switch x := d.(type) {
		case *ast.GenDecl:
			for _, sp := range x.Specs {
				switch s := sp.(type) {
				case *ast.ImportSpec:
					p, _ := strconv.Unquote(s.Path.Value)
					res = append(res, expDecl{kind: "import", name: p})
				case *ast.TypeSpec:
					switch t := s.Type.(type) {
					case *ast.StructType:
						d := expDecl{kind: "struct", name: s.Name.Name}
						for _, fl := range t.Fields.List {
							for _, n := range fl.Names {
								d.flds = append(d.flds, n.Name)
							}
						}
						res = append(res, d)
					case *ast.InterfaceType:
						res = append(res, expDecl{kind: "interface", name: s.Name.Name})
					default:
						res = append(res, expDecl{kind: "type", name: s.Name.Name})
					}
				case *ast.ValueSpec:
					for _, n := range s.Names {
						res = append(res, expDecl{kind: "var", name: n.Name})
					}
				}
			}
		case *ast.FuncDecl:
			if x.Recv != nil {
				rt := x.Recv.List[0].Type
				if ix, ok := rt.(*ast.IndexExpr); ok {
					rt = ix.X
				}
				if ix, ok := rt.(*ast.IndexListExpr); ok {
					rt = ix.X
				}
				name := "?"
				if id, ok := rt.(*ast.Ident); ok {
					name = id.Name
				}
				res = append(res, expDecl{kind: "method", name: name + "." + x.Name.Name})
				continue
			}
			n := 0
			for _, p := range x.Type.Params.List {
				if len(p.Names) == 0 {
					n++
				}
				n += len(p.Names)
			}
			res = append(res, expDecl{kind: "func", name: x.Name.Name, n: n})
		}
	}
	return res
}

// checkFoPair: rules (b) and (c) for one (source, generated) pair.
func checkFoPair(c *Ctx, p foPair) {
	r := c.R
	src, err := os.ReadFile(p.fo)
	if err != nil {
		r.Bad("C04.a", p.label, "source-exists", p.label, err.Error())
		return
	}
	gsrc, err := os.ReadFile(p.gen)
	if err != nil {
		r.Bad("C04.a", p.label, "generated-exists", p.label, "no generated file for "+p.label+": "+err.Error())
		return
	}
	toks, err := fo.Tokenize(string(src))
	if err != nil {
		r.Undecided("C04.b", p.label, "tokenize", p.label, err.Error())
		return
	}
	checkTopLevelShape(r, p.label, toks)
	fset := token.NewFileSet()
	gf, err := parser.ParseFile(fset, p.gen, gsrc, parser.ParseComments)
	if err != nil {
		r.Bad("C04.b", p.label, "generated-parses", p.label, "the generated file does not parse: "+err.Error())
		return
	}
	// (d)
	if out, err := format.Source(gsrc); err != nil || !bytes.Equal(out, gsrc) {
		r.Bad("C04.d", p.label, "gofmt", p.label, "the checked-in generated file is not gofmt-idempotent (the recipe runs go fmt)")
	} else {
		r.OK("C04.d", p.label, "gofmt", p.label, "gofmt-idempotent")
	}
	// (h) the compiler's switch temporaries _vN come from a counter that runs through the file during emission:
	// in order of first occurrence they are _v1, _v2, … — a generated function moved or pasted by hand keeps its old
	// numbers, regeneration renumbers them
	{
		var order []int
		seen := map[int]bool{}
		var idents []*ast.Ident
		ast.Inspect(gf, func(x ast.Node) bool {
			if id, ok := x.(*ast.Ident); ok {
				idents = append(idents, id)
			}
			return true
		})
		sort.Slice(idents, func(i, j int) bool { return idents[i].Pos() < idents[j].Pos() })
		firstBad := token.NoPos
		for _, id := range idents {
			if len(id.Name) > 2 && id.Name[:2] == "_v" {
				if k, err := strconv.Atoi(id.Name[2:]); err == nil && !seen[k] {
					seen[k] = true
					order = append(order, k)
					if k != len(order) && firstBad == token.NoPos {
						firstBad = id.Pos()
					}
				}
			}
		}
		if firstBad == token.NoPos {
			r.OK("C04.h", p.label, "temporaries", p.label, sprintf("%d switch temporaries are numbered _v1.. in file order", len(order)))
		} else {
			r.Bad("C04.h", p.label, "temporaries", c.Pos(fset, firstBad), sprintf("the switch temporaries of the generated file are not numbered in file order (first occurrences: %v): the compiler numbers them with a counter that runs through the file, so regeneration produces other names — a generated function was moved, pasted or edited by hand", order))
		}
	}
	// (i, second clause) fc writes the type of every composite literal; an element without one ([]T{{…}}) is the
	// spelling of `gofmt -s`, which the recipe does not run
	{
		elided := token.NoPos
		ast.Inspect(gf, func(x ast.Node) bool {
			if cl, ok := x.(*ast.CompositeLit); ok && cl.Type == nil && elided == token.NoPos {
				elided = cl.Pos()
			}
			return true
		})
		r.Check(elided == token.NoPos, "C04.i", p.label, "composite-literal-types", c.Pos(fset, gf.Pos()), "every composite literal of the generated file names its type",
			"a composite literal with an elided type at "+c.Pos(fset, elided)+": fc always writes the type, so the file was rewritten by another tool (gofmt -s) or by hand and is not what regeneration yields")
	}
	// (i, third clause) fc emits no comment (GoEval text is the only way one could get in, and none does)
	if c04CompilerEmitsComments {
		// the premise does not hold for this compiler: nothing to decide
	} else if len(gf.Comments) == 0 {
		r.OK("C04.i", p.label, "no-comments", p.label, "the generated file has no comment")
	} else {
		r.Bad("C04.i", p.label, "no-comments", c.Pos(fset, gf.Comments[0].Pos()), "the generated file contains a comment: fc emits none, so the file was edited by hand and regeneration drops it")
	}
	// expected declarations
	var exp []expDecl
	type letSeg struct {
		name string
		body []fo.Tok
		all  []fo.Tok
		line int
	}
	var lets []letSeg
	for _, seg := range fo.Segments(toks) {
		ts := fo.NoEOL(seg.Toks)
		switch seg.Kind {
		case "package":
			if len(ts) >= 2 {
				exp = append(exp, expDecl{kind: "package", name: ts[1].Text, line: seg.Line})
			}
		case "import":
			if len(ts) >= 2 {
				path := ts[1].Text
				if ts[1].Kind == fo.STRING {
					path = ts[1].Val
				} else {
					path = "github.com/karino2/folang/pkg/" + path
				}
				exp = append(exp, expDecl{kind: "import", name: path, line: seg.Line})
			}
		case "let":
			name, arity, isFunc, body, ok := letHeader(seg.Toks)
			if !ok {
				r.Undecided("C04.b", p.label, sprintf("let@%d", seg.Line), sprintf("%s:%d", p.label, seg.Line), "cannot read the header of this let")
				continue
			}
			if isFunc {
				exp = append(exp, expDecl{kind: "func", name: name, n: arity, line: seg.Line})
			} else {
				exp = append(exp, expDecl{kind: "var", name: name, line: seg.Line})
			}
			lets = append(lets, letSeg{name, body, fo.NoEOL(seg.Toks), seg.Line})
		case "type":
			ds, why := typeDecls(seg.Toks)
			if why != "" {
				r.Undecided("C04.b", p.label, sprintf("type@%d", seg.Line), sprintf("%s:%d", p.label, seg.Line), why)
				continue
			}
			exp = append(exp, ds...)
		}
	}
	// the compiler imports frt itself, right after the package clause, when a union case with a payload is
	// defined and the source does not import it (addFrtImportIfNecessary; closed forms pinned under C04.imp)
	{
		const frtPath = "github.com/karino2/folang/pkg/frt"
		needs, has := false, false
		for _, d := range exp {
			if d.kind == "struct" && d.pcase {
				needs = true
			}
			if d.kind == "import" && d.name == frtPath {
				has = true
			}
		}
		if needs && !has {
			imp := expDecl{kind: "import", name: frtPath}
			if len(exp) > 0 && exp[0].kind == "package" {
				imp.line = exp[0].line
				exp = append([]expDecl{exp[0], imp}, exp[1:]...)
			} else {
				exp = append([]expDecl{imp}, exp...)
			}
		}
	}
	have := goDecls(gf)
	// compare the ordered sequences
	es := make([]string, len(exp))
	for i, d := range exp {
		es[i] = d.String()
	}
	hs := make([]string, len(have))
	for i, d := range have {
		hs[i] = d.String()
	}
	if strings.Join(es, "\n") == strings.Join(hs, "\n") {
		r.OK("C04.b", p.label, "declarations", p.label, sprintf("%d declarations agree in order (package, imports, funcs/vars with arity, structs with fields, union interfaces/methods/cases/constructors)", len(es)))
	} else {
		i := 0
		for i < len(es) && i < len(hs) && es[i] == hs[i] {
			i++
		}
		e, h := "(end)", "(end)"
		line := 0
		if i < len(es) {
			e = es[i]
			line = exp[i].line
		}
		if i < len(hs) {
			h = hs[i]
		}
		r.Bad("C04.b", p.label, "declarations", sprintf("%s:%d", p.label, line), sprintf("declaration #%d differs: the source gives %s, the generated file has %s — one side was edited without the other", i+1, e, h))
	}
	// (c) per-definition leaves
	gdecl := map[string]ast.Node{}
	for _, d := range gf.Decls {
		switch x := d.(type) {
		case *ast.FuncDecl:
			if x.Recv == nil {
				gdecl[x.Name.Name] = x
			}
		case *ast.GenDecl:
			for _, sp := range x.Specs {
				if vs, ok := sp.(*ast.ValueSpec); ok {
					for _, n := range vs.Names {
						gdecl[n.Name] = vs
					}
				}
			}
		}
	}
	nDefs := 0
	for _, l := range lets {
		g, ok := gdecl[l.name]
		if !ok {
			continue // reported by (b)
		}
		nDefs++
		fl := foLeaves(l.all)
		gl := goLeaves(g)
		pos := sprintf("%s:%d", p.label, l.line)
		if strings.Join(fl.lits, "\x00") != strings.Join(gl.lits, "\x00") {
			i := 0
			for i < len(fl.lits) && i < len(gl.lits) && fl.lits[i] == gl.lits[i] {
				i++
			}
			a, b := "(none)", "(none)"
			if i < len(fl.lits) {
				a = short(fl.lits[i], 60)
			}
			if i < len(gl.lits) {
				b = short(gl.lits[i], 60)
			}
			r.Bad("C04.c", p.label+"."+l.name, "literals", pos, sprintf("literal #%d differs between source (%s) and generated Go (%s): a constant was edited on one side only", i+1, strconv.Quote(a), strconv.Quote(b)))
		} else {
			keys := []string{"if", "match", "not", "pipe", "ne", "&&", "||"}
			bad := ""
			for _, k := range keys {
				if fl.counts[k] != gl.counts[k] {
					bad += sprintf(" %s: source %d / generated %d;", k, fl.counts[k], gl.counts[k])
				}
			}
			// (c2) referenced functions
			{
				G := dirFuncs(filepath.Dir(p.gen))
				imps := map[string]bool{}
				for _, im := range gf.Imports {
					if v, err := strconv.Unquote(im.Path.Value); err == nil {
						imps[filepath.Base(v)] = true
					}
				}
				cases, caseStructs := dirCases(filepath.Dir(p.gen))
				gr, locals := goFuncRefs(g, G, imps, caseStructs)
				fr := foFuncRefs(l.all, l.name, G, imps, cases)
				var diffs []string
				names := map[string]bool{}
				for k := range gr {
					names[k] = true
				}
				for k := range fr {
					names[k] = true
				}
				for _, k := range sortedKeysB(names) {
					if locals[k] {
						continue // the name is also bound locally: token-level counting cannot tell the two apart
					}
					if gr[k] != fr[k] {
						diffs = append(diffs, sprintf("%s: source %d / generated %d", k, fr[k], gr[k]))
					}
				}
				if len(diffs) > 0 {
					bad += " referenced functions differ (" + strings.Join(diffs, "; ") + ");"
				}
				// (c3) ordered skeleton
				{
					fs, gs := foSkeleton(l.all, cases, caseStructs), goSkeleton(g, caseStructs)
					if strings.Join(fs, "\x00") == strings.Join(gs, "\x00") {
						r.OK("C04.c3", p.label+"."+l.name, "skeleton", pos, sprintf("%d identifiers, operators, literals and constructs agree in order", len(fs)))
					} else {
						i := 0
						for i < len(fs) && i < len(gs) && fs[i] == gs[i] {
							i++
						}
						ctx := func(xs []string) string {
							lo, hi := i-3, i+4
							if lo < 0 {
								lo = 0
							}
							if hi > len(xs) {
								hi = len(xs)
							}
							if lo >= hi {
								return "(end)"
							}
							return short(strings.Join(xs[lo:hi], " "), 120)
						}
						r.Bad("C04.c3", p.label+"."+l.name, "skeleton", pos, sprintf("the ordered sequence of identifiers, operators, literals and constructs differs at item #%d: the source reads … %s …, the generated Go … %s … — an operand, argument order, local, field or operator was changed on one side only", i+1, ctx(fs), ctx(gs)))
					}
				}
			}
			r.Check(bad == "", "C04.c", p.label+"."+l.name, "leaves", pos, sprintf("%d literals agree in order; construct counts and referenced functions agree", len(fl.lits)),
				"construct counts differ between source and generated Go:"+bad+" a conditional, match, pipe or boolean operator exists on one side only")
		}
	}
	c.R.Unit("definitions_compared", nDefs)
	// (i)
	{
		files := p.program
		if len(files) == 0 {
			files = []string{p.fo}
		}
		lm := map[string][]fo.Tok{}
		var names []string
		for _, l := range lets {
			lm[l.name] = l.all
			names = append(names, l.name)
		}
		checkRecordLiteralsUnambiguous(c, p.label, files, lm, names)
	}
}

var c04CompilerEmitsComments bool

func checkC04(c *Ctx) {
	r := c.R
	r.Explanation = "The fixed point itself ('build fc, run it, compare bytes', and generation 2 even more) is an execution and is NOT decided. Decided is the agreement of every checked-in (source, generated) pair — a necessary condition no test looks at: " +
		"(a) file sets: the .fo arguments of fc/fc_all.sh ↔ fc/gen_*.go, the first column of samples/filelist.txt ↔ samples/gen_*.go, build_sample_md; no orphan on either side; " +
		"(b) ordered declaration tables: the checker's own Folang tokenizer segments each .fo at column-0 package/import/let/type and derives the expected Go declaration sequence (funcs with arity, vars, structs with field names, union interface + marker methods + Stringers + case structs + New_ func-or-var), which must equal the generated file's; " +
		"(c) per-definition leaf agreement: the ordered sequence of integer and string literal values (escape processing and the documented $-literal/GoEval transformations applied) and the counts of if/match/not/|>/<>/&&/|| constructs agree; " +
		"(d) every generated file is gofmt-idempotent; (e) samples/README.md equals the documented template evaluated on the checked-in files, pkg/pkg_all.foi equals the concatenation named in collect_all_foi.sh; the wrappers the reproduction relies on (sys.ReadFile/WriteFile) are verbatim. " +
		"(c3) the ordered skeleton of every definition — identifiers outside type positions, operators, literals, if/match/not/pipe, with the compiler's own additions (temporaries, inserted frt helpers, case-struct spelling) set aside — agrees; (g) every file fc reads is a sequence of well-formed top-level items on the checker's own token stream. " +
		"Catches one-sided edits of constants, declarations, operands, argument order, locals, fields and operators; does NOT catch an edit that changes only grouping (parentheses) or a type annotation on one side, nor a compiler change whose regenerated output was only partly checked in."
	r.NotDecided = []string{"equality of function bodies beyond the ordered skeleton (grouping, type annotations)", "reproduction by a rebuilt compiler; generation 2 (one seeded variant — output one generation behind after a compiler change — is NOT detected, as expected for a static check)"}
	r.Assumptions = []string{"fc emits literals and the counted constructs of a definition in source order (confirmed on all shipped definitions by this very rule)"}
	r.Rule("C04.a", "file sets agree (recipes ↔ sources ↔ generated files)", 30)
	r.Rule("C04.b", "ordered declaration tables agree for every pair", 30)
	r.Rule("C04.c", "per-definition literal sequences and construct counts agree", 330)
	r.Rule("C04.c3", "per-definition ordered skeletons (identifiers outside type positions, operators, literals, if/match/not/pipe constructs) agree", 330)
	r.Rule("C04.i", "every unqualified record literal has the field names of exactly one record type of its program (otherwise its type is the compiler's tie-break and regeneration may name another type); no composite literal of a generated file has an elided type (fc never emits one; gofmt -s does) and no generated file has a comment", 40)
	r.Rule("C04.h", "the compiler-generated switch temporaries of every generated file are numbered _v1, _v2, … in file order (what the emission counter yields)", 30)
	r.Rule("C04.lex", "the hand-written lexer of fc is the reviewed one: the checker's own Folang tokenizer, on which rules (b), (c), (c2), (c3), (g) stand, was written against it (change detection; a different lexer is undecided)", 15)
	r.Rule("C04.d", "generated files are gofmt-idempotent", 30)
	r.Rule("C04.g", "every source and interface file fc reads is a sequence of well-formed top-level items (no stray text, no stray comment terminator, package_info bodies are declaration lines)", 35)
	r.Rule("C04.e", "samples/README.md and pkg/pkg_all.foi are what their recipes produce from the checked-in files", 2)
	r.Rule("C04.imp", "the compiler's own import insertion has the closed form the expected declaration tables mirror", 7)
	r.Rule("C04.lib", "the file wrappers the reproduction relies on are verbatim", 2)
	root := c.Repo.Root
	// premise of (i, third clause): no generated function of the compiler holds text that opens a Go comment
	c04CompilerEmitsComments = false
	if f := c.LoadFC("fc"); f != nil {
		for _, fn := range f.Prog.Funcs {
			if !fn.Generated {
				continue
			}
			ir.WalkFunc(fn, func(t ir.Term) bool {
				if lit, ok := t.(*ir.Lit); ok && lit.Kind == token.STRING && (strings.Contains(lit.Val, "//") || strings.Contains(lit.Val, "/*")) {
					c04CompilerEmitsComments = true
					r.Note("C04.i: the compiler holds comment text (%q in %s): the no-comment clause is not applied", short(lit.Val, 40), fn.Name)
				}
				return !c04CompilerEmitsComments
			})
		}
	}
	var pairs []foPair
	// (a) fc
	if sh, err := os.ReadFile(filepath.Join(root, "fc", "fc_all.sh")); err == nil {
		var fos []string
		for _, ln := range strings.Split(string(sh), "\n") {
			if strings.HasPrefix(strings.TrimSpace(ln), "./fc ") {
				for _, w := range strings.Fields(ln) {
					if strings.HasSuffix(w, ".fo") {
						fos = append(fos, w)
					}
				}
			}
		}
		gens, _ := filepath.Glob(filepath.Join(root, "fc", "gen_*.go"))
		want := map[string]bool{}
		var fcProgram []string
		for _, f := range fos {
			fcProgram = append(fcProgram, filepath.Join(root, "fc", f))
		}
		for _, f := range fos {
			want["gen_"+strings.TrimSuffix(f, ".fo")+".go"] = true
			pairs = append(pairs, foPair{filepath.Join(root, "fc", f), filepath.Join(root, "fc", "gen_"+strings.TrimSuffix(f, ".fo")+".go"), "fc/" + f, fcProgram})
			r.OK("C04.a", "fc/fc_all.sh", "lists "+f, "fc/fc_all.sh", "recipe argument")
		}
		for _, g := range gens {
			r.Check(want[filepath.Base(g)], "C04.a", "fc/"+filepath.Base(g), "has-source-in-recipe", "fc/"+filepath.Base(g), "generated file corresponds to a recipe argument", "generated file without a .fo argument in fc/fc_all.sh (orphan)")
		}
		allFo, _ := filepath.Glob(filepath.Join(root, "fc", "*.fo"))
		for _, f := range allFo {
			r.Check(want["gen_"+strings.TrimSuffix(filepath.Base(f), ".fo")+".go"], "C04.a", "fc/"+filepath.Base(f), "listed-in-recipe", "fc/"+filepath.Base(f), "source is a recipe argument", "a .fo source that fc/fc_all.sh does not list: its generated file is never refreshed")
		}
	} else {
		r.Undecided("C04.a", "fc/fc_all.sh", "read", "fc/fc_all.sh", err.Error())
	}
	// samples
	var listed []string
	if fl, err := os.ReadFile(filepath.Join(root, "samples", "filelist.txt")); err == nil {
		for _, ln := range strings.Split(string(fl), "\n") {
			if ln == "" {
				continue
			}
			name := strings.SplitN(ln, " ", 2)[0]
			listed = append(listed, name)
			pairs = append(pairs, foPair{filepath.Join(root, "samples", name), filepath.Join(root, "samples", "gen_"+strings.TrimSuffix(name, ".fo")+".go"), "samples/" + name, nil})
		}
		want := map[string]bool{}
		for _, n := range listed {
			want["gen_"+strings.TrimSuffix(n, ".fo")+".go"] = true
		}
		gens, _ := filepath.Glob(filepath.Join(root, "samples", "gen_*.go"))
		// every listed sample has its generated file (checked per pair below); unlisted extras are outside the statement:
		// they are still compared as pairs when both sides exist, and reported as information
		for _, g := range gens {
			base := filepath.Base(g)
			if want[base] {
				r.OK("C04.a", "samples/"+base, "listed", "samples/"+base, "generated sample corresponds to a filelist entry")
				continue
			}
			src := filepath.Join(root, "samples", strings.TrimSuffix(strings.TrimPrefix(base, "gen_"), ".go")+".fo")
			if _, err := os.Stat(src); err == nil {
				r.Note("samples/%s and its source are not listed in filelist.txt: outside the statement, not compared", base)
			} else {
				r.Bad("C04.a", "samples/"+base, "has-source", "samples/"+base, "generated sample without any Folang source (orphan)")
			}
		}
	} else {
		r.Undecided("C04.a", "samples/filelist.txt", "read", "samples/filelist.txt", err.Error())
	}
	pairs = append(pairs, foPair{filepath.Join(root, "cmd/build_sample_md/build_sample_md.fo"), filepath.Join(root, "cmd/build_sample_md/gen_build_sample_md.go"), "cmd/build_sample_md/build_sample_md.fo", nil})
	sort.Slice(pairs, func(i, j int) bool { return pairs[i].label < pairs[j].label })
	for _, p := range pairs {
		checkFoPair(c, p)
	}
	r.Unit("source_generated_pairs", len(pairs))
	checkFoiShapes(c)

	// (e) README
	if len(listed) > 0 {
		var b strings.Builder
		b.WriteString("## Folang Sample \n\n\n")
		fl, _ := os.ReadFile(filepath.Join(root, "samples", "filelist.txt"))
		var secs []string
		okAll := true
		for _, ln := range strings.Split(string(fl), "\n") {
			if ln == "" {
				continue
			}
			cols := strings.SplitN(ln, " ", 2)
			name, title := cols[0], cols[len(cols)-1]
			content, err := os.ReadFile(filepath.Join(root, "samples", name))
			if err != nil {
				okAll = false
				r.Bad("C04.e", "samples/README.md", "entry "+name, "samples/filelist.txt", "listed file cannot be read: "+err.Error())
				continue
			}
			gen := "gen_" + strings.TrimSuffix(name, ".fo") + ".go"
			secs = append(secs, "### "+title+"\n\n```\n"+string(content)+"\n```\n\n"+"generated go: ["+gen+"](./"+gen+")\n\n")
		}
		b.WriteString(strings.Join(secs, "\n"))
		have, err := os.ReadFile(filepath.Join(root, "samples", "README.md"))
		if err != nil {
			r.Bad("C04.e", "samples/README.md", "exists", "samples/README.md", err.Error())
		} else if okAll {
			want := b.String()
			if string(have) == want {
				r.OK("C04.e", "samples/README.md", "template", "samples/README.md", sprintf("README.md equals header + %d sections (title, verbatim file, link) in filelist order", len(secs)))
			} else {
				i := 0
				for i < len(have) && i < len(want) && have[i] == want[i] {
					i++
				}
				ln := 1 + strings.Count(want[:i], "\n")
				r.Bad("C04.e", "samples/README.md", "template", sprintf("samples/README.md:%d", ln), "README.md is not what build_sample_md's template produces from filelist.txt and the checked-in samples (first difference at line "+sprintf("%d", ln)+"): a sample, the list or the README was edited without regenerating")
			}
		}
	}
	// pkg_all.foi
	if sh, err := os.ReadFile(filepath.Join(root, "pkg", "collect_all_foi.sh")); err == nil {
		var parts []string
		dest := ""
		for _, ln := range strings.Split(string(sh), "\n") {
			ws := strings.Fields(ln)
			if len(ws) > 0 && ws[0] == "cat" {
				for i := 1; i < len(ws); i++ {
					if ws[i] == ">" && i+1 < len(ws) {
						dest = ws[i+1]
						break
					}
					parts = append(parts, ws[i])
				}
			}
		}
		var b []byte
		for _, p := range parts {
			d, err := os.ReadFile(filepath.Join(root, "pkg", p))
			if err != nil {
				r.Bad("C04.e", "pkg/"+dest, "part "+p, "pkg/collect_all_foi.sh", err.Error())
			}
			b = append(b, d...)
		}
		have, err := os.ReadFile(filepath.Join(root, "pkg", dest))
		r.Check(err == nil && bytes.Equal(have, b) && len(parts) >= 5, "C04.e", "pkg/"+dest, "concatenation", "pkg/"+dest, sprintf("%s equals the concatenation of %d .foi files named in collect_all_foi.sh", dest, len(parts)),
			"pkg/"+dest+" is not the concatenation named in pkg/collect_all_foi.sh: a .foi was edited without regenerating (fc reads pkg_all.foi, FOI checks the individual files)")
	} else {
		r.Undecided("C04.e", "pkg/collect_all_foi.sh", "read", "pkg", err.Error())
	}
	// lib
	var sp []termSpec
	for _, t := range c14Specs["pkg/sys"] {
		if t.fn == "ReadFile" || t.fn == "WriteFile" {
			sp = append(sp, t)
		}
	}
	checkTermSpecsOpt(c, "C04.lib", "pkg/sys", sp, false)
	// the one declaration the compiler adds by itself (mirrored in the expected tables of (b))
	if f := c.LoadFC("fc"); f != nil {
		// (z) the agreement rules compare the checked-in files with what the REVIEWED emitters produce from the
		// sources (declaration shapes, emission order, inserted helpers, temporaries).  If an emitter changed, whether
		// every checked-in generated file is what the NEW emitters produce — i.e. whether everything was regenerated
		// after the change — is exactly what only running fc shows; the honest verdict is undecided.
		checkRelevantReviewedFormsWith(c, f, "C04.z", "the output buffer or are declared in the emitter modules (the emitters, whose output rules (b)-(h) model)", primSet("buf.Write", "buf.New", "buf.String"), 60,
			func(fn *ir.Func) string {
				if fn.Decl == nil {
					return ""
				}
				switch filepath.Base(f.M.Fset.Position(fn.Decl.Pos()).Filename) {
				case "gen_expr_to_go.go", "gen_stmt_to_go.go":
					return "declared in an emitter module"
				}
				if strings.HasSuffix(fn.Name, "ToGo") {
					return "an emitter by name"
				}
				return ""
			})
		have := handWrittenDigests(f)
		// (h) stands on the counter: its two hand-written functions are the reviewed ones
		for _, name := range []string{"uniqueTmpVarName", "resetUniqueTmpCounter"} {
			r.Check(have[name] != "" && have[name] == c01ReviewedGo[name], "C04.h", name, "typed-syntax", "fc/wrapper.go", "the counter function is the reviewed one",
				"the function behind the _vN temporaries was edited since rule (h) was written against it: what numbering regeneration yields is not decided")
		}
		for _, name := range c04LexerFunctions {
			want, ok := c01ReviewedGo[name]
			got, ok2 := have[name]
			switch {
			case !ok:
				r.Undecided("C04.lex", name, "typed-syntax", "fc/wrapper.go", "lexer function without a reviewed digest")
			case !ok2:
				r.Undecided("C04.lex", name, "typed-syntax", "fc/wrapper.go", "a reviewed lexer function no longer exists: the checker's tokenizer was written against it")
			case got != want:
				r.Undecided("C04.lex", name, "typed-syntax", "fc/wrapper.go", "the lexer function was edited since the checker's own tokenizer was written against it (canonical typed-syntax digest "+got+", reviewed "+want+"): whether every shipped source still tokenises as the checker assumes — and whether fc still reads its own sources — is not decided")
			default:
				r.OK("C04.lex", name, "typed-syntax", "fc/wrapper.go", "canonical digest "+got+" is the reviewed one")
			}
		}
		c.checkPins(f, "C04.imp", c04ImportPins)
		if v, ok := f.M.Main().Types.Scope().Lookup("frtImportPath").(*types.Var); ok {
			init := globalInit(f.Prog, v)
			lit, isLit := init.(*ir.Lit)
			w := globalWrites(f.Prog, v)
			r.Check(isLit && lit.Val == "github.com/karino2/folang/pkg/frt" && len(w) == 0, "C04.imp", "frtImportPath", "value", "fc",
				"frtImportPath is the constant import path of frt and is never written", "frtImportPath is not the constant github.com/karino2/folang/pkg/frt (or is written somewhere)")
		} else {
			r.Undecided("C04.imp", "frtImportPath", "definition", "fc", "anchor variable not found")
		}
	}
}

// the hand-written lexer (fc/wrapper.go)
var c04LexerFunctions = []string{"Token.end", "isAlnum", "isAlpha", "isCharAt", "isNeighborLT", "isNumber", "isStringAt", "newOneCharToken", "newStLikeToken", "newToken",
	"nextToken", "scanIdentifierToken", "scanIntImmToken", "scanRawStringLiteralToken", "scanSpaceToken", "scanStringLiteralToken", "scanTokenAt", "searchForward"}

var c04ImportPins = []pin{
	{"RootStmtsToGo", "nf", `strings.AppendTail("\n", strings.Concat("\n\n", slice.Map(RootStmtToGo, addFrtImportIfNecessary(p0))))`, "the statement list is emitted in order after the import adjustment"},
	{"addFrtImportIfNecessary", "nf", `if((slice.Forany(rsNeedsFrt, p0) && not(slice.Forany(rsIsFrtImport, p0))), if((slice.IsNotEmpty(p0) && rsIsPackage(slice.Head(p0))), slice.PushHead(slice.Head(p0), slice.PushHead(New_RootStmt_RSImport(var:frtImportPath), slice.Tail(p0))), slice.PushHead(New_RootStmt_RSImport(var:frtImportPath), p0)), p0)`,
		"frt is imported right after the package clause exactly when it is needed and not imported by the source"},
	{"rsNeedsFrt", "nf", `match(p0; RootStmt_RSDefStmt -> dsNeedsFrt(payload(RootStmt_RSDefStmt)); RootStmt_RSMultipleDefs -> slice.Forany(dsNeedsFrt, payload(RootStmt_RSMultipleDefs).Defs); _ -> false)`, "needed by type definitions only"},
	{"dsNeedsFrt", "nf", `match(p0; DefStmt_DUnionDef -> slice.Forany(ntpHasValue, udCases(payload(DefStmt_DUnionDef))); DefStmt_DRecordDef -> false; _ -> never)`, "needed by a union with a payload case (its Stringer calls frt.Sprintf1)"},
	{"ntpHasValue", "nf", `(p0.Ftype ne var:New_FType_FUnit)`, "a case has a payload when its type is not unit"},
	{"rsIsFrtImport", "nf", `match(p0; RootStmt_RSImport -> (payload(RootStmt_RSImport) eq var:frtImportPath); _ -> false)`, "the source already imports frt"},
	{"rsIsPackage", "nf", `match(p0; RootStmt_RSPackage -> true; _ -> false)`, "package clause"},
}

// ---------- (c2) function references per definition ----------

// compiler-inserted frt helpers: they have no counterpart token in the source
var compilerInsertedFrt = map[string]bool{"Pipe": true, "PipeUnit": true, "IfElse": true, "IfElseUnit": true, "IfOnly": true,
	"OpEqual": true, "OpNotEqual": true, "OpNot": true, "Destr2": true, "Destr3": true, "NewTuple2": true, "NewTuple3": true, "SInterP": true}

var dirFuncsCache = map[string]map[string]bool{}

// dirFuncs: names of the package-level functions declared by the Go files of a directory (syntax only).
func dirFuncs(dir string) map[string]bool {
	if m, ok := dirFuncsCache[dir]; ok {
		return m
	}
	m := map[string]bool{}
	ents, _ := os.ReadDir(dir)
	fset := token.NewFileSet()
	for _, e := range ents {
		if !strings.HasSuffix(e.Name(), ".go") || strings.HasSuffix(e.Name(), "_test.go") {
			continue
		}
		f, err := parser.ParseFile(fset, filepath.Join(dir, e.Name()), nil, parser.SkipObjectResolution)
		if err != nil {
			continue
		}
		for _, d := range f.Decls {
			if fd, ok := d.(*ast.FuncDecl); ok && fd.Recv == nil && !strings.HasPrefix(fd.Name.Name, "New_") {
				m[fd.Name.Name] = true
			}
		}
	}
	dirFuncsCache[dir] = m
	return m
}

// goFuncRefs: multiset of referenced package-level functions (own package: bare name; imported: pkg.Name) in a declaration,
// and the set of names declared locally inside it.
func goFuncRefs(n ast.Node, G map[string]bool, imports map[string]bool, caseStructs map[string]string) (map[string]int, map[string]bool) {
	refs := map[string]int{}
	locals := map[string]bool{}
	skip := map[*ast.Ident]bool{}
	typeSel := map[*ast.SelectorExpr]bool{}
	addFieldList := func(fl *ast.FieldList) {
		if fl == nil {
			return
		}
		for _, f := range fl.List {
			for _, id := range f.Names {
				locals[id.Name] = true
				skip[id] = true
			}
		}
	}
	// everything inside a type expression is a type reference, not a function reference
	var markType func(e ast.Expr)
	markType = func(e ast.Expr) {
		if e == nil {
			return
		}
		ast.Inspect(e, func(z ast.Node) bool {
			if id, ok := z.(*ast.Ident); ok {
				skip[id] = true
			}
			if se, ok := z.(*ast.SelectorExpr); ok {
				typeSel[se] = true
			}
			return true
		})
	}
	markFields := func(fl *ast.FieldList) {
		if fl == nil {
			return
		}
		for _, f := range fl.List {
			markType(f.Type)
		}
	}
	ast.Inspect(n, func(x ast.Node) bool {
		switch y := x.(type) {
		case *ast.FuncType:
			markFields(y.Params)
			markFields(y.Results)
		case *ast.CompositeLit:
			markType(y.Type)
		case *ast.ValueSpec:
			markType(y.Type)
		case *ast.TypeAssertExpr:
			markType(y.Type)
		case *ast.CaseClause:
			// type switch cases are types; value switch cases are expressions — generated type switches list case structs
		case *ast.IndexExpr:
			// f[T](…): explicit instantiation of a function
			if isFuncRefExpr(y.X, G, imports) {
				markType(y.Index)
			}
		case *ast.IndexListExpr:
			if isFuncRefExpr(y.X, G, imports) {
				for _, ix := range y.Indices {
					markType(ix)
				}
			}
		}
		return true
	})
	ast.Inspect(n, func(x ast.Node) bool {
		switch y := x.(type) {
		case *ast.FuncDecl:
			skip[y.Name] = true
			addFieldList(y.Type.Params)
		case *ast.FuncLit:
			addFieldList(y.Type.Params)
		case *ast.AssignStmt:
			if y.Tok == token.DEFINE {
				for _, l := range y.Lhs {
					if id, ok := l.(*ast.Ident); ok {
						locals[id.Name] = true
						skip[id] = true
					}
				}
			}
		case *ast.RangeStmt:
			for _, e := range []ast.Expr{y.Key, y.Value} {
				if id, ok := e.(*ast.Ident); ok {
					locals[id.Name] = true
					skip[id] = true
				}
			}
		case *ast.ValueSpec:
			for _, id := range y.Names {
				skip[id] = true
			}
		case *ast.KeyValueExpr:
			if id, ok := y.Key.(*ast.Ident); ok {
				skip[id] = true // field name of a composite literal
			}
		case *ast.SelectorExpr:
			skip[y.Sel] = true
			if id, ok := y.X.(*ast.Ident); ok && imports[id.Name] {
				skip[id] = true
				if !typeSel[y] && !(id.Name == "frt" && compilerInsertedFrt[y.Sel.Name]) {
					refs[id.Name+"."+y.Sel.Name]++
				}
			}
		}
		return true
	})
	ast.Inspect(n, func(x ast.Node) bool {
		if id, ok := x.(*ast.Ident); ok && !skip[id] && G[id.Name] {
			refs[id.Name]++
		}
		return true
	})
	// union cases: constructor uses New_<U>_<C> and type-switch labels <U>_<C>
	if caseStructs != nil {
		ast.Inspect(n, func(x ast.Node) bool {
			switch y := x.(type) {
			case *ast.Ident:
				if strings.HasPrefix(y.Name, "New_") {
					if c, ok := caseStructs[strings.TrimPrefix(y.Name, "New_")]; ok {
						refs["case "+c]++
					}
				}
			case *ast.CaseClause:
				for _, e := range y.List {
					if id, ok := e.(*ast.Ident); ok {
						if c, ok := caseStructs[id.Name]; ok {
							refs["case "+c]++
						}
					}
					if ix, ok := e.(*ast.IndexExpr); ok {
						if id, ok := ix.X.(*ast.Ident); ok {
							if c, ok := caseStructs[id.Name]; ok {
								refs["case "+c]++
							}
						}
					}
				}
			}
			return true
		})
	}
	return refs, locals
}

// foFuncRefs: the same multiset read off the Folang tokens of a let definition.
func foFuncRefs(ts []fo.Tok, defName string, G map[string]bool, imports map[string]bool, cases map[string]bool) map[string]int {
	refs := map[string]int{}
	seenName := false
	countGo := func(src string) {
		fset := token.NewFileSet()
		file := fset.AddFile("", fset.Base(), len(src))
		var s scanner.Scanner
		s.Init(file, []byte(src), nil, 0)
		prev, prevLit := token.ILLEGAL, ""
		pendingPkg := ""
		for {
			_, tok, lit := s.Scan()
			if tok == token.EOF {
				break
			}
			if tok == token.IDENT {
				switch {
				case prev == token.PERIOD && pendingPkg != "":
					if !(pendingPkg == "frt" && compilerInsertedFrt[lit]) {
						refs[pendingPkg+"."+lit]++
					}
				case prev == token.PERIOD:
				case G[lit]:
					refs[lit]++
				}
			}
			pendingPkg = ""
			if tok == token.PERIOD && prev == token.IDENT && imports[prevLit] {
				pendingPkg = prevLit
			}
			prev, prevLit = tok, lit
		}
	}
	toks := fo.NoEOL(ts)
	// type annotations (": T" up to the closing parenthesis or the "=" of the header) hold type names, not function references
	inType := make([]bool, len(toks))
	for i := 0; i < len(toks); i++ {
		if toks[i].Text != ":" || toks[i].Kind != fo.PUNCT {
			continue
		}
		depth := 0
		for j := i + 1; j < len(toks); j++ {
			tx := toks[j].Text
			if toks[j].Kind == fo.PUNCT {
				if tx == "(" || tx == "<" || tx == "[" {
					depth++
				}
				if tx == ">" || tx == "]" {
					depth--
				}
				if tx == ")" {
					if depth == 0 {
						break
					}
					depth--
				}
				if tx == "=" && depth <= 0 {
					break
				}
			}
			inType[j] = true
		}
	}
	// explicit type arguments: an identifier directly followed (no space) by "<" … ">"
	for i := 0; i+1 < len(toks); i++ {
		if toks[i].Kind == fo.IDENT && toks[i+1].Text == "<" && toks[i+1].Kind == fo.PUNCT && toks[i+1].Off == toks[i].Off+len(toks[i].Text) {
			depth := 0
			for j := i + 1; j < len(toks); j++ {
				if toks[j].Kind == fo.PUNCT && toks[j].Text == "<" {
					depth++
				}
				if toks[j].Kind == fo.PUNCT && toks[j].Text == ">" {
					depth--
				}
				if toks[j].Kind == fo.PUNCT && toks[j].Text == ">>" {
					depth -= 2
				}
				inType[j] = true
				if depth <= 0 {
					break
				}
			}
		}
	}
	for i, t := range toks {
		if inType[i] {
			continue
		}
		switch t.Kind {
		case fo.STRING, fo.RAWSTR:
			// GoEval text is Go code emitted verbatim
			for j := i - 1; j >= 0 && j >= i-12; j-- {
				if toks[j].Kind == fo.IDENT && toks[j].Text == "GoEval" {
					countGo(goEvalText(t))
					break
				}
				if toks[j].Kind == fo.STRING || toks[j].Kind == fo.RAWSTR {
					break
				}
			}
		case fo.IDENT:
			if !seenName && t.Text == defName {
				seenName = true
				continue
			}
			prevDot := i > 0 && toks[i-1].Text == "."
			nextDot := i+1 < len(toks) && toks[i+1].Text == "."
			if prevDot {
				if i >= 2 && toks[i-2].Kind == fo.IDENT && imports[toks[i-2].Text] && !(i >= 3 && toks[i-3].Text == ".") {
					if !(toks[i-2].Text == "frt" && compilerInsertedFrt[t.Text]) {
						refs[toks[i-2].Text+"."+t.Text]++
					}
				}
				continue
			}
			if nextDot && imports[t.Text] {
				continue // the package part of a qualified name
			}
			if G[t.Text] {
				refs[t.Text]++
			}
			if cases[t.Text] {
				refs["case "+t.Text]++
			}
		}
	}
	return refs
}

func isFuncRefExpr(e ast.Expr, G map[string]bool, imports map[string]bool) bool {
	switch x := e.(type) {
	case *ast.Ident:
		return G[x.Name]
	case *ast.SelectorExpr:
		if id, ok := x.X.(*ast.Ident); ok && imports[id.Name] {
			return true
		}
	}
	return false
}

var dirCasesCache = map[string]map[string]bool{}

// dirCases: the union case names of a directory's package, read off the generated constructors New_<Union>_<Case>
// (function or variable) whose <Union> is a declared interface type.  Returns case name -> true and the set of
// case-struct names <Union>_<Case>.
func dirCases(dir string) (map[string]bool, map[string]string) {
	key := dir
	structs := map[string]string{}
	if m, ok := dirCasesCache[key]; ok {
		for c := range dirCaseStructs[key] {
			structs[c] = dirCaseStructs[key][c]
		}
		return m, structs
	}
	m := map[string]bool{}
	ifaces := map[string]bool{}
	var ctors []string
	ents, _ := os.ReadDir(dir)
	fset := token.NewFileSet()
	for _, e := range ents {
		if !strings.HasSuffix(e.Name(), ".go") || strings.HasSuffix(e.Name(), "_test.go") {
			continue
		}
		f, err := parser.ParseFile(fset, filepath.Join(dir, e.Name()), nil, parser.SkipObjectResolution)
		if err != nil {
			continue
		}
		for _, d := range f.Decls {
			switch x := d.(type) {
			case *ast.FuncDecl:
				if x.Recv == nil && strings.HasPrefix(x.Name.Name, "New_") {
					ctors = append(ctors, x.Name.Name)
				}
			case *ast.GenDecl:
				for _, sp := range x.Specs {
					switch y := sp.(type) {
					case *ast.TypeSpec:
						if _, ok := y.Type.(*ast.InterfaceType); ok {
							ifaces[y.Name.Name] = true
						}
					case *ast.ValueSpec:
						for _, n := range y.Names {
							if strings.HasPrefix(n.Name, "New_") {
								ctors = append(ctors, n.Name)
							}
						}
					}
				}
			}
		}
	}
	for _, c := range ctors {
		rest := strings.TrimPrefix(c, "New_")
		i := strings.Index(rest, "_")
		if i <= 0 || !ifaces[rest[:i]] {
			continue
		}
		m[rest[i+1:]] = true
		structs[rest] = rest[i+1:]
	}
	dirCasesCache[key] = m
	dirCaseStructs[key] = structs
	return m, structs
}

var dirCaseStructs = map[string]map[string]string{}
