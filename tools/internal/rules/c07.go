package rules

import (
	"go/ast"
	"go/token"
	"go/types"
	"sort"
	"strings"

	"verif/tools/internal/ir"
)

// C07 — a definition's translation depends only on itself and what it references.
// Invariance under all histories is not decidable; decided are the mechanisms
// that bound what survives between definitions (DESIGN.md §C07).

func init() { Register("C07", checkC07) }

// who may add to the per-scope tables: declaration registration only
var scopeTableWriters = map[string][]string{
	"scDefVar":          {"VarFacMap"},
	"scRegisterVarFac":  {"VarFacMap"},
	"scRegisterTypeFac": {"TypeFacMap"},
	"scRegisterRecFac":  {"RecFacMap", "TypeFacMap"},
}

// written package-level variables and their allowed writers
var globalWriters = map[string][]string{
	"uniqueId":     {"uniqueTmpVarName", "resetUniqueTmpCounter"},
	"lastTkz":      {"SetLastTkz"},
	"g_recInfoDic": {"updateRecInfo"},
	"g_uniInfoDic": {"updateUniInfo"},
}

// constructions of a type-instance key without registration, with the reason they are exempt
var keyOnlyConstructions = map[string]string{
	"udToUtOnly": "non-generic union referenced by its payload-less constructor: registered at its definition by psRegUdToTDCtx -> tryUniFacToUniType",
}

func checkC07(c *Ctx) {
	r := c.R
	r.Explanation = "Invariance under all histories is not decidable; decided are the mechanisms that bound what survives between definitions, for every history at once: " +
		"(a) PAIR — abstract interpretation of the ParseState stack discipline over every parser function (scope, offside and type-definition depth relative to the function's own state; pinned primitives; callbacks discharged at every binding site) ⇒ the root scope is the only scope, the offside stack has its root entry and the type-definition mode is off at every top-level statement; " +
		"(b) per-definition reset: the state given to parseRawLet is psResetTmpCtx ps, which zeroes the temp counter and installs a fresh allocator and resolver; entering a type group resets its allocator and installs fresh dictionaries; " +
		"(c) one state over files: transpileFiles folds transpileOne over one initial state; transpileOne returns ParseAll's state (scope preserved by psSetNewSrc); " +
		"(d) output naming closed form gen_<base>.go next to the input, guarded by the .fo suffix; no other file-mutating API; " +
		"(e) global-state inventory: the only package-level variables written after initialisation are uniqueId, lastTkz and the two info dictionaries, each by its frozen writer set; lastTkz is read only for diagnostics; " +
		"(f) the per-scope tables (ScopeDict: VarFacMap/RecFacMap/TypeFacMap, exactly these fields) are written only by declaration registration — lookups are read-only, so nothing an unrelated *use* does can change a later resolution; " +
		"(g) every construction of a RecordType/UnionType instance key is paired with updateRecInfo/updateUniInfo on the same value (one frozen key-only exception), so the global info entry of an instance is always refreshed when the instance is produced."
	r.NotDecided = []string{"that entries of unrelated definitions never collide in the info dictionaries (keys are name + type arguments)", "inference-state leakage through info entries keyed with reset type-variable names", "renumbering of _vN temporaries is allowed by the statement"}
	r.Assumptions = []string{"dict.Add/TryFind behave as a finite map (C14)"}
	r.Rule("C07.b", "per-definition reset dominates the parsing of every top-level let; type groups start from fresh tables", 5)
	r.Rule("C07.c", "one ParseState is folded over the files and returned by ParseAll", 2)
	r.Rule("C07.d", "output naming closed form (part of transpileOne, C07.c); single write path", 2)
	r.Rule("C07.e", "written package-level variables are exactly the inventoried ones, each by its writers", 4)
	r.Rule("C07.e2", "package-level variables holding shared mutable storage (map/pointer/slice) are exactly the inventoried ones, and each occurrence is the direct operand of a lookup or of its frozen writer — never stored into a value, returned or passed on (an alias would be state shared by every definition that receives it)", 5)
	r.Rule("C07.f", "per-scope tables are written only by declaration registration", 5)
	r.Rule("C07.g", "type-instance keys are registered where they are constructed", 6)
	r.Rule("C07.h", "the scope tables are read only where a name is referenced (variable reference, type name, record literal): frozen who-may-read table", 8)
	r.Rule("C07.i", "the names of hoisted type parameters are a function of the definition alone: Ti by position among its own leftover variables (closed forms of InferLfd, hoistTVar, newTName)", 3)

	f := c.LoadFC("fc")
	if f == nil {
		return
	}
	_, frtProg, _ := libProg(c, "pkg/frt")
	if frtProg == nil {
		return
	}
	nr := noReturn(f.Prog, frtProg)
	// (a)
	runPair(c, f, nr)
	checkScopeReaders(c, f, "C07.h")
	{
		var ps []pin
		for _, p := range c02Pins {
			switch p.fn {
			case "InferLfd", "hoistTVar", "newTName":
				ps = append(ps, p)
			}
		}
		c.checkPins(f, "C07.i", ps)
		// the loop that replaces the placeholders of forward-declared types runs until the collector finds none: the
		// collector must see every component, or a placeholder survives in the global info table, where the next type
		// group — whose placeholders are numbered from the same start — resolves it to one of its own types
		var ps2 []pin
		for _, p := range c02Pins {
			switch p.fn {
			case "collectTVarFTypeWithSet", "transTVFTypeWithSet":
				ps2 = append(ps2, p)
			}
		}
		r.Rule("C07.j", "no placeholder of a forward-declared type survives its type group in the global info table: the collector and the substitution that drive the resolution loop have their reviewed closed forms (every component, generic or not)", 2)
		c.checkPins(f, "C07.j", ps2)
		// (k) which record type an unnamed record literal denotes: the types whose field-name SET is the literal's —
		// compared name by name.  Any coarser key (a hash, the names joined without a separator) lets a record type
		// the definition never mentions capture its literal.
		r.Rule("C07.k", "an unnamed record literal is matched against a record type by its field names, compared element by element (sorted lists of equal length); the candidates are tried in sorted name order", 2)
		c.checkPins(f, "C07.k", []pin{
			{"recFacMatch", "nf", `if((slice.Length(p0) ne slice.Length(p1.Fields)), false, (slice.Sort(p0) eq slice.Sort(slice.Map(\x0. x0.Name, p1.Fields))))`,
				"a literal matches a record type iff it has as many fields and the sorted name lists are equal as lists"},
			{"scLookupRecFacCur", "nf", `slice.TryFind(recFacMatch(p1, _), slice.Map(dict.Item(SCSDict(p0).RecFacMap, _), slice.Sort(dict.Keys(SCSDict(p0).RecFacMap))))`,
				"the first matching record type in sorted name order"},
		})
	}

	// (b)
	if t, fn := f.Term("parseRootLet"); fn != nil {
		pos := c.Pos(f.M.Fset, fn.Decl.Pos())
		n, good := 0, 0
		ir.Walk(t, func(x ir.Term) bool {
			if app, ok := isCallTo(x, f.Path+".parseRawLet"); ok && len(app.Args) == 2 {
				n++
				if ir.String(f.Path, app.Args[1]) == "psResetTmpCtx(p1)" {
					good++
				}
			}
			return true
		})
		r.Check(n > 0 && n == good, "C07.b", "parseRootLet", "reset-before-parse", pos, "parseRawLet receives psResetTmpCtx ps: counters and inference context of earlier definitions cannot leak in",
			"parseRawLet is called with a state that did not go through psResetTmpCtx")
	} else {
		r.Undecided("C07.b", "parseRootLet", "definition", "fc", "anchor function not found")
	}
	c.expectNF(f, "C07.b", "psResetTmpCtx", []string{"seq[resetUniqueTmpCounter()] psWithTVCtx(p0, newTypeVarCtx())"}, "reset = zero the temp counter, install a fresh type-variable context")
	c.expectNF(f, "C07.b", "resetUniqueTmpCounter", []string{"seq[assign(var:uniqueId = 0)]"}, "the temp counter restarts at 0")
	c.expectNF(f, "C07.b", "newTypeVarCtx", []string{`TypeVarCtx{tva: NewTypeVarAllocator("_T"), resolver: newResolver()}`}, "fresh allocator and fresh resolver")
	c.expectNF(f, "C07.b", "newResolver", []string{"Resolver{eid: dict.New()}"}, "fresh resolver dictionary")
	c.expectNF(f, "C07.b", "tvaReset", []string{"seq[(typeVarAllocator).Reset(p0)]"}, "type-group allocator reset")

	// (c)
	c.expectNF(f, "C07.c", "transpileFiles", []string{`seq[slice.Fold(transpileOne, initParse(""), p0)]`}, "one initial state folded over the file list in order")
	checkTranspileOneForm(c, f, "C07.c")
	// (d) naming is part of the closed form above; single write path:
	checkFileAPIs(c, "C07.d", f)

	// (e)
	writers := map[string]map[string]bool{}
	addW := func(g, fn string) {
		if writers[g] == nil {
			writers[g] = map[string]bool{}
		}
		writers[g][fn] = true
	}
	pkgScope := f.M.Main().Types.Scope()
	for _, fn := range f.Prog.Funcs {
		nf := f.N.Func(fn)
		ir.Walk(nf, func(t ir.Term) bool {
			switch x := t.(type) {
			case *ir.AssignT:
				if g := rootGlobal(x.LHS); g != nil && g.Obj.Pkg() == f.M.Main().Types {
					addW(g.Obj.Name(), fn.Name)
				}
			case *ir.AddrOf:
				if g := rootGlobal(x.X); g != nil && g.Obj.Pkg() == f.M.Main().Types {
					addW(g.Obj.Name(), fn.Name)
				}
			case *ir.App:
				if fr, ok := x.Fun.(*ir.FuncRef); ok && fr.Key == dictPath+".Add" && len(x.Args) == 3 {
					if g := rootGlobal(x.Args[0]); g != nil && g.Obj.Pkg() == f.M.Main().Types {
						addW(g.Obj.Name(), fn.Name)
					}
				}
				if x.Method && len(x.Args) > 0 {
					if g := rootGlobal(x.Args[0]); g != nil && g.Obj.Pkg() == f.M.Main().Types {
						if fr, ok := x.Fun.(*ir.FuncRef); ok && !strings.Contains(fr.Key, ").String") {
							addW(g.Obj.Name(), fn.Name)
						}
					}
				}
			}
			return true
		})
	}
	_ = pkgScope
	for _, g := range sortedKeys(globalWriters) {
		have := sortedKeysB(writers[g])
		want := append([]string{}, globalWriters[g]...)
		sort.Strings(want)
		r.Check(strings.Join(have, ",") == strings.Join(want, ","), "C07.e", g, "writers", "fc", g+" is written only by "+strings.Join(want, ", "),
			g+" is written by ["+strings.Join(have, ", ")+"], expected ["+strings.Join(want, ", ")+"]")
	}
	for g := range writers {
		if _, ok := globalWriters[g]; !ok {
			r.Undecided("C07.e", g, "new-written-global", "fc", "package-level variable "+g+" is written by "+strings.Join(sortedKeysB(writers[g]), ", ")+": state that survives between definitions and is not in the inventory")
		}
	}
	// (e2) shared mutable storage: package-level variables whose type holds a map, pointer, slice or channel
	checkMutableGlobals(c, f)
	checkRelevantReviewedForms(c, f, "C07.z", "a primitive of the state that survives between definitions (scope tables, info dictionaries, counters, type-definition context)",
		primSet("scDefVar", "scRegisterVarFac", "scRegisterTypeFac", "scRegisterRecFac", "scRegisterType", "scRegFunFac", "psPushScope", "psPopScope", "updateRecInfo", "updateUniInfo", "lookupRecInfo", "lookupUniInfo",
			"uniqueTmpVarName", "resetUniqueTmpCounter", "psResetTmpCtx", "psEnterTypeDef", "psLeaveTypeDef", "psSetNewSrc", "g_recInfoDic", "g_uniInfoDic", "encodedKey", "rtToKey", "uniToKey"), 30)
	// lastTkz readers: diagnostics only
	var readers []string
	for _, fn := range f.Prog.Funcs {
		reads := false
		ir.Walk(f.N.Func(fn), func(t ir.Term) bool {
			if g, ok := t.(*ir.Global); ok && g.Obj.Name() == "lastTkz" && g.Obj.Pkg() == f.M.Main().Types {
				reads = true
			}
			return true
		})
		if reads && fn.Name != "SetLastTkz" {
			readers = append(readers, fn.Name)
		}
	}
	sort.Strings(readers)
	okReaders := true
	for _, rd := range readers {
		if rd != "PanicNow" && rd != "GetLastTkz" {
			okReaders = false
		}
	}
	getUsers := 0
	for _, fn := range f.Prog.Funcs {
		ir.WalkFunc(fn, func(t ir.Term) bool {
			if fr, ok := t.(*ir.FuncRef); ok && fr.Key == f.Path+".GetLastTkz" {
				getUsers++
			}
			return true
		})
	}
	r.Check(okReaders && getUsers == 0, "C07.e", "lastTkz", "readers", "fc", "lastTkz is read only by PanicNow (diagnostic position); GetLastTkz has no caller in the package",
		"lastTkz is read by "+strings.Join(readers, ", ")+sprintf(" and GetLastTkz is referenced %d time(s)", getUsers)+": tokenizer state of an earlier definition can influence translation")

	// (f)
	if sd, ok := f.M.Main().Types.Scope().Lookup("ScopeDict").(*types.TypeName); ok {
		st, _ := sd.Type().Underlying().(*types.Struct)
		var fields []string
		for i := 0; st != nil && i < st.NumFields(); i++ {
			fields = append(fields, st.Field(i).Name())
		}
		sort.Strings(fields)
		r.Check(strings.Join(fields, ",") == "RecFacMap,TypeFacMap,VarFacMap", "C07.f", "ScopeDict", "fields", "fc", "a scope holds exactly the three declaration tables",
			"ScopeDict has fields ["+strings.Join(fields, ",")+"]: additional per-scope state (caches, memo tables) survives between definitions and is outside the analysed tables")
	} else {
		r.Undecided("C07.f", "ScopeDict", "definition", "fc", "anchor type not found")
	}
	tableWrites := map[string]map[string]bool{}
	for _, fn := range f.Prog.Funcs {
		if f.IsNewHelper(fn) {
			continue
		}
		ir.Walk(f.N.Func(fn), func(t ir.Term) bool {
			app, ok := t.(*ir.App)
			if !ok {
				return true
			}
			fr, ok := app.Fun.(*ir.FuncRef)
			if !ok || !strings.HasPrefix(fr.Key, dictPath+".") || len(app.Args) == 0 {
				return true
			}
			if fr.Key != dictPath+".Add" {
				return true
			}
			if fl, ok := app.Args[0].(*ir.Field); ok {
				switch fl.Name {
				case "VarFacMap", "RecFacMap", "TypeFacMap":
					if tableWrites[fn.Name] == nil {
						tableWrites[fn.Name] = map[string]bool{}
					}
					tableWrites[fn.Name][fl.Name] = true
				}
			}
			return true
		})
	}
	// a registration function that delegates to another registration function writes what that one writes
	// (scRegisterType → scRegisterTypeFac today; scDefVar → scRegisterVarFac after a clean-up)
	for round := 0; round < len(scopeTableWriters); round++ {
		for w := range scopeTableWriters {
			fn, ok := f.Prog.ByName[w]
			if !ok {
				continue
			}
			ir.Walk(f.N.Func(fn), func(t ir.Term) bool {
				if app, ok := t.(*ir.App); ok {
					if fr, ok := app.Fun.(*ir.FuncRef); ok && strings.HasPrefix(fr.Key, f.Path+".") {
						callee := strings.TrimPrefix(fr.Key, f.Path+".")
						if _, reg := scopeTableWriters[callee]; reg && callee != w {
							for k := range tableWrites[callee] {
								if tableWrites[w] == nil {
									tableWrites[w] = map[string]bool{}
								}
								tableWrites[w][k] = true
							}
						}
					}
				}
				return true
			})
		}
	}
	for _, w := range sortedKeys(scopeTableWriters) {
		have := sortedKeysB(tableWrites[w])
		want := append([]string{}, scopeTableWriters[w]...)
		sort.Strings(want)
		r.Check(strings.Join(have, ",") == strings.Join(want, ","), "C07.f", w, "table-writes", "fc", w+" adds to "+strings.Join(want, ", "), w+" adds to ["+strings.Join(have, ",")+"], expected ["+strings.Join(want, ",")+"]")
	}
	for w := range tableWrites {
		if _, ok := scopeTableWriters[w]; !ok {
			r.Bad("C07.f", w, "table-writes", "fc", w+" adds to the per-scope table(s) "+strings.Join(sortedKeysB(tableWrites[w]), ", ")+" although it is not a declaration-registration function: a use (lookup, expression) leaves a trace that later, unrelated definitions can observe")
		}
	}

	// (g)
	for _, fn := range f.Prog.Funcs {
		if !fn.Generated {
			continue
		}
		nf := f.N.Func(fn)
		updates := map[string]bool{}
		ir.Walk(nf, func(t ir.Term) bool {
			for _, k := range []string{"updateRecInfo", "updateUniInfo"} {
				if app, ok := isCallTo(t, f.Path+"."+k); ok && len(app.Args) == 2 {
					updates[ir.String(f.Path, app.Args[0])] = true
				}
			}
			return true
		})
		seen := map[string]bool{}
		ir.Walk(nf, func(t ir.Term) bool {
			rec, ok := t.(*ir.Record)
			if !ok {
				return true
			}
			tn := ir.CaseName(rec.Type)
			if tn != "RecordType" && tn != "UnionType" {
				return true
			}
			s := ir.String(f.Path, rec)
			if seen[s] {
				return true
			}
			seen[s] = true
			pos := c.Pos(f.M.Fset, fn.Decl.Pos())
			if why, ok := keyOnlyConstructions[fn.Name]; ok {
				r.OK("C07.g", fn.Name, tn+"-key", pos, "frozen key-only construction: "+why)
				return true
			}
			r.Check(updates[s], "C07.g", fn.Name, tn+" "+short(s, 60), pos, "the instance "+short(s, 80)+" is registered by update"+strings.TrimSuffix(tn[:3], "o")+"…Info in the same function",
				"a "+tn+" instance key "+short(s, 100)+" is built without refreshing its entry in the global info table: the entry may be stale or missing depending on what earlier definitions happened to instantiate")
			return true
		})
	}
	// the key under which an instance's info is stored: name, separator, type arguments — always with the separator,
	// so the key of a non-generic type ("Name_") cannot be the key of an instance of a generic one ("Name_targ")
	for _, name := range []string{"encodedKey", "rtToKey", "uniToKey", "lookupRecInfo", "updateRecInfo", "lookupUniInfo", "updateUniInfo"} {
		c.expectNF(f, "C07.g", name, []string{map[string]string{
			"encodedKey":    `frt.SInterP("%s_%s", p0, strings.Concat("_", slice.Map(FTypeToGo, p1)))`,
			"rtToKey":       "encodedKey(p0.Name, p0.Targs)",
			"uniToKey":      "encodedKey(p0.Name, p0.Targs)",
			"lookupRecInfo": `seq[if(not(#1(dict.TryFind(var:g_recInfoDic, rtToKey(p0)))), seq[PanicNow(<msg>)])] #0(dict.TryFind(var:g_recInfoDic, rtToKey(p0)))`,
			"updateRecInfo": "seq[dict.Add(var:g_recInfoDic, rtToKey(p0), p1)]",
			"lookupUniInfo": `seq[if(not(#1(dict.TryFind(var:g_uniInfoDic, uniToKey(p0)))), seq[PanicNow(<msg>)])] #0(dict.TryFind(var:g_uniInfoDic, uniToKey(p0)))`,
			"updateUniInfo": "seq[dict.Add(var:g_uniInfoDic, uniToKey(p0), p1)]",
		}[name]}, "the info dictionaries are keyed by name + separator + printed type arguments, read and written through the same key function")
	}
}

func rootGlobal(t ir.Term) *ir.Global {
	for {
		switch x := t.(type) {
		case *ir.Global:
			return x
		case *ir.Index:
			t = x.X
		case *ir.Field:
			t = x.X
		case *ir.SliceOf:
			t = x.X
		default:
			return nil
		}
	}
}

// mutable package-level storage of fc and what each may be used for (frozen, one reason each)
var mutableGlobals = map[string]string{
	"keywordMap":      "constant table: keyword spelling -> token (read by index only)",
	"binOpMap":        "constant table: operator token -> rank, Go operator (read by index only)",
	"binOpMapWrapper": "dict view of binOpMap for lookupBinOp (read by dict.TryFind only)",
	"g_recInfoDic":    "record instance -> fields; written only by updateRecInfo (C07.e), read by lookupRecInfo",
	"g_uniInfoDic":    "union instance -> cases; written only by updateUniInfo (C07.e), read by lookupUniInfo",
}

func typeHoldsMutable(t types.Type, depth int) bool {
	if depth > 6 || t == nil {
		return false
	}
	switch x := t.(type) {
	case *types.Map, *types.Pointer, *types.Slice, *types.Chan:
		return true
	case *types.Named:
		return typeHoldsMutable(x.Underlying(), depth+1)
	case *types.Alias:
		return typeHoldsMutable(types.Unalias(x), depth+1)
	case *types.Struct:
		for i := 0; i < x.NumFields(); i++ {
			if typeHoldsMutable(x.Field(i).Type(), depth+1) {
				return true
			}
		}
	case *types.Array:
		return typeHoldsMutable(x.Elem(), depth+1)
	}
	return false
}

func checkMutableGlobals(c *Ctx, f *FC) {
	r := c.R
	pkg := f.M.Main()
	sc := pkg.Types.Scope()
	isMut := map[*types.Var]bool{}
	for _, name := range sc.Names() {
		v, ok := sc.Lookup(name).(*types.Var)
		if !ok {
			continue
		}
		t := v.Type()
		mut := typeHoldsMutable(t, 0)
		if _, isIface := t.Underlying().(*types.Interface); isIface {
			// an interface-typed variable: decided by the type of its initialiser
			if init := globalInit(f.Prog, v); init != nil {
				if rec, ok := init.(*ir.Record); ok {
					mut = typeHoldsMutable(rec.Type, 0)
				} else {
					mut = true
				}
			}
		}
		if !mut {
			continue
		}
		isMut[v] = true
		why, known := mutableGlobals[name]
		if known {
			r.OK("C07.e2", name, "inventoried", "fc", why)
		} else if readOnlyTable(f, v) {
			delete(isMut, v)
			r.OK("C07.e2", name, "read-only-table", c.Pos(f.M.Fset, v.Pos()), "a lookup table: initialised by a composite literal and only indexed, ranged over or measured afterwards (never assigned, never an operand of delete/append, never passed on or aliased): nothing can be stored in it")
		} else {
			r.Undecided("C07.e2", name, "inventoried", c.Pos(f.M.Fset, v.Pos()), "package-level variable "+name+" of type "+types.TypeString(t, types.RelativeTo(pkg.Types))+" holds shared mutable storage and is not in the inventory: whatever is stored in it (directly or through an alias) survives between definitions and files")
		}
	}
	// every occurrence is the direct operand of a lookup / frozen writer
	readers := map[string]bool{dictPath + ".TryFind": true, dictPath + ".ContainsKey": true, dictPath + ".Item": true, dictPath + ".Add": true}
	for _, fn := range f.Prog.Funcs {
		nf := f.N.Func(fn)
		allowed := map[ir.Term]bool{}
		ir.Walk(nf, func(t ir.Term) bool {
			switch x := t.(type) {
			case *ir.App:
				if fr, ok := x.Fun.(*ir.FuncRef); ok && readers[fr.Key] && len(x.Args) > 0 {
					allowed[x.Args[0]] = true
				}
			case *ir.Index:
				allowed[x.X] = true
			}
			return true
		})
		esc := map[string]bool{}
		ir.Walk(nf, func(t ir.Term) bool {
			if g, ok := t.(*ir.Global); ok && isMut[g.Obj] && !allowed[t] {
				esc[g.Obj.Name()] = true
			}
			return true
		})
		for _, g := range sortedKeysB(esc) {
			r.Bad("C07.e2", g, "escapes in "+fn.Name, c.Pos(f.M.Fset, fn.Decl.Pos()), "the shared mutable variable "+g+" is stored into a value, returned or passed on in "+fn.Name+" instead of being the direct operand of a lookup: every value that receives it aliases one storage, so what one definition (or one package_info block, or one file) adds is seen by all later ones")
		}
	}
}

// (h) who may READ the scope tables.  A definition is affected by another only through a name it references: the
// tables of a scope are consulted where a name is referenced — a variable reference, a type name, a record literal —
// and nowhere else.  A further reader (a "not defined yet?" test at a binder, a choice of fresh names that avoids
// the names in scope) makes the translation of a definition depend on unrelated definitions that happen to be in
// scope.  Frozen who-may-reference table on resolved symbols; a helper added since the review counts as the reviewed
// functions that use it.
var scopeReaders = map[string][]string{
	"scLookupVarFac":       {"parseVarRef", "refVar"},
	"scLookupTypeFac":      {"parseAtomType"},
	"scLookupRecFac":       {"parseRecordGen"},
	"scLookupRecFacByName": {"parseRecordGen"},
	"scLookupRecFacCur":    {"scLookupRecFac"},
	"SCSDict":              {"scDefVar", "scRegisterVarFac", "scRegisterRecFac", "scRegisterTypeFac", "scLookupVarFac", "scLookupRecFacCur", "scLookupRecFacByName", "scLookupTypeFac"},
	"SCParent":             {"popScope", "scLookupVarFac", "scLookupRecFac", "scLookupRecFacByName", "scLookupTypeFac"},
	"SCHasParent":          {"scLookupVarFac", "scLookupRecFac", "scLookupRecFacByName", "scLookupTypeFac"},
}

func checkScopeReaders(c *Ctx, f *FC, rule string) {
	r := c.R
	refs := map[string]map[string]bool{}
	for _, at := range f.Attributed() {
		owner := at.Owner.Name
		ir.WalkFunc(at.Body, func(t ir.Term) bool {
			if fr, ok := t.(*ir.FuncRef); ok && strings.HasPrefix(fr.Key, f.Path+".") {
				name := strings.TrimPrefix(fr.Key, f.Path+".")
				if _, ok := scopeReaders[name]; ok && owner != name {
					if refs[name] == nil {
						refs[name] = map[string]bool{}
					}
					refs[name][owner] = true
				}
			}
			return true
		})
	}
	for _, sym := range sortedKeys(scopeReaders) {
		allowed := map[string]bool{}
		for _, a := range scopeReaders[sym] {
			allowed[a] = true
		}
		var extra []string
		for h := range refs[sym] {
			if !allowed[h] {
				extra = append(extra, h)
			}
		}
		sort.Strings(extra)
		if len(refs[sym]) == 0 {
			r.Undecided(rule, sym, "who-may-read", "fc", "symbol not found or never referenced (renamed?)")
			continue
		}
		r.Check(len(extra) == 0, rule, sym, "who-may-read", "fc", sym+" is referenced only by "+strings.Join(sortedKeysB(refs[sym]), ", ")+" — where a name is referenced",
			sym+" is also referenced by "+strings.Join(extra, ", ")+": the scope tables are consulted outside name resolution, so what this function decides or emits can depend on unrelated definitions that happen to be in scope (their presence, order, or the file they are in)")
	}
}

// checkTranspileOneForm: the closed form of transpileOne with the written content masked (what the content may be
// is decided by C16.b and C05.f): the state returned is ParseAll's, every X.fo argument — and only a .fo argument —
// is written, to gen_X.go next to it, and a failed write or read ends in a diagnostic.
func checkTranspileOneForm(c *Ctx, f *FC, rule string) {
	const PA = "ParseAll(psSetNewSrc(#0(sys.ReadFile(p1)), p0))"
	const DEST = `path/filepath.Join(path/filepath.Dir(p1), (("gen_" + strings.TrimSuffix(".fo", path/filepath.Base(p1))) + ".go"))`
	const specT1 = `seq[frt.Printf1("transpile: %s\n", p1)] if(#1(sys.ReadFile(p1)), seq[defer(OnParseError(p1)); if(strings.HasSuffix(".fo", p1), seq[if(not(sys.WriteFile(` + DEST + `, <content>)), seq[frt.Panicf1("Can't write file: %s", ` + DEST + `)])])] #0(` + PA + `), seq[frt.Panicf1("Can't open file: %s", p1)] p0)`
	const whyT1 = "the state returned is ParseAll's; a .foi argument contributes declarations and writes nothing; every X.fo yields gen_X.go next to it"
	if nf, fn := f.NF("transpileOne"); fn != nil {
		masked := nf
		ir.Walk(f.N.Func(fn), func(t ir.Term) bool {
			if app, ok := isCallTo(t, sysPath+".WriteFile"); ok && len(app.Args) == 2 {
				masked = strings.ReplaceAll(masked, "sys.WriteFile("+ir.String(f.Path, app.Args[0])+", "+ir.String(f.Path, app.Args[1])+")", "sys.WriteFile("+ir.String(f.Path, app.Args[0])+", <content>)")
			}
			return true
		})
		masked = f.canon(masked)
		c.R.Check(masked == f.canonSpec(specT1), rule, "transpileOne", "closed-form", c.Pos(f.M.Fset, fn.Decl.Pos()), whyT1+": "+masked,
			"closed form is not the specification term ("+whyT1+"); "+diffHint(masked, f.canonSpec(specT1)))
	} else {
		c.R.Undecided(rule, "transpileOne", "definition", f.M.Dir, "anchor function not found (renamed or removed): "+whyT1)
	}
}

// readOnlyTable: v is a package-level map/slice/array initialised by a composite literal whose every occurrence in
// the package is a read — the operand of an index expression that is not assigned to, of range, or of len.
func readOnlyTable(f *FC, v *types.Var) bool {
	pkg := f.M.Main()
	info := pkg.TypesInfo
	switch v.Type().Underlying().(type) {
	case *types.Map, *types.Slice, *types.Array:
	default:
		return false
	}
	initOK := false
	ok := true
	for _, file := range pkg.Syntax {
		var stack []ast.Node
		ast.Inspect(file, func(n ast.Node) bool {
			if n == nil {
				stack = stack[:len(stack)-1]
				return true
			}
			stack = append(stack, n)
			id, isID := n.(*ast.Ident)
			if !isID {
				return true
			}
			if info.Defs[id] == v {
				// the declaration: var v = T{…}
				if len(stack) >= 2 {
					if vs, isVS := stack[len(stack)-2].(*ast.ValueSpec); isVS && len(vs.Values) == len(vs.Names) {
						for i, nm := range vs.Names {
							if nm == id {
								if _, isCL := vs.Values[i].(*ast.CompositeLit); isCL {
									initOK = true
								}
							}
						}
					}
				}
				return true
			}
			if info.Uses[id] != v || len(stack) < 2 {
				return true
			}
			switch p := stack[len(stack)-2].(type) {
			case *ast.IndexExpr:
				if p.X != id {
					ok = false
					return true
				}
				// the index expression must not be assigned to, incremented or have its address taken
				if len(stack) >= 3 {
					switch g := stack[len(stack)-3].(type) {
					case *ast.AssignStmt:
						for _, l := range g.Lhs {
							if l == p {
								ok = false
							}
						}
					case *ast.IncDecStmt:
						ok = false
					case *ast.UnaryExpr:
						if g.Op == token.AND {
							ok = false
						}
					}
				}
			case *ast.RangeStmt:
				if p.X != id {
					ok = false
				}
			case *ast.CallExpr:
				fid, isF := p.Fun.(*ast.Ident)
				if !isF || fid.Name != "len" {
					ok = false
				}
			default:
				ok = false
			}
			return true
		})
	}
	return initOK && ok
}
