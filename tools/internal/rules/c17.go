package rules

import (
	"go/ast"
	"go/constant"
	"strings"

	"verif/tools/internal/ir"
)

// C17 — tinyfo (bootstrap transpiler) preserves behaviour on the early-Folang subset.
// Behavioural equivalence of two independent transpilers is NOT decidable
// statically.  Decided is sibling agreement (Engler et al.): tinyfo and fc are
// two implementations of one interface, so their tables, algorithm facts and
// emission shapes must agree.

func init() { Register("C17", checkC17) }

func checkC17(c *Ctx) {
	r := c.R
	r.Explanation = "Behavioural equivalence of two independent transpilers over all programs is NOT decided. Decided is sibling agreement between tinyfo and fc, the two implementations of one language: " +
		"(a) every entry of tinyfo's operator table has the same rank class order and Go operator as the published table that fc's table is checked against (C08.a); tinyfo's keywords are a subset of fc's with the same token names; " +
		"(b) tinyfo's precedence loop has the same three facts (stop iff rank < minPrec, right operand at rank+1, entry minPrec 1, node(cur, rhs) in order); " +
		"(c) tinyfo's driver computes the same output path and .foi skip as fc (C07.d); " +
		"(d) emission shapes: the closed forms (cell identity kept) of tinyfo's 18 emitters for the constructs both transpilers share were reviewed against fc's emission templates (C01/C03) — fields, arguments, elements, statements and arms in source order, supplied arguments of a partial application inside the closure exactly as fc emits them, conditionals over lazy blocks — and are frozen; " +
		"(e) tinyfo is kept 'for record keeping' (README) and its parser/AST builders are imperative code for which normal forms are not faithful closed forms, so beyond the emitters the check is change detection against a reviewed baseline: each of the 256 non-test functions has a canonical typed-syntax digest (locals numbered, comments/positions/formatting/local names immaterial); a different digest is undecided; " +
		"(f) two lowering facts read off the typed syntax for diagnosability: the `=`/`<>` branch of NewBinOpCall returns the table's function applied to (lhs, rhs) on every path, and parseDestLetDefVar binds the k-th name to the k-th tuple component."
	r.NotDecided = []string{"everything else: tinyfo's parser (offside handling, match parsing), its per-call type-parameter resolution, and the run-time behaviour of emitted programs"}
	r.Assumptions = []string{"fc's own emission templates and tables are the reference (decided under C01, C03, C08)"}
	r.Rule("C17.a", "operator table and keywords agree with fc / the published table", 20)
	r.Rule("C17.b", "precedence loop facts agree with fc", 1)
	r.Rule("C17.c", "driver output naming agrees with fc", 1)
	r.Rule("C17.e", "tinyfo is a record (README): every non-test function still has the canonical typed-syntax digest whose agreement with fc was reviewed", 250)
	r.Rule("C17.f", "lowering facts outside the emitters: `=`/`<>` always become the call of the table's function on (lhs, rhs); destructuring binds the k-th name to the k-th component type", 2)
	r.Rule("C17.d", "emission shapes of the shared constructs agree with fc's templates (reviewed closed forms)", 15)
	t := c.LoadFC("tinyfo")
	f := c.LoadFC("fc")
	if t == nil || f == nil {
		return
	}
	// (a) operator table: tinyfo has no IsBool column; ranks and Go operators are compared with the published table
	tab := checkBinOpTableOpt(c, "C17.a", t.M, "binOpMap", "", "tinyfo", false, true)
	for _, e := range tab {
		if want, ok := publishedGoOp[e.Token]; ok {
			r.Check(e.GoOp == want, "C17.a", "tinyfo.binOpMap", "go-operator "+e.Token, e.Pos, e.Token+" is emitted as "+want+" in both transpilers", e.Token+" is emitted as "+e.GoOp+" by tinyfo, "+want+" by fc")
		}
	}
	// keywords
	kw := func(fcm *FC, prefix string) map[string]string {
		res := map[string]string{}
		for _, file := range fcm.M.Main().Syntax {
			for _, d := range file.Decls {
				gd, ok := d.(*ast.GenDecl)
				if !ok {
					continue
				}
				for _, sp := range gd.Specs {
					vs, ok := sp.(*ast.ValueSpec)
					if !ok || len(vs.Names) != 1 || vs.Names[0].Name != "keywordMap" || len(vs.Values) != 1 {
						continue
					}
					cl, ok := vs.Values[0].(*ast.CompositeLit)
					if !ok {
						continue
					}
					for _, el := range cl.Elts {
						kv, ok := el.(*ast.KeyValueExpr)
						if !ok {
							continue
						}
						tv := fcm.M.Main().TypesInfo.Types[kv.Key]
						id, ok2 := kv.Value.(*ast.Ident)
						if tv.Value != nil && tv.Value.Kind() == constant.String && ok2 {
							res[constant.StringVal(tv.Value)] = strings.TrimPrefix(id.Name, prefix)
						}
					}
				}
			}
		}
		return res
	}
	tk, fk := kw(t, ""), kw(f, "New_TokenType_")
	if len(tk) < 10 || len(fk) < 10 {
		r.Undecided("C17.a", "keywordMap", "tables", "tinyfo/parser.go", "keyword tables not found")
	}
	for _, k := range sortedKeys(tk) {
		r.Check(fk[k] == tk[k], "C17.a", "tinyfo.keywordMap", "keyword "+k, "tinyfo/parser.go", "keyword "+k+" is token "+tk[k]+" in both transpilers", "keyword "+k+" is token "+tk[k]+" in tinyfo but "+fk[k]+" in fc")
	}
	// (b) precedence loop
	ks := ir.NewNormalizer()
	ks.KeepShared = true
	if fn, ok := t.Prog.ByName["Parser.parseExprWithPrecedence"]; ok {
		nf := ir.String(t.Path, ks.Func(fn))
		want := "seq[assign($0 := (Parser).parseTerm(p0)); for((); (Parser).nextNonEOLIsBinOp(p0); ()){seq[(Parser).skipEOL(p0); assign($1 := (Parser).Current(p0).ttype); assign($2 := var:binOpMap[$1])] if(($2.precedence < p1), return($0), seq[(Parser).consume(p0, $1); assign($3 := (Parser).parseExprWithPrecedence(p0, ($2.precedence + 1))); assign($0 = NewBinOpCall($1, $2, $0, $3))])}] $0"
		r.Check(canonDiag(nf) == canonDiag(want), "C17.b", "Parser.parseExprWithPrecedence", "closed-form", c.Pos(t.M.Fset, fn.Decl.Pos()),
			"same three facts as fc's parseBinAfter: stop iff rank < minPrec, right operand at rank+1, node(cur, rhs), minPrec unchanged in the loop", "tinyfo's precedence loop departs from fc's; "+diffHint(nf, want))
	} else {
		r.Undecided("C17.b", "Parser.parseExprWithPrecedence", "definition", "tinyfo", "anchor function not found")
	}
	if fn, ok := t.Prog.ByName["Parser.parseExpr"]; ok {
		nf := ir.String(t.Path, ks.Func(fn))
		r.Check(nf == "(Parser).parseExprWithPrecedence(p0, 1)", "C17.b", "Parser.parseExpr", "entry-minPrec", c.Pos(t.M.Fset, fn.Decl.Pos()), "entry minPrec 1, as in fc", "entry is "+nf)
	}
	// (c) driver
	if fn, ok := t.Prog.ByName["main"]; ok {
		nf := ir.String(t.Path, ks.Func(fn))
		frag := `if(strings.HasSuffix($3, ".fo"), seq[assign($8 := path/filepath.Dir($3)); assign($9 := strings.TrimSuffix(path/filepath.Base($3), ".fo")); assign($10 := path/filepath.Join($8, (("gen_" + $9) + ".go"))); os.WriteFile($10, conv[[]byte]($7), `
		r.Check(strings.Contains(nf, frag), "C17.c", "tinyfo.main", "output-naming", c.Pos(t.M.Fset, fn.Decl.Pos()),
			"X.fo yields gen_X.go next to it; other arguments (.foi) yield no file — as fc (C07.d)", "tinyfo's driver no longer computes gen_<base>.go next to the input guarded by the .fo suffix: "+short(nf, 300))
	} else {
		r.Undecided("C17.c", "tinyfo.main", "definition", "tinyfo", "anchor function not found")
	}
	// (d)
	c.checkPins(t, "C17.d", c17EmitterPins)
	// (e) (f)
	checkTinyfoRecord(c, t)
	checkTinyfoFacts(c, t)
}
