package rules

import (
	"os"
	"path/filepath"
	"sort"
	"strings"

	"verif/tools/internal/fo"
)

// (i) record literals resolve to one type.  An unqualified record literal {A=…; B=…} gets its type from the set of
// its field names: fc takes a record type of the program whose field names are exactly that set.  When two record
// types have the same field names the choice is the compiler's tie-break — not what the author of the literal, who
// renamed a field by hand on both sides, had in mind — and regeneration emits another type than the checked-in
// file names.  Decided on the checker's own token stream: the record types of the program (all sources of the
// recipe for fc, the file itself for a sample or the tool) against every unqualified literal.

type foRecType struct {
	name string
	flds []string
	file string
}

func recordTypesOf(files []string) []foRecType {
	var res []foRecType
	for _, file := range files {
		src, err := os.ReadFile(file)
		if err != nil {
			continue
		}
		toks, err := fo.Tokenize(string(src))
		if err != nil {
			continue
		}
		for _, seg := range fo.Segments(toks) {
			if seg.Kind != "type" {
				continue
			}
			ds, why := typeDecls(seg.Toks)
			if why != "" {
				continue
			}
			for _, d := range ds {
				if d.kind == "struct" && d.rec {
					fl := append([]string{}, d.flds...)
					sort.Strings(fl)
					res = append(res, foRecType{d.name, fl, filepath.Base(file)})
				}
			}
		}
	}
	return res
}

type recLit struct {
	line int
	flds []string
}

// unqualifiedRecordLiterals: {F=…; G=…} without a Type. qualifier, outside type positions.
func unqualifiedRecordLiterals(ts []fo.Tok) []recLit {
	toks := fo.NoEOL(ts)
	inType := foTypePositions(toks)
	var res []recLit
	for i := 0; i+2 < len(toks); i++ {
		if toks[i].Text != "{" || toks[i].Kind != fo.PUNCT || inType[i] {
			continue
		}
		if toks[i+1].Kind != fo.IDENT || toks[i+2].Text != "=" {
			continue
		}
		// fields at depth 1 of this brace
		depth := 0
		var flds []string
		for j := i; j < len(toks); j++ {
			t := toks[j]
			if t.Kind == fo.PUNCT {
				switch t.Text {
				case "{", "(", "[":
					depth++
				case "}", ")", "]":
					depth--
				}
			}
			if depth == 0 {
				break
			}
			if depth == 1 && t.Kind == fo.IDENT && j+1 < len(toks) && toks[j+1].Text == "=" && j >= 1 {
				p := toks[j-1]
				if p.Text == "{" || p.Text == ";" || p.Line < t.Line {
					flds = append(flds, t.Text)
				}
			}
		}
		sort.Strings(flds)
		res = append(res, recLit{toks[i].Line, flds})
	}
	return res
}

func checkRecordLiteralsUnambiguous(c *Ctx, label string, files []string, lets map[string][]fo.Tok, names []string) {
	r := c.R
	recs := recordTypesOf(files)
	n := 0
	for _, name := range names {
		for k, lit := range unqualifiedRecordLiterals(lets[name]) {
			var cands []string
			for _, rt := range recs {
				if strings.Join(rt.flds, ",") == strings.Join(lit.flds, ",") {
					cands = append(cands, rt.name+" ("+rt.file+")")
				}
			}
			if len(cands) == 0 {
				continue // a type this rule does not see (or a form it does not read): not decided
			}
			n++
			r.Check(len(cands) == 1, "C04.i", label+"."+name, sprintf("record-literal#%d", k+1), sprintf("%s:%d", label, lit.line),
				"the unqualified record literal {"+strings.Join(lit.flds, ", ")+"} has the field names of exactly one record type: "+cands[0],
				"the unqualified record literal {"+strings.Join(lit.flds, ", ")+"} has the field names of "+sprintf("%d", len(cands))+" record types ("+strings.Join(cands, ", ")+"): which one the compiler gives it is its tie-break, and regeneration may emit another type than the checked-in file names — qualify the literal (Type.Field=…)")
		}
	}
	_ = n
}
