package rules

import (
	"go/ast"
	"go/parser"
	"go/scanner"
	"go/token"
	"regexp"
	"sort"
	"strconv"
	"strings"

	"verif/tools/internal/fo"
)

// (c3) identifier skeleton.  fc emits a definition in source order (assumption confirmed by rule (c) on the
// literal sequences); so the ORDERED sequence of identifiers a definition mentions outside type positions —
// local variables, parameters, field names, callees, union cases — is the same on both sides once the
// compiler's own additions (temporaries, frt helpers, case-struct spelling) are set aside.  Comparing it
// catches what (c)/(c2) do not: a swapped argument, a renamed or replaced local, a different field, a
// statement moved, on one side only.

var foKeywords = map[string]bool{"let": true, "package": true, "import": true, "type": true, "of": true, "_": true, "match": true, "with": true,
	"true": true, "false": true, "package_info": true, "and": true, "if": true, "then": true, "else": true, "elif": true, "not": true, "fun": true, "GoEval": true}

var goSkipIdents = map[string]bool{"true": true, "false": true, "nil": true, "_": true}

var tempRe = regexp.MustCompile(`^_[a-z]+[0-9]+$`)

// foTypePositions marks the tokens that sit inside a type annotation or an explicit type-argument list.
func foTypePositions(toks []fo.Tok) []bool {
	inType := make([]bool, len(toks))
	for i := 0; i < len(toks); i++ {
		if toks[i].Text != ":" || toks[i].Kind != fo.PUNCT {
			continue
		}
		depth := 0
		for j := i + 1; j < len(toks); j++ {
			tx := toks[j].Text
			if toks[j].Kind == fo.PUNCT {
				if tx == "(" || tx == "<" || tx == "[" {
					depth++
				}
				if tx == ">" || tx == "]" {
					depth--
				}
				if tx == ")" {
					if depth == 0 {
						break
					}
					depth--
				}
				if tx == "=" && depth <= 0 {
					break
				}
			}
			inType[j] = true
		}
	}
	for i := 0; i+1 < len(toks); i++ {
		if toks[i].Kind == fo.IDENT && toks[i+1].Text == "<" && toks[i+1].Kind == fo.PUNCT && toks[i+1].Off == toks[i].Off+len(toks[i].Text) {
			depth := 0
			for j := i + 1; j < len(toks); j++ {
				if toks[j].Kind == fo.PUNCT && toks[j].Text == "<" {
					depth++
				}
				if toks[j].Kind == fo.PUNCT && toks[j].Text == ">" {
					depth--
				}
				if toks[j].Kind == fo.PUNCT && toks[j].Text == ">>" {
					depth -= 2
				}
				inType[j] = true
				if depth <= 0 {
					break
				}
			}
		}
	}
	return inType
}

func goTextIdents(src string, caseStructs map[string]string) []string {
	if e, err := parser.ParseExpr(src); err == nil {
		return goSkeleton(e, caseStructs)
	}
	// a statement (list)
	if f, err := parser.ParseFile(token.NewFileSet(), "", "package p\nfunc _() {\n"+src+"\n}", 0); err == nil && len(f.Decls) == 1 {
		if fd, ok := f.Decls[0].(*ast.FuncDecl); ok {
			return goSkeleton(fd.Body, caseStructs)
		}
	}
	// neither: the raw identifier tokens
	var res []string
	fset := token.NewFileSet()
	file := fset.AddFile("", fset.Base(), len(src))
	var s scanner.Scanner
	s.Init(file, []byte(src), nil, 0)
	for {
		_, tok, lit := s.Scan()
		if tok == token.EOF {
			break
		}
		if tok == token.IDENT && !goSkipIdents[lit] {
			res = append(res, lit)
		}
	}
	return res
}

// foInterpVars: the variables a $"…{v}…" literal interpolates, in order.
func foInterpVars(t fo.Tok) []string {
	text := t.Val
	if !t.Raw {
		text = strings.TrimPrefix(t.Text, "$")
		text = text[1 : len(text)-1]
	}
	var res []string
	for i := 0; i < len(text); i++ {
		c := text[i]
		switch {
		case !t.Raw && c == '\\' && i+1 < len(text):
			i++
		case c == '{':
			j := strings.IndexByte(text[i:], '}')
			if j < 0 {
				continue
			}
			for _, part := range strings.Split(strings.TrimSpace(text[i+1:i+j]), ".") {
				res = append(res, strings.TrimSpace(part))
			}
			i += j
		}
	}
	return res
}

var foOps = map[string]string{"+": "+", "-": "-", "*": "*", "/": "/", "<": "<", ">": ">", "<=": "<=", ">=": ">=", "&&": "&&", "||": "||", "<>": "ne", "|>": "pipe", "%": "%"}

// foEqualityTokens classifies every "=" of a definition: the one that ends a let header, the one after a record
// field label, or the equality operator (true).
func foEqualityTokens(toks []fo.Tok, inType []bool) []bool {
	isEq := make([]bool, len(toks))
	// let headers: the first "=" at bracket depth 0 after each `let`
	header := make([]bool, len(toks))
	for i, t := range toks {
		if t.Kind == fo.IDENT && t.Text == "let" {
			depth := 0
			for j := i + 1; j < len(toks); j++ {
				tx := toks[j].Text
				if toks[j].Kind != fo.PUNCT {
					continue
				}
				if tx == "(" || tx == "[" || tx == "{" {
					depth++
				}
				if tx == ")" || tx == "]" || tx == "}" {
					depth--
				}
				if tx == "=" && depth <= 0 {
					header[j] = true
					break
				}
			}
		}
	}
	brace := 0
	for i, t := range toks {
		if t.Kind != fo.PUNCT {
			continue
		}
		if t.Text == "{" {
			brace++
		}
		if t.Text == "}" {
			brace--
		}
		if t.Text != "=" || header[i] || inType[i] {
			continue
		}
		// record field label: IDENT "=" where the IDENT starts a field (after "{", ";", "with", a "Type." qualifier, or first on its line) inside braces
		if brace > 0 && i >= 1 && toks[i-1].Kind == fo.IDENT {
			if i == 1 {
				continue
			}
			p := toks[i-2]
			if p.Text == "{" || p.Text == ";" || (p.Kind == fo.IDENT && p.Text == "with") || p.Line < toks[i-1].Line {
				continue
			}
			if p.Text == "." && i >= 4 && toks[i-3].Kind == fo.IDENT && toks[i-4].Text == "{" {
				continue
			}
		}
		isEq[i] = true
	}
	return isEq
}

func foSkeleton(ts []fo.Tok, cases map[string]bool, caseStructs map[string]string) []string {
	toks := fo.NoEOL(ts)
	inType := foTypePositions(toks)
	isEq := foEqualityTokens(toks, inType)
	var res []string
	for i, t := range toks {
		if inType[i] {
			continue
		}
		switch t.Kind {
		case fo.INT:
			res = append(res, "i:"+strings.TrimLeft(t.Text, "0")+zeroIf(t.Text))
		case fo.STRING, fo.RAWSTR:
			isGoEval := false
			for j := i - 1; j >= 0 && j >= i-12; j-- {
				if toks[j].Kind == fo.IDENT && toks[j].Text == "GoEval" {
					isGoEval = true
					break
				}
				if !inType[j] {
					break
				}
			}
			if isGoEval {
				res = append(res, goTextIdents(goEvalText(t), caseStructs)...)
			} else {
				res = append(res, "s:"+t.Val)
			}
		case fo.SINTERP:
			res = append(res, "s:"+foInterpValue(t))
			res = append(res, foInterpVars(t)...)
		case fo.PUNCT:
			if t.Text == "=" {
				if isEq[i] {
					res = append(res, "eq")
				}
				continue
			}
			if op, ok := foOps[t.Text]; ok {
				res = append(res, op)
			}
		case fo.IDENT:
			switch t.Text {
			case "if", "elif":
				res = append(res, "if")
			case "match":
				res = append(res, "match")
			case "not":
				res = append(res, "not")
			}
			if foKeywords[t.Text] {
				continue
			}
			// `| v ->`: a variable pattern of a value match; Go binds it in the switch header (`switch v := (e); v {`),
			// i.e. at another place of the sequence: the binder is left out on both sides
			if i >= 1 && toks[i-1].Text == "|" && i+1 < len(toks) && toks[i+1].Text == "->" && !cases[t.Text] {
				continue
			}
			// {Type.Field=…}: the record type qualifier is a type name
			if i >= 1 && toks[i-1].Text == "{" && i+3 < len(toks) && toks[i+1].Text == "." && toks[i+2].Kind == fo.IDENT && toks[i+3].Text == "=" {
				continue
			}
			// frt.<inserted helper> written explicitly: skipped on both sides
			if t.Text == "frt" && i+2 < len(toks) && toks[i+1].Text == "." && compilerInsertedFrt[toks[i+2].Text] {
				continue
			}
			if i >= 2 && toks[i-1].Text == "." && toks[i-2].Text == "frt" && compilerInsertedFrt[t.Text] {
				continue
			}
			res = append(res, t.Text)
		}
	}
	return res
}

type skelItem struct {
	pos  token.Pos
	text string
}

var goBinOps = map[token.Token]string{token.ADD: "+", token.SUB: "-", token.MUL: "*", token.QUO: "/", token.LSS: "<", token.GTR: ">", token.LEQ: "<=", token.GEQ: ">=",
	token.LAND: "&&", token.LOR: "||", token.EQL: "go==", token.NEQ: "go!=", token.REM: "%"}

func goSkeleton(n ast.Node, caseStructs map[string]string) []string {
	skip := map[*ast.Ident]bool{}
	var items []skelItem
	add := func(p token.Pos, t string) { items = append(items, skelItem{p, t}) }
	var markType func(e ast.Expr)
	markType = func(e ast.Expr) {
		if e == nil {
			return
		}
		ast.Inspect(e, func(z ast.Node) bool {
			if id, ok := z.(*ast.Ident); ok {
				skip[id] = true
			}
			return true
		})
	}
	markFields := func(fl *ast.FieldList, names bool) {
		if fl == nil {
			return
		}
		for _, f := range fl.List {
			markType(f.Type)
			if names {
				for _, id := range f.Names {
					skip[id] = true
				}
			}
		}
	}
	ast.Inspect(n, func(x ast.Node) bool {
		switch y := x.(type) {
		case *ast.FuncType:
			markFields(y.TypeParams, true)
			markFields(y.Params, false)
			markFields(y.Results, false)
		case *ast.CompositeLit:
			markType(y.Type)
		case *ast.ValueSpec:
			markType(y.Type)
		case *ast.TypeAssertExpr:
			markType(y.Type)
		case *ast.IndexExpr:
			markType(y.Index)
		case *ast.IndexListExpr:
			for _, ix := range y.Indices {
				markType(ix)
			}
		case *ast.CaseClause:
			for _, e := range y.List {
				if ix, ok := e.(*ast.IndexExpr); ok {
					markType(ix.Index)
				}
			}
		case *ast.SelectorExpr:
			if id, ok := y.X.(*ast.Ident); ok {
				if id.Name == "frt" && compilerInsertedFrt[y.Sel.Name] {
					skip[id] = true
					skip[y.Sel] = true
				}
				if tempRe.MatchString(id.Name) && y.Sel.Name == "Value" {
					skip[y.Sel] = true
				}
			}
		case *ast.TypeSwitchStmt:
			add(y.Pos(), "match")
		case *ast.SwitchStmt:
			add(y.Pos(), "match")
			if as, ok := y.Init.(*ast.AssignStmt); ok && as.Tok == token.DEFINE && len(as.Lhs) == 1 {
				if v, ok := as.Lhs[0].(*ast.Ident); ok {
					if tag, ok := y.Tag.(*ast.Ident); ok && tag.Name == v.Name {
						skip[v] = true
						skip[tag] = true
					}
				}
			}
		case *ast.BinaryExpr:
			if t, ok := goBinOps[y.Op]; ok {
				add(y.OpPos, t)
			}
		case *ast.BasicLit:
			switch y.Kind {
			case token.INT:
				add(y.Pos(), "i:"+y.Value)
			case token.STRING:
				if v, err := strconv.Unquote(y.Value); err == nil && v != neverReachedText {
					add(y.Pos(), "s:"+v)
				}
			case token.CHAR:
				add(y.Pos(), "c:"+y.Value)
			}
		case *ast.CallExpr:
			// panic("Union pattern fail. Never reached here.")
			if id, ok := y.Fun.(*ast.Ident); ok && id.Name == "panic" && len(y.Args) == 1 {
				if bl, ok := y.Args[0].(*ast.BasicLit); ok && strings.Contains(bl.Value, neverReachedText) {
					skip[id] = true
				}
			}
			if se, ok := y.Fun.(*ast.SelectorExpr); ok {
				if id, ok := se.X.(*ast.Ident); ok && id.Name == "frt" {
					switch se.Sel.Name {
					case "IfElse", "IfElseUnit", "IfOnly":
						add(y.Pos(), "if")
					case "OpNot":
						add(y.Pos(), "not")
					case "Pipe", "PipeUnit":
						if len(y.Args) == 2 {
							add(y.Args[0].End(), "pipe")
						}
					case "OpEqual":
						if len(y.Args) == 2 {
							add(y.Args[0].End(), "eq")
						}
					case "OpNotEqual":
						if len(y.Args) == 2 {
							add(y.Args[0].End(), "ne")
						}
					}
				}
			}
		}
		return true
	})
	ast.Inspect(n, func(x ast.Node) bool {
		id, ok := x.(*ast.Ident)
		if !ok || skip[id] || goSkipIdents[id.Name] || tempRe.MatchString(id.Name) {
			return true
		}
		name := id.Name
		if strings.HasPrefix(name, "New_") {
			if c, ok := caseStructs[strings.TrimPrefix(name, "New_")]; ok {
				name = c
			}
		} else if c, ok := caseStructs[name]; ok {
			name = c
		}
		add(id.Pos(), name)
		return true
	})
	sort.SliceStable(items, func(i, j int) bool { return items[i].pos < items[j].pos })
	res := make([]string, len(items))
	for i, it := range items {
		res[i] = it.text
	}
	return res
}
