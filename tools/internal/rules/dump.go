package rules

import (
	"fmt"

	"verif/tools/internal/core"
	"verif/tools/internal/ir"
)

// DumpTemplates prints emission templates (developer aid).
func DumpTemplates(repo *core.Repo, dir string) {
	c := &Ctx{Repo: repo, R: core.NewReport("dump", "quick", "/tmp")}
	f := c.LoadFC(dir)
	if f == nil {
		return
	}
	sh := newShaper(f)
	for _, fn := range f.Prog.Funcs {
		if !fn.Generated {
			continue
		}
		t, _ := sh.Template(fn.Name)
		fmt.Printf("%s :: %s\n", fn.Name, t)
	}
}

// Dump prints normal forms (developer aid).
func Dump(repo *core.Repo, dir, only string) {
	m, err := repo.Load(dir, false)
	if err != nil {
		fmt.Println(err)
		return
	}
	for _, p := range m.Pkgs {
		prog := ir.LowerPackage(p)
		n := ir.NewNormalizer()
		if only == "KEEPSHARED" {
			n.KeepShared = true
			only = ""
		}
		for _, k := range []string{"MapL", "MapR", "PairL", "PairR"} {
			if f, ok := prog.ByName[k]; ok {
				n.Inline[f.Key] = f
			}
		}
		tot := 0
		for _, f := range prog.Funcs {
			tot += f.Opaques
			if only != "" && f.Name != only {
				continue
			}
			n.Imperative = false
			t := n.Func(f)
			imp := ""
			if n.Imperative {
				imp = " [imperative]"
			}
			label := f.Name
			for k, g := range prog.ByName {
				if g == f {
					label = k
				}
			}
			fmt.Printf("%s%s (opaque=%d) = %s\n", label, imp, f.Opaques, ir.String(p.PkgPath, t))
		}
		fmt.Printf("-- %s: %d functions, %d opaque nodes\n", p.PkgPath, len(prog.Funcs), tot)
		if only == "" {
			for _, o := range prog.Opaques {
				fmt.Printf("   opaque %s: %s\n", repo.Rel(m.Fset, o.Pos()), o.Why)
			}
		}
	}
}
