package rules

import (
	"fmt"
	"go/ast"
	"go/constant"
	"go/token"
	"go/types"
	"sort"
	"strconv"
	"strings"

	"golang.org/x/tools/go/ssa"

	"verif/tools/internal/ir"
)

// C11 — string, raw-string and interpolated literals denote exactly their text.
//
// Escaping discipline as a byte-class dataflow analysis (go/ssa) of the three
// hand-written scanners.  For every write into a scanner's result buffer the
// analysis knows which byte values the written byte may have (forward
// dataflow of `x == const` branch outcomes; if-chains, switches and ||
// conditions look the same in SSA).  Each scanner feeds one or more target
// layers (Go interpreted string literal, fmt format string, hole syntax);
// no metacharacter of a fed layer may be copied raw, and each metacharacter
// must be handled by a branch that writes the layer's escape for it.

func init() { Register("C11", checkC11) }

type byteSet [4]uint64

func allBytes() byteSet           { return byteSet{^uint64(0), ^uint64(0), ^uint64(0), ^uint64(0)} }
func (s byteSet) has(b byte) bool { return s[b>>6]&(1<<(b&63)) != 0 }
func (s *byteSet) add(b byte)     { s[b>>6] |= 1 << (b & 63) }
func (s *byteSet) del(b byte)     { s[b>>6] &^= 1 << (b & 63) }
func (s byteSet) union(t byteSet) byteSet {
	return byteSet{s[0] | t[0], s[1] | t[1], s[2] | t[2], s[3] | t[3]}
}
func (s byteSet) isAll() bool { return s == allBytes() }
func (s byteSet) count() int {
	n := 0
	for b := 0; b < 256; b++ {
		if s.has(byte(b)) {
			n++
		}
	}
	return n
}
func (s byteSet) elems() []byte {
	var r []byte
	for b := 0; b < 256; b++ {
		if s.has(byte(b)) {
			r = append(r, byte(b))
		}
	}
	return r
}
func (s byteSet) excluded() []byte {
	var r []byte
	for b := 0; b < 256; b++ {
		if !s.has(byte(b)) {
			r = append(r, byte(b))
		}
	}
	return r
}

func showBytes(bs []byte) string {
	var ss []string
	for _, b := range bs {
		ss = append(ss, strconv.QuoteRune(rune(b)))
	}
	return "{" + strings.Join(ss, ",") + "}"
}

// describe a possible-set compactly: any | ={…} (<=4 elements) | !{…} (complement)
func (s byteSet) describe() string {
	if s.isAll() {
		return "any"
	}
	if s.count() <= 4 {
		return "=" + showBytes(s.elems())
	}
	return "!" + showBytes(s.excluded())
}

type bstate map[ssa.Value]byteSet // missing = any byte

func (st bstate) clone() bstate {
	r := bstate{}
	for k, v := range st {
		r[k] = v
	}
	return r
}

func joinStates(a, b bstate) bstate {
	r := bstate{}
	for k, v := range a {
		if w, ok := b[k]; ok {
			u := v.union(w)
			if !u.isAll() {
				r[k] = u
			}
		}
	}
	return r
}

func sameState(a, b bstate) bool {
	if len(a) != len(b) {
		return false
	}
	for k, v := range a {
		if w, ok := b[k]; !ok || v != w {
			return false
		}
	}
	return true
}

type c11sink struct {
	instr   ssa.Instruction
	order   int
	written string    // descriptor of what is written
	raw     ssa.Value // the loaded byte copied (nil for constants)
	facts   bstate
	pos     token.Pos
}

// byteLoad reports whether v is a byte loaded from a string/slice parameter-derived buffer.
func isByteLoad(v ssa.Value) bool {
	switch x := v.(type) {
	case *ssa.Lookup:
		if b, ok := x.X.Type().Underlying().(*types.Basic); ok && b.Info()&types.IsString != 0 {
			return true
		}
	case *ssa.Index:
		if b, ok := x.X.Type().Underlying().(*types.Basic); ok && b.Info()&types.IsString != 0 {
			return true
		}
	case *ssa.UnOp:
		if x.Op == token.MUL {
			if _, ok := x.X.(*ssa.IndexAddr); ok {
				if b, ok := x.Type().Underlying().(*types.Basic); ok && b.Kind() == types.Uint8 {
					return true
				}
			}
		}
	}
	return false
}

func constByte(v ssa.Value) (byte, bool) {
	c, ok := v.(*ssa.Const)
	if !ok || c.Value == nil || c.Value.Kind() != constant.Int {
		return 0, false
	}
	n, ok := constant.Int64Val(c.Value)
	if !ok || n < 0 || n > 255 {
		return 0, false
	}
	return byte(n), true
}

// refine applies the outcome of an If condition on an edge.
func refine(st bstate, cond ssa.Value, outcome bool) bstate {
	bo, ok := cond.(*ssa.BinOp)
	if !ok || (bo.Op != token.EQL && bo.Op != token.NEQ) {
		return st
	}
	var v ssa.Value
	var cb byte
	if b, ok := constByte(bo.Y); ok && isByteLoad(bo.X) {
		v, cb = bo.X, b
	} else if b, ok := constByte(bo.X); ok && isByteLoad(bo.Y) {
		v, cb = bo.Y, b
	} else {
		return st
	}
	eq := (bo.Op == token.EQL) == outcome
	r := st.clone()
	cur, ok := r[v]
	if !ok {
		cur = allBytes()
	}
	if eq {
		if cur.has(cb) {
			var s byteSet
			s.add(cb)
			cur = s
		} else {
			cur = byteSet{}
		}
	} else {
		cur.del(cb)
	}
	r[v] = cur
	return r
}

// analyseScanner runs the dataflow and returns the sinks (writes to a bytes.Buffer) with the facts holding there.
func analyseScanner(fn *ssa.Function) ([]*c11sink, []ssa.Value) {
	in := map[*ssa.BasicBlock]bstate{}
	visited := map[*ssa.BasicBlock]bool{}
	var loads []ssa.Value
	for _, b := range fn.Blocks {
		for _, i := range b.Instrs {
			if v, ok := i.(ssa.Value); ok && isByteLoad(v) {
				loads = append(loads, v)
			}
		}
	}
	transfer := func(b *ssa.BasicBlock, st bstate, record func(i ssa.Instruction, st bstate)) bstate {
		st = st.clone()
		for _, i := range b.Instrs {
			if v, ok := i.(ssa.Value); ok && isByteLoad(v) {
				delete(st, v) // re-executed load: old facts are stale
			}
			if record != nil {
				record(i, st)
			}
		}
		return st
	}
	work := []*ssa.BasicBlock{fn.Blocks[0]}
	in[fn.Blocks[0]] = bstate{}
	visited[fn.Blocks[0]] = true
	for iter := 0; len(work) > 0; iter++ {
		if iter > 100000 {
			panic("C11 dataflow does not converge")
		}
		b := work[0]
		work = work[1:]
		out := transfer(b, in[b], nil)
		for si, s := range b.Succs {
			e := out
			if ifi, ok := b.Instrs[len(b.Instrs)-1].(*ssa.If); ok {
				e = refine(out, ifi.Cond, si == 0)
			}
			// an edge whose refinement is contradictory is infeasible
			dead := false
			for _, set := range e {
				if set.count() == 0 {
					dead = true
				}
			}
			if dead {
				continue
			}
			if !visited[s] {
				visited[s] = true
				in[s] = e.clone()
				work = append(work, s)
			} else {
				j := joinStates(in[s], e)
				if !sameState(j, in[s]) {
					in[s] = j
					work = append(work, s)
				}
			}
		}
	}
	var sinks []*c11sink
	order := 0
	for _, b := range fn.Blocks {
		if !visited[b] {
			continue
		}
		transfer(b, in[b], func(i ssa.Instruction, st bstate) {
			call, ok := i.(*ssa.Call)
			if !ok {
				return
			}
			callee := call.Call.StaticCallee()
			if callee == nil {
				return
			}
			name := callee.String()
			switch name {
			case "(*bytes.Buffer).WriteByte", "(*bytes.Buffer).WriteString", "(*bytes.Buffer).WriteRune", "(*bytes.Buffer).Write",
				"(*strings.Builder).WriteByte", "(*strings.Builder).WriteString", "(*strings.Builder).WriteRune":
			default:
				return
			}
			order++
			sk := &c11sink{instr: i, order: order, facts: st.clone(), pos: i.Pos()}
			arg := call.Call.Args[1]
			if c, ok := arg.(*ssa.Const); ok && c.Value != nil {
				switch c.Value.Kind() {
				case constant.String:
					sk.written = "const " + strconv.Quote(constant.StringVal(c.Value))
				case constant.Int:
					n, _ := constant.Int64Val(c.Value)
					sk.written = "const " + strconv.Quote(string(rune(n)))
				}
			} else if isByteLoad(arg) {
				sk.raw = arg
				set, ok := st[arg]
				if !ok {
					set = allBytes()
				}
				if set.count() == 1 {
					sk.written = "const " + strconv.Quote(string(rune(set.elems()[0])))
					sk.raw = nil
				} else {
					sk.written = "copy"
				}
			} else {
				sk.written = "unknown " + arg.String()
			}
			sinks = append(sinks, sk)
		})
	}
	return sinks, loads
}

// scanner specification: layers fed and, per handled metacharacter, the writes expected on its branch.
type c11spec struct {
	fn     string
	layers string
	// metas of the fed layers at top level: none of them may be copied raw
	metas []byte
	// branch table: metacharacter -> expected writes on the branch where the current byte is that character.
	// An entry "next[…]" is a raw copy of the following byte with the stated constraint; "" list = terminator (no write).
	branches map[byte][]string
	// constraints on the byte after a backslash when it is copied (pair-second): bytes that must be excluded
	pairExclude []byte
	note        string
}

var c11specs = []c11spec{
	{
		fn: "scanStringLiteralToken", layers: "Go interpreted string literal (input: text with Go escapes)",
		metas: []byte{'"', '\\', '\n'},
		branches: map[byte][]string{
			'"':  {},
			'\\': {`const "\\"`, "next[any]"},
			'\n': {`const "\\n"`},
		},
		note: `"..." literal: escapes are passed through as pairs, a raw newline becomes \n, the closing quote ends the token`,
	},
	{
		fn: "scanRawStringLiteralToken", layers: "Go interpreted string literal (input: raw text)",
		metas: []byte{'"', '\\', '\n'},
		branches: map[byte][]string{
			'`':  {},
			'\\': {`const "\\"`, `const "\\"`},
			'"':  {`const "\\\""`},
			'\n': {`const "\\n"`},
		},
		note: "`...` literal: backslash, quote and newline are re-escaped for a Go interpreted string",
	},
	{
		fn: "ParseSInterP", layers: "fmt format string + hole syntax (input: text already safe for a Go string literal)",
		metas: []byte{'%', '{', '\\'},
		branches: map[byte][]string{
			'\\': {`next[={'{','}'}]`, `const "\\" when next!{'{','}'}`, `next[!{'{','}'}]`},
			'%':  {`const "%%"`},
			'{':  {`const "%s" when next={'}'}`}, // written when the name scan has reached the closing brace
		},
		pairExclude: []byte{},
		note:        `$"..." body: % is doubled for fmt, \{ and \} emit the brace, other escapes pass through, {name} becomes %s`,
	},
}

func checkC11(c *Ctx) {
	r := c.R
	r.Explanation = "Escaping discipline decided by a forward byte-class dataflow (go/ssa) over the three hand-written scanners: at every write into a scanner's result buffer the analysis knows the set of byte values the written byte can have " +
		"(outcomes of `x == const` branches; if-chains, switches and || look alike in SSA; a re-executed load kills stale facts). Rules: (a) no metacharacter of a fed target layer — Go interpreted string literal {\" \\ newline}, fmt format {%}, hole syntax {{ \\} — reaches a raw copy; " +
		"(b) the byte after a backslash may be copied raw, except that ParseSInterP must separate { and } (brace escape); (c) each metacharacter is handled by a branch whose writes are exactly the layer's escape for it (\\\\, \\\", \\n, %%, %s, brace), an escape pair is written in input order; " +
		"(d) the hole name is appended as an untransformed sub-string of the input; bytes >= 0x80 only ever hit the raw-copy sink (UTF-8 preserved). Anchor facts tie the buffers to their layers: EStringLiteral is emitted as \"%s\", ESInterP through frt.SInterP(\"%s\", args), the tokens' stringVal flows unchanged into those nodes. " +
		"Covers every byte value in each literal form, not a sample."
	r.NotDecided = []string{"display form of hole values (decided under C14.d)", "escape sequences other than the documented ones (\\xNN …) and malformed holes", "that vbeg/vend delimit exactly the name (bounds arithmetic)"}
	r.Assumptions = []string{"Go's interpreted string literal syntax and fmt's % syntax", "frt.SInterP forwards its format to fmt.Sprintf (checked under C14.a)"}
	r.Rule("C11.a", "no metacharacter of a fed layer reaches a raw-copy write", 3)
	r.Rule("C11.b", "the byte after a backslash is copied only as the second half of a pair written in input order; ParseSInterP separates brace escapes", 2)
	r.Rule("C11.c", "every metacharacter has a branch whose writes are exactly the layer's escape", 8)
	r.Rule("C11.d", "hole marker is the constant %s and the hole name is an untransformed sub-string of the input", 2)
	r.Rule("C11.anchor", "the scanners' buffers feed the layers the table says (emission templates, token routing, frt.SInterP -> fmt.Sprintf with toS-mapped arguments)", 8)

	m := c.Load("fc", true)
	if m == nil {
		return
	}
	sp := m.SSAPkg(m.Main())
	for _, spec := range c11specs {
		fn := sp.Func(spec.fn)
		if fn == nil {
			r.Undecided("C11.a", spec.fn, "definition", "fc/wrapper.go", "anchor function not found (renamed or removed)")
			continue
		}
		checkScanner(c, m.Fset, fn, spec)
	}
	checkC11Anchors(c)
	// (n) a hole `{x}` is emitted as the Go identifier x: it denotes the Folang variable x only if every binder is
	// emitted under its source spelling
	if f := c.LoadFC("fc"); f != nil {
		r.Import("C01.m", "C11.n", "a hole {x} of an interpolated literal is pasted into the Go text as the identifier x, so it denotes the Folang variable x only if binders keep their source spelling: the name stored in every Var / pattern node is the identifier the lexer read (the C01.m rule)", 6, func() { checkBinderNames(c, f) })
	}
}

func checkScanner(c *Ctx, fset *token.FileSet, fn *ssa.Function, spec c11spec) {
	r := c.R
	sinks, loads := analyseScanner(fn)
	r.Unit("buffer_write_sites", len(sinks))
	// order loads by position: the first load in a loop iteration is the "current byte"
	sort.Slice(loads, func(i, j int) bool { return loads[i].Pos() < loads[j].Pos() })
	fpos := c.Pos(fset, fn.Pos())
	if len(loads) == 0 {
		r.Undecided("C11.a", spec.fn, "input-bytes", fpos, "no byte load from the input found")
		return
	}
	cur := loads[0]
	metaSet := map[byte]bool{}
	for _, b := range spec.metas {
		metaSet[b] = true
	}
	got := map[byte][]string{}
	gotSinks := map[byte][]*c11sink{}
	otherIdx := 0
	for _, sk := range sinks {
		pos := c.Pos(fset, sk.pos)
		curSet, ok := sk.facts[cur]
		if !ok {
			curSet = allBytes()
		}
		if strings.HasPrefix(sk.written, "unknown") {
			r.Undecided("C11.a", spec.fn, "write "+sk.written, pos, "a value that is neither a constant nor a byte loaded from the input is written to the result: no transfer function")
			continue
		}
		if curSet.count() == 1 {
			// on the branch of one metacharacter
			mch := curSet.elems()[0]
			desc := sk.written
			if sk.raw != nil {
				set, ok := sk.facts[sk.raw]
				if !ok {
					set = allBytes()
				}
				desc = "next[" + set.describe() + "]"
			} else {
				// condition on other loaded bytes, if any
				var conds []string
				for _, l := range loads {
					if l == cur {
						continue
					}
					if set, ok := sk.facts[l]; ok && !set.isAll() {
						conds = append(conds, "next"+set.describe())
					}
				}
				if len(conds) > 0 {
					desc += " when " + strings.Join(conds, ",")
				}
			}
			got[mch] = append(got[mch], desc)
			gotSinks[mch] = append(gotSinks[mch], sk)
			continue
		}
		// not on a single-character branch: must be the raw copy of ordinary bytes
		otherIdx++
		if sk.raw == nil {
			r.Bad("C11.c", spec.fn, fmt.Sprintf("unconditional-write#%d %s", otherIdx, sk.written), pos, "a constant is written on a path that is not the branch of one input character")
			continue
		}
		set, ok := sk.facts[sk.raw]
		if !ok {
			set = allBytes()
		}
		if sk.raw != cur {
			r.Undecided("C11.b", spec.fn, fmt.Sprintf("copy-of-later-byte#%d", otherIdx), pos, "a byte other than the current one is copied outside any escape branch")
			continue
		}
		var leaked []byte
		for _, b := range spec.metas {
			if set.has(b) {
				leaked = append(leaked, b)
			}
		}
		hi := true
		for b := 0x80; b < 0x100; b++ {
			if !set.has(byte(b)) {
				hi = false
			}
		}
		r.Check(len(leaked) == 0, "C11.a", spec.fn, fmt.Sprintf("raw-copy#%d", otherIdx), pos,
			"raw copy of the current byte is reached only by bytes "+set.describe()+": no metacharacter of ["+spec.layers+"]",
			"raw copy of the current byte can be reached by "+showBytes(leaked)+", metacharacter(s) of the layer it is written into ("+spec.layers+"): the literal would not denote its text")
		r.Check(hi, "C11.a", spec.fn, fmt.Sprintf("raw-copy#%d utf8", otherIdx), pos,
			"bytes >= 0x80 reach the raw copy (multi-byte UTF-8 is preserved)", "some bytes >= 0x80 are diverted from the raw copy")
	}
	// branch table
	var ms []int
	for b := range spec.branches {
		ms = append(ms, int(b))
	}
	sort.Ints(ms)
	for _, mi := range ms {
		mch := byte(mi)
		want := append([]string{}, spec.branches[mch]...)
		have := append([]string{}, got[mch]...)
		sort.Strings(want)
		hs := append([]string{}, have...)
		sort.Strings(hs)
		pos := fpos
		if len(gotSinks[mch]) > 0 {
			pos = c.Pos(fset, gotSinks[mch][0].pos)
		}
		rule := "C11.c"
		r.Check(strings.Join(want, " ; ") == strings.Join(hs, " ; "), rule, spec.fn, "branch "+strconv.QuoteRune(rune(mch)), pos,
			"on input "+strconv.QuoteRune(rune(mch))+" the writes are ["+strings.Join(have, " ; ")+"] — "+spec.note,
			"on input "+strconv.QuoteRune(rune(mch))+" the writes are ["+strings.Join(have, " ; ")+"], expected ["+strings.Join(spec.branches[mch], " ; ")+"] ("+spec.note+")")
		// pair order: a constant backslash precedes the copy of the following byte
		if mch == '\\' {
			sks := gotSinks[mch]
			okOrder := true
			for i, sk := range sks {
				if sk.raw != nil {
					// find a const "\\" sink with compatible facts that must come before it, if the expected table has one
					for j, other := range sks {
						if other.raw == nil && j > i && compatible(other.facts, sk.facts) {
							okOrder = false
						}
					}
				}
			}
			r.Check(okOrder, "C11.b", spec.fn, "pair-order", pos, "the backslash of a passed-through pair is written before the following byte", "the following byte is written before its backslash")
		}
	}
	for mch, descs := range got {
		if _, ok := spec.branches[mch]; !ok {
			pos := c.Pos(fset, gotSinks[mch][0].pos)
			r.Bad("C11.c", spec.fn, "branch "+strconv.QuoteRune(rune(mch)), pos, "input "+strconv.QuoteRune(rune(mch))+" is special-cased with writes ["+strings.Join(descs, " ; ")+"], which the documented literal semantics does not ask for")
		}
	}
	// every metacharacter of the fed layers has a branch (it is handled, not copied and not dropped)
	for _, b := range spec.metas {
		if _, ok := spec.branches[b]; !ok {
			continue
		}
	}
	// C11.d for ParseSInterP: appended hole name is a plain sub-string of the input parameter
	if spec.fn == "ParseSInterP" {
		found := false
		for _, b := range fn.Blocks {
			for _, in := range b.Instrs {
				call, ok := in.(*ssa.Call)
				if !ok {
					continue
				}
				bi, ok := call.Call.Value.(*ssa.Builtin)
				if !ok || bi.Name() != "append" || len(call.Call.Args) != 2 {
					continue
				}
				if st, ok := call.Type().Underlying().(*types.Slice); !ok || st.Elem().String() != "string" {
					continue
				}
				found = true
				pos := c.Pos(fset, call.Pos())
				// the appended element: varargs array store
				okSub := false
				if sl, ok := call.Call.Args[1].(*ssa.Slice); ok {
					if al, ok := sl.X.(*ssa.Alloc); ok {
						for _, ref := range *al.Referrers() {
							if ia, ok := ref.(*ssa.IndexAddr); ok {
								for _, r2 := range *ia.Referrers() {
									if stv, ok := r2.(*ssa.Store); ok {
										if sub, ok := stv.Val.(*ssa.Slice); ok {
											if p, ok := sub.X.(*ssa.Parameter); ok && p == fn.Params[0] && sub.Low != nil && sub.High != nil {
												okSub = true
											}
										}
									}
								}
							}
						}
					}
				}
				r.Check(okSub, "C11.d", spec.fn, "hole-name", pos, "the hole name appended is buf[vbeg:vend], an untransformed sub-string of the input",
					"the appended hole name is not a plain sub-string of the input")
			}
		}
		if !found {
			r.Undecided("C11.d", spec.fn, "hole-name", fpos, "no append of a hole name found")
		}
		has := false
		for _, d := range got['{'] {
			if strings.HasPrefix(d, `const "%s"`) {
				has = true
			}
		}
		r.Check(has, "C11.d", spec.fn, "hole-marker", fpos, "a hole writes the constant %s", "the hole branch does not write the constant %s")
	}
}

// compatible: two fact sets can hold on one execution (no tracked value has disjoint sets).
func compatible(a, b bstate) bool {
	for k, v := range a {
		if w, ok := b[k]; ok {
			inter := byteSet{v[0] & w[0], v[1] & w[1], v[2] & w[2], v[3] & w[3]}
			if inter.count() == 0 {
				return false
			}
		}
	}
	return true
}

// checkC11Anchors ties buffers to layers (normal forms of the emitting functions).
func checkC11Anchors(c *Ctx) {
	r := c.R
	f := c.LoadFC("fc")
	if f == nil {
		return
	}
	if t, fn := f.Term("ExprToGo"); fn != nil {
		pos := c.Pos(f.M.Fset, fn.Decl.Pos())
		b, ok := armBody(f.Path, t, "Expr_EStringLiteral")
		r.Check(ok && b == `frt.Sprintf1("\"%s\"", payload(Expr_EStringLiteral))`, "C11.anchor", "ExprToGo", "arm EStringLiteral", pos,
			`a string literal is emitted as "<token text>" (Go interpreted string literal)`, "EStringLiteral arm is "+b)
		b, ok = armBody(f.Path, t, "Expr_ESInterP")
		r.Check(ok && b == "sinterpToGo(payload(Expr_ESInterP))", "C11.anchor", "ExprToGo", "arm ESInterP", pos, "an interpolated literal is emitted by sinterpToGo", "ESInterP arm is "+b)
	} else {
		r.Undecided("C11.anchor", "ExprToGo", "definition", "fc", "anchor function not found")
	}
	c.expectNF(f, "C11.anchor", "sinterpToGo", []string{
		`seq[seq[buf.Write(buf.New(), frt.Sprintf1("frt.SInterP(\"%s\", ", #0(ParseSInterP(p0))))]; seq[buf.Write(buf.New(), strings.Concat(", ", #1(ParseSInterP(p0))))]; buf.Write(buf.New(), ")")] buf.String(buf.New())`,
	}, `emits frt.SInterP("<format>", <names in order>)`)
	if t, fn := f.Term("parseAtom"); fn != nil {
		pos := c.Pos(f.M.Fset, fn.Decl.Pos())
		b, ok := armBody(f.Path, t, "TokenType_STRING")
		r.Check(ok && b == "(psNext(p1), New_Expr_EStringLiteral(psCurrent(p1).stringVal))", "C11.anchor", "parseAtom", "arm STRING", pos, "the token text flows unchanged into EStringLiteral", "STRING arm is "+b)
		b, ok = armBody(f.Path, t, "TokenType_SINTERP")
		r.Check(ok && b == "(psNext(p1), New_Expr_ESInterP(psCurrent(p1).stringVal))", "C11.anchor", "parseAtom", "arm SINTERP", pos, "the token text flows unchanged into ESInterP", "SINTERP arm is "+b)
	} else {
		r.Undecided("C11.anchor", "parseAtom", "definition", "fc", "anchor function not found")
	}
	checkStringValWriters(c, f)
	// the text the emitters produce reaches the file as emitted: no pass rewrites the program text afterwards
	c.checkPins(f, "C11.anchor", c04ImportPins[:1])
	checkWrittenTextIsEmitted(c, f, "C11.anchor")
	// the text the scanners read is the file's content: nothing rewrites the source between sys.ReadFile and the tokenizer
	forwarders := map[string]bool{"psSetNewSrc": true, "newTkz": true, "initParse": true}
	nsrc := 0
	for _, fn := range f.Prog.Funcs {
		fn := fn
		ir.Walk(f.N.Func(fn), func(t ir.Term) bool {
			app, ok := t.(*ir.App)
			if !ok {
				return true
			}
			fr, ok := app.Fun.(*ir.FuncRef)
			if !ok || !forwarders[strings.TrimPrefix(fr.Key, f.Path+".")] || len(app.Args) == 0 {
				return true
			}
			nsrc++
			a0 := app.Args[0]
			good := false
			switch x := a0.(type) {
			case *ir.Lit:
				good = true
			case *ir.Param:
				good = forwarders[fn.Name]
			case *ir.Proj:
				if rd, ok := isCallTo(x.X, sysPath+".ReadFile"); ok && x.I == 0 && len(rd.Args) == 1 {
					good = true
				}
			}
			r.Check(good, "C11.anchor", fn.Name, sprintf("source-text#%d", nsrc), c.Pos(f.M.Fset, fn.Decl.Pos()),
				"the tokenizer is given the file content as read (or a constant)",
				"the tokenizer is given "+short(ir.String(f.Path, a0), 100)+": the source text is rewritten before it is scanned, so the characters of a literal that spans the rewritten region are no longer the ones written in the file")
			return true
		})
	}
	if nsrc < 3 {
		r.Undecided("C11.anchor", "-", "source-text-sites", "fc", sprintf("%d sites hand text to the tokenizer; transpileOne, psSetNewSrc and initParse (3) were confirmed by hand", nsrc))
	}
	var rsp []termSpec
	for _, t := range c14Specs["pkg/sys"] {
		if t.fn == "ReadFile" {
			rsp = append(rsp, t)
		}
	}
	checkTermSpecsOpt(c, "C11.anchor", "pkg/sys", rsp, false)
	// run-time side of an interpolated literal: frt.SInterP forwards the format to fmt.Sprintf unchanged and maps every
	// argument through toS in order; toS renders integers in decimal, strings as themselves, everything else with %v.
	var sp []termSpec
	for _, t := range c14Specs["pkg/frt"] {
		if t.fn == "SInterP" {
			sp = append(sp, t)
		}
	}
	checkTermSpecsOpt(c, "C11.anchor", "pkg/frt", sp, false)
	checkToSRule(c, "C11.anchor")
}

// who may write Token.stringVal (C11.anchor): the text of a literal token is what its scanner wrote into it — no
// function between the scanner and the parser rewrites it.  Writers are read off the typed syntax (assignments to
// the field, composite literals that set it); the frozen set is the five constructors/scanners of the reviewed tree.
var stringValWriters = map[string]string{
	"newOneCharToken":           "one-character tokens carry their character",
	"newStLikeToken":            "keyword-like tokens carry their lexeme",
	"scanIdentifierToken":       "identifier text (a slice of the source)",
	"scanStringLiteralToken":    "the scanner decided by C11.a-c",
	"scanRawStringLiteralToken": "the scanner decided by C11.a-c",
	"newToken":                  "positional composite literal with an empty text",
}

func checkStringValWriters(c *Ctx, f *FC) {
	r := c.R
	pkg := f.M.Main()
	info := pkg.TypesInfo
	writers := map[string]bool{}
	isStringVal := func(e ast.Expr) bool {
		se, ok := e.(*ast.SelectorExpr)
		if !ok {
			return false
		}
		v, ok := info.Uses[se.Sel].(*types.Var)
		return ok && v.IsField() && v.Name() == "stringVal"
	}
	for _, file := range pkg.Syntax {
		for _, d := range file.Decls {
			fd, ok := d.(*ast.FuncDecl)
			if !ok || fd.Body == nil {
				continue
			}
			name := funcLabel(fd)
			ast.Inspect(fd.Body, func(x ast.Node) bool {
				switch y := x.(type) {
				case *ast.AssignStmt:
					for _, l := range y.Lhs {
						if isStringVal(l) {
							writers[name] = true
						}
					}
				case *ast.CompositeLit:
					tv, ok := info.Types[y]
					if !ok {
						return true
					}
					n, ok := tv.Type.(*types.Named)
					if !ok || n.Obj().Name() != "Token" || n.Obj().Pkg() != pkg.Types {
						return true
					}
					st, _ := n.Underlying().(*types.Struct)
					for i, el := range y.Elts {
						if kv, ok := el.(*ast.KeyValueExpr); ok {
							if id, ok := kv.Key.(*ast.Ident); ok && id.Name == "stringVal" {
								writers[name] = true
							}
						} else if st != nil && i < st.NumFields() && st.Field(i).Name() == "stringVal" {
							writers[name] = true
						}
					}
				case *ast.UnaryExpr:
					if y.Op == token.AND && isStringVal(y.X) {
						writers[name] = true // address taken: anybody may write through it
					}
				}
				return true
			})
		}
	}
	var extra []string
	for w := range writers {
		if _, ok := stringValWriters[w]; !ok {
			extra = append(extra, w)
		}
	}
	sort.Strings(extra)
	r.Check(len(extra) == 0 && len(writers) >= 4, "C11.anchor", "Token.stringVal", "who-may-write", "fc/wrapper.go",
		"the text of a token is written only by its constructor or scanner ("+strings.Join(sortedKeysB(writers), ", ")+")",
		"Token.stringVal is also written by "+strings.Join(extra, ", ")+": the text of a literal is rewritten after its scanner produced it, outside the byte-class discipline C11.a-c decide")
}

// checkWrittenTextIsEmitted: the content handed to sys.WriteFile is RootStmtsToGo's result (possibly with a head or
// a tail added) — no pass between the emitters and the file rewrites the program text.
func checkWrittenTextIsEmitted(c *Ctx, f *FC, rule string) {
	r := c.R
	if _, fn := f.NF("transpileOne"); fn != nil {
		okW, nW := true, 0
		ir.Walk(f.N.Func(fn), func(t ir.Term) bool {
			if app, ok := isCallTo(t, sysPath+".WriteFile"); ok && len(app.Args) == 2 {
				nW++
				if !strictlyContains(f.Path, app.Args[1], "RootStmtsToGo(#1(ParseAll(psSetNewSrc(#0(sys.ReadFile(p1)), p0))))") {
					okW = false
				}
			}
			return true
		})
		r.Check(okW && nW >= 1, rule, "transpileOne", "written-text", c.Pos(f.M.Fset, fn.Decl.Pos()), "the text written is RootStmtsToGo's (possibly with a head or a tail added)",
			"the text written is not what the emitters produced: a pass between the emitters and the file rewrites the program text (re-encoded literals, dropped imports, …)")
	} else {
		r.Undecided(rule, "transpileOne", "definition", "fc", "anchor function not found")
	}
}
