package rules

import (
	"go/types"
	"strings"

	"verif/tools/internal/ir"
)

// C13 — slice library functions compute their F#-List-style specification.
//
// Every function of pkg/slice is a <= 10-line loop in one of eight idioms, so a
// loop summariser derives a closed list term from its normal form (buffer and
// cell identity kept):
//
//	Compr(x in SRC [| guard]: elem)      accumulate-by-append under range / counted for
//	Flat(x in SRC: elems)                spread-append
//	First(x in SRC | cond: hit; else miss)  early-return scan, left to right
//	FoldL(x in SRC, acc=init: step)      left fold
//	Each(x in SRC: action)               side-effect iteration in order
//	DistinctFirst(SRC)                   set-guarded accumulate (first occurrences, in order)
//	Sorted(copy(SRC), cmp)               copy-then-slices.SortFunc
//	pre(cond) …                          leading `if … { panic }`
//
// The summary is compared with the specification term written from the
// property statement.  A body outside the idioms is undecided.

func init() { Register("C13", checkC13) }

type loopSum struct {
	p    *ir.Printer
	home string
}

func (s *loopSum) S(t ir.Term) string { return s.p.S(t) }

func isLocal(t ir.Term) (*types.Var, bool) {
	l, ok := t.(*ir.Local)
	if !ok {
		return nil, false
	}
	return l.Obj, true
}

// appendTo: assign(res = append(res, X[...])) → (X, spread)
func appendTo(t ir.Term, res *types.Var) (ir.Term, bool, bool) {
	as, ok := t.(*ir.AssignT)
	if !ok || as.Op != "=" {
		return nil, false, false
	}
	if v, ok := isLocal(as.LHS); !ok || v != res {
		return nil, false, false
	}
	app, ok := as.RHS.(*ir.App)
	if !ok || len(app.Args) != 2 {
		return nil, false, false
	}
	if b, ok := app.Fun.(*ir.Builtin); !ok || b.Name != "append" {
		return nil, false, false
	}
	if v, ok := isLocal(app.Args[0]); !ok || v != res {
		return nil, false, false
	}
	return app.Args[1], app.Spread, true
}

func effsOf(t ir.Term) ([]ir.Term, ir.Term) {
	if sq, ok := t.(*ir.Seq); ok {
		return sq.Effs, sq.Ret
	}
	return nil, t
}

func emptySeq(t ir.Term) bool {
	sq, ok := t.(*ir.Seq)
	return ok && len(sq.Effs) == 0 && sq.Ret == nil
}

// loopHeader describes the iteration: "x in SRC", "i,x in SRC", "i in [lo, hi)".
func (s *loopSum) loopHeader(l *ir.LoopT) (string, bool) {
	if l.Over != nil {
		k, v := "", ""
		if l.L.Key != nil {
			k = s.p.S(&ir.Local{Obj: l.L.Key})
		}
		if l.L.Val != nil {
			v = s.p.S(&ir.Local{Obj: l.L.Val})
		}
		switch {
		case k != "" && v != "":
			return k + "," + v + " in " + s.S(l.Over), true
		case v != "":
			return v + " in " + s.S(l.Over), true
		case k != "":
			return k + " in indices(" + s.S(l.Over) + ")", true
		}
		return "", false
	}
	// for i := LO; i < HI; i++
	ini, ok1 := l.Init.(*ir.AssignT)
	post, ok2 := l.Post.(*ir.AssignT)
	cond, ok3 := l.Cond.(*ir.BinOp)
	if !ok1 || !ok2 || !ok3 || ini.Op != ":=" || post.Op != "++" || cond.Op != "<" {
		return "", false
	}
	iv, ok := isLocal(ini.LHS)
	if !ok {
		return "", false
	}
	if v, ok := isLocal(post.LHS); !ok || v != iv {
		return "", false
	}
	if v, ok := isLocal(cond.L); !ok || v != iv {
		return "", false
	}
	return s.S(ini.LHS) + " in [" + s.S(ini.RHS) + ", " + s.S(cond.R) + ")", true
}

func isNilInit(t ir.Term) bool {
	switch x := t.(type) {
	case *ir.Zero:
		_, ok := x.Type.Underlying().(*types.Slice)
		return ok
	case *ir.SliceLit:
		return len(x.Elems) == 0
	case *ir.Nil:
		return true
	}
	return false
}

// summarise returns the list term of a normal form, or "" with a reason.
func (s *loopSum) summarise(t ir.Term) (string, string) {
	// leading precondition: if(cond, seq[panic(..)], rest)
	if it, ok := t.(*ir.IfT); ok {
		if sq, ok := it.Then.(*ir.Seq); ok && len(sq.Effs) == 1 && sq.Ret == nil {
			if app, ok := sq.Effs[0].(*ir.App); ok {
				if b, ok := app.Fun.(*ir.Builtin); ok && b.Name == "panic" {
					rest, why := s.summarise(it.Else)
					if rest == "" {
						return "", why
					}
					return "pre(not" + s.S(it.Cond) + ") " + rest, ""
				}
			}
		}
		return "", "conditional that is not a panic precondition"
	}
	effs, ret := effsOf(t)
	if len(effs) == 0 {
		return s.S(ret), "" // loop-free closed form
	}
	// hoist declarations that precede a precondition:  seq[assign(x := nil)] if(cond, panic, …)
	if it, ok := ret.(*ir.IfT); ok && len(effs) >= 1 {
		inner, why := s.summariseWithDecls(effs, it)
		return inner, why
	}
	return s.summariseSeq(effs, ret)
}

func (s *loopSum) summariseWithDecls(decls []ir.Term, it *ir.IfT) (string, string) {
	sq, ok := it.Then.(*ir.Seq)
	if !ok || len(sq.Effs) != 1 || sq.Ret != nil {
		return "", "conditional that is not a panic precondition"
	}
	app, ok := sq.Effs[0].(*ir.App)
	if !ok {
		return "", "conditional that is not a panic precondition"
	}
	if b, ok := app.Fun.(*ir.Builtin); !ok || b.Name != "panic" {
		return "", "conditional that is not a panic precondition"
	}
	for _, d := range decls {
		as, ok := d.(*ir.AssignT)
		if !ok || as.Op != ":=" || !isNilInit(as.RHS) {
			return "", "effect before the precondition"
		}
	}
	e2, r2 := effsOf(it.Else)
	rest, why := s.summariseSeq(append(append([]ir.Term{}, decls...), e2...), r2)
	if rest == "" {
		return "", why
	}
	return "pre(not" + s.S(it.Cond) + ") " + rest, ""
}

func (s *loopSum) summariseSeq(effs []ir.Term, ret ir.Term) (string, string) {
	// Sorted: seq[assign(res := append(slice(S,(),0,0), S...)); slices.SortFunc(res, CMP)] res
	if len(effs) == 2 {
		if as, ok := effs[0].(*ir.AssignT); ok && as.Op == ":=" {
			if rv, ok := isLocal(as.LHS); ok {
				if app, ok := as.RHS.(*ir.App); ok && app.Spread && len(app.Args) == 2 {
					if b, ok := app.Fun.(*ir.Builtin); ok && b.Name == "append" {
						if so, ok := app.Args[0].(*ir.SliceOf); ok && s.S(so.X) == s.S(app.Args[1]) && so.Lo == nil && s.S(so.Hi) == "0" && s.S(so.Max) == "0" {
							if sc, ok := effs[1].(*ir.App); ok && len(sc.Args) == 2 {
								if fr, ok := sc.Fun.(*ir.FuncRef); ok && fr.Key == "slices.SortFunc" {
									if v, ok := isLocal(sc.Args[0]); ok && v == rv {
										if v2, ok := isLocal(ret); ok && v2 == rv {
											return "Sorted(copy(" + s.S(app.Args[1]) + "), " + s.S(sc.Args[1]) + ")", ""
										}
									}
								}
							}
						}
					}
				}
			}
		}
	}
	// find the single loop
	li := -1
	for i, e := range effs {
		if _, ok := e.(*ir.LoopT); ok {
			if li >= 0 {
				return "", "more than one loop"
			}
			li = i
		}
	}
	if li < 0 {
		return "", "effects without a loop: " + short(s.S(&ir.Seq{Effs: effs, Ret: ret}), 80)
	}
	if li != len(effs)-1 {
		return "", "statements after the loop"
	}
	loop := effs[li].(*ir.LoopT)
	hdr, ok := s.loopHeader(loop)
	if !ok {
		return "", "loop header outside the idioms"
	}
	decls := effs[:li]
	bodyEffs, bodyRet := effsOf(loop.Body)
	// no declarations: early-return scan or Each
	if len(decls) == 0 {
		if it, ok := loop.Body.(*ir.IfT); ok {
			if rt, ok := it.Then.(*ir.RetT); ok && emptySeq(it.Else) {
				return "First(" + hdr + " | " + s.S(it.Cond) + ": " + s.S(rt.X) + "; else " + s.S(ret) + ")", ""
			}
			return "", "loop body conditional outside the idioms"
		}
		if len(bodyEffs) == 1 && bodyRet == nil && ret == nil {
			return "Each(" + hdr + ": " + s.S(bodyEffs[0]) + ")", ""
		}
		return "", "loop body outside the idioms"
	}
	// one declared accumulator (or set + accumulator for Distinct)
	if len(decls) == 2 {
		setD, ok1 := decls[0].(*ir.AssignT)
		resD, ok2 := decls[1].(*ir.AssignT)
		if ok1 && ok2 && isNilInit(resD.RHS) {
			if mk, ok := setD.RHS.(*ir.App); ok {
				if b, ok := mk.Fun.(*ir.Builtin); ok && b.Name == "make" {
					setV, _ := isLocal(setD.LHS)
					resV, _ := isLocal(resD.LHS)
					if it, ok := loop.Body.(*ir.IfT); ok && emptySeq(it.Else) && loop.L.Val != nil {
						ev := s.p.S(&ir.Local{Obj: loop.L.Val})
						wantCond := "not(#1(lookup2(" + s.S(setD.LHS) + ", " + ev + ")))"
						te, tr := effsOf(it.Then)
						if s.S(it.Cond) == wantCond && len(te) == 2 && tr == nil {
							x, spread, okA := appendTo(te[0], resV)
							mark, okM := te[1].(*ir.AssignT)
							if okA && !spread && s.S(x) == ev && okM && mark.Op == "=" && s.S(mark.LHS) == s.S(setD.LHS)+"["+ev+"]" && (s.S(mark.RHS) == "true" || s.S(mark.RHS) == "struct{}{}") {
								if v, ok := isLocal(ret); ok && v == resV && setV != nil {
									return "DistinctFirst(" + s.S(loop.Over) + ")", ""
								}
							}
						}
					}
				}
			}
		}
		return "", "two declarations outside the set-guarded accumulate idiom"
	}
	if len(decls) != 1 {
		return "", "declarations outside the idioms"
	}
	d, ok := decls[0].(*ir.AssignT)
	if !ok || d.Op != ":=" {
		return "", "declaration outside the idioms"
	}
	acc, ok := isLocal(d.LHS)
	if !ok {
		return "", "declaration outside the idioms"
	}
	if v, ok := isLocal(ret); !ok || v != acc {
		return "", "the result is not the accumulator"
	}
	if isNilInit(d.RHS) {
		// accumulate-by-append, optionally guarded
		if it, ok := loop.Body.(*ir.IfT); ok && emptySeq(it.Else) {
			te, tr := effsOf(it.Then)
			if len(te) == 1 && tr == nil {
				if x, spread, ok := appendTo(te[0], acc); ok && !spread {
					return "Compr(" + hdr + " | " + s.S(it.Cond) + ": " + s.S(x) + ")", ""
				}
			}
			return "", "guarded loop body outside the idioms"
		}
		switch len(bodyEffs) {
		case 1:
			if x, spread, ok := appendTo(bodyEffs[0], acc); ok && bodyRet == nil {
				if spread {
					return "Flat(" + hdr + ": " + s.S(x) + ")", ""
				}
				return "Compr(" + hdr + ": " + s.S(x) + ")", ""
			}
		case 2:
			// one := f(e); res = append(res, one...)
			if as, ok := bodyEffs[0].(*ir.AssignT); ok && as.Op == ":=" {
				if x, spread, ok := appendTo(bodyEffs[1], acc); ok && spread && s.S(x) == s.S(as.LHS) && bodyRet == nil {
					return "Flat(" + hdr + ": " + s.S(as.RHS) + ")", ""
				}
			}
		}
		return "", "loop body outside the accumulate idioms"
	}
	// fold: acc := INIT; loop{acc = F(acc, e)}
	if len(bodyEffs) == 1 && bodyRet == nil {
		if as, ok := bodyEffs[0].(*ir.AssignT); ok && as.Op == "=" {
			if v, ok := isLocal(as.LHS); ok && v == acc {
				return "FoldL(" + hdr + ", " + s.S(d.LHS) + "=" + s.S(d.RHS) + ": " + s.S(as.RHS) + ")", ""
			}
		}
	}
	return "", "loop outside the idioms"
}

// specification terms (from the property statement); $n name cells/loop variables in order of first appearance
var c13Specs = map[string]struct {
	want []string
	why  string
}{
	"Length":     {[]string{"len(p0)"}, "Length agrees with the element count"},
	"Len":        {[]string{"len(p0)"}, "alias of Length"},
	"New":        {[]string{"[]"}, "the empty slice"},
	"Item":       {[]string{"p1[p0]", "pre(not(p0 >= len(p1))) p1[p0]"}, "Item index s = s[index]"},
	"IsEmpty":    {[]string{"(len(p0) == 0)"}, "IsEmpty agrees with the element count"},
	"IsNotEmpty": {[]string{"(len(p0) != 0)", "(len(p0) > 0)"}, "IsNotEmpty agrees with the element count"},
	"Last":       {[]string{"p0[(len(p0) - 1)]", "pre(not(len(p0) == 0)) p0[(len(p0) - 1)]"}, "the last element"},
	"Head":       {[]string{"pre(not(len(p0) == 0)) p0[0]"}, "the first element of a non-empty slice"},
	"Tail":       {[]string{"pre(not(len(p0) == 0)) slice(p0, 1, (), ())"}, "everything but the first element"},
	"PopLast":    {[]string{"slice(p0, 0, (len(p0) - 1), ())", "slice(p0, (), (len(p0) - 1), ())"}, "everything but the last element"},
	// an explicit leading panic on exactly the condition under which the indexing itself would panic does not change the (partial) function
	"Take":   {[]string{"Compr($0 in [0, p0): p1[$0])", "pre(not(p0 > len(p1))) Compr($0 in [0, p0): p1[$0])", "pre(not(len(p1) < p0)) Compr($0 in [0, p0): p1[$0])"}, "the first n elements in order"},
	"Skip":   {[]string{"Compr($0 in [p0, len(p1)): p1[$0])"}, "the elements from index n on, in order"},
	"Map":    {[]string{"Compr($0 in p1: p0($0))"}, "f applied to each element, order preserved"},
	"Mapi":   {[]string{"Compr($0,$1 in p1: p0($0, $1))"}, "f applied to index and element, order preserved"},
	"Iter":   {[]string{"Each($0 in p1: p0($0))"}, "action applied to each element left to right"},
	"Filter": {[]string{"Compr($0 in p1 | p0($0): $0)"}, "the elements satisfying the predicate, order preserved"},
	"Sort":   {[]string{"Sorted(copy(p0), cmp.Compare)"}, "ascending permutation of a copy"},
	"SortBy": {[]string{`Sorted(copy(p1), \x0 x1. cmp.Compare(p0(x0), p0(x1)))`}, "ascending (by key) permutation of a copy; every element kept"},
	"Zip":    {[]string{"pre(not(len(p0) != len(p1))) Compr($0,$1 in p0: ($1, p1[$0]))"}, "positional pairs of two slices of equal length"},
	// the standard-library scans are the same left-to-right first-match scan
	"Forall":   {[]string{"First($0 in p1 | not(p0($0)): false; else true)", `(slices.IndexFunc(p1, \x0. not(p0(x0))) < 0)`, `(slices.IndexFunc(p1, \x0. not(p0(x0))) == -1)`, `not(slices.ContainsFunc(p1, \x0. not(p0(x0))))`}, "scan left to right, false at the first counterexample"},
	"Forany":   {[]string{"First($0 in p1 | p0($0): true; else false)", "(slices.IndexFunc(p1, p0) >= 0)", "(slices.IndexFunc(p1, p0) != -1)", "slices.ContainsFunc(p1, p0)"}, "scan left to right, true at the first witness"},
	"TryFind":  {[]string{"First($0 in p1 | p0($0): ($0, true); else (zero[T], false))"}, "the FIRST element satisfying the predicate"},
	"PushLast": {[]string{"append(slice(p1, (), len(p1), len(p1)), p0)"}, "s followed by elem (on a clipped view, C12)"},
	"PushHead": {[]string{"append([p0], p1...)"}, "elem followed by s"},
	"Collect":  {[]string{"Flat($0 in p1: p0($0))"}, "concatenation of f's results in order"},
	"Concat":   {[]string{"Flat($0 in p0: $0)"}, "concatenation in order"},
	"Append":   {[]string{"append(append(zero[[]T], p0...), p1...)"}, "s1 followed by s2"},
	"Distinct": {[]string{"DistinctFirst(p0)"}, "first occurrences, in order"},
	"Fold":     {[]string{"FoldL($0 in p2, $1=p1: p0($1, $0))"}, "left fold"},
}

func checkC13(c *Ctx) {
	r := c.R
	r.Explanation = "Functional correctness is value-level, but every function of pkg/slice is a short loop in one of eight idioms, so a loop summariser derives a closed list term from its normal form (typed syntax lowered to FoIR, cell identity kept): " +
		"Compr (accumulate-by-append under range or a counted for, optionally guarded), Flat (spread-append), First (early-return scan, left to right), FoldL, Each, DistinctFirst (set-guarded accumulate), Sorted(copy) and pre(cond) for leading panics. " +
		"The summary is compared with the specification term written from the statement (Take n = the elements at [0,n), Skip n = [n,len), Zip positional with equal lengths, TryFind the first match, Forall/Forany scans, Fold left, Distinct first occurrences, Sort/SortBy sort a copy with cmp.Compare). " +
		"Holds for all inputs in the domain (all lengths, duplicates, function arguments) because the summary is a closed form of the loop, not a sample. A body outside the idioms is undecided. The .foi signatures agree with the Go signatures (FOI)."
	r.NotDecided = []string{"that slices.SortFunc returns an ascending permutation (trusted)", "panics on out-of-domain indices (Item, Take beyond the length)"}
	r.Assumptions = []string{"Go's append, slicing, range order (index order) and slices.SortFunc/cmp.Compare"}
	r.Rule("C13.a", "loop summary of every slice function equals its specification term", 29)
	r.Rule("FOI", "slice.foi agrees with the Go signatures", 25)
	m, prog, _ := libProg(c, "pkg/slice")
	if m == nil {
		return
	}
	pp := m.Main().PkgPath
	n := ir.NewNormalizer()
	n.KeepShared = true
	inlineExpressionFuncs(prog, n)
	for _, name := range sortedKeys(c13Specs) {
		spec := c13Specs[name]
		fn, ok := prog.ByName[name]
		if !ok {
			r.Undecided("C13.a", "slice."+name, "definition", "pkg/slice", "anchor function not found (renamed or removed)")
			continue
		}
		pos := c.Pos(m.Fset, fn.Decl.Pos())
		ls := &loopSum{p: ir.NewPrinter(pp), home: pp}
		sum, why := ls.summarise(canonLoops(n.Func(fn)))
		if sum == "" {
			r.Undecided("C13.a", "slice."+name, "summary", pos, "the body is outside the eight loop idioms ("+why+"): "+short(ir.String(pp, n.Func(fn)), 200)+" — expected "+spec.want[0]+" ("+spec.why+")")
			continue
		}
		ok = false
		for _, w := range spec.want {
			if sum == w || canonShape(sum) == canonShape(w) {
				ok = true
			}
		}
		r.Check(ok, "C13.a", "slice."+name, "summary", pos, spec.why+": "+sum, "the loop computes "+sum+", the specification is "+spec.want[0]+" ("+spec.why+")")
	}
	var extra []string
	for _, fn := range prog.Funcs {
		if _, ok := c13Specs[fn.Name]; !ok && fn.Decl.Recv == nil && strings.ToUpper(fn.Name[:1]) == fn.Name[:1] {
			extra = append(extra, fn.Name)
		}
	}
	if len(extra) > 0 {
		r.Note("exported functions without a specification term (not decided): %s", strings.Join(extra, ", "))
	}
	checkFOISlice(c)
}

// checkFOISlice: FOI restricted to pkg/slice/slice.foi.
func checkFOISlice(c *Ctx) {
	checkFOIFiles(c, "FOI", []string{"slice"})
}

// canonLoops rewrites two loop spellings into the ones the idioms are stated in (both are equalities of Go, no
// property depends on the choice):
//   - `for i := 0; i < len(X); i++ { … X[i] … }` whose body mentions i only as the index of X is
//     `for _, e := range X { … e … }` (X a parameter or a local the body does not assign);
//   - an accumulator initialised with make([]T, 0) / make([]T, 0, cap) is the empty list (capacity is not
//     observable through the functions' results).
func canonLoops(t ir.Term) ir.Term {
	return ir.Rewrite(t, func(x ir.Term) (ir.Term, bool) {
		switch y := x.(type) {
		case *ir.IfT:
			// `if len(S) == 0 { return nil }` in front of an accumulate loop over S: the loop over an empty S leaves the
			// accumulator nil as well
			if c, ok := y.Cond.(*ir.BinOp); ok && c.Op == "==" {
				if ln, ok := c.L.(*ir.App); ok && len(ln.Args) == 1 {
					if b, ok := ln.Fun.(*ir.Builtin); ok && b.Name == "len" {
						if lit, ok := c.R.(*ir.Lit); ok && lit.Val == "0" {
							isSrc := false
							switch a := ln.Args[0].(type) {
							case *ir.Param:
								isSrc = true
							case *ir.Field:
								_, isSrc = a.X.(*ir.Param)
							}
							if isSrc {
								if _, isNil := y.Then.(*ir.Nil); isNil && loopsOver(y.Else, ln.Args[0]) {
									return canonLoops(y.Else), true
								}
							}
						}
					}
				}
			}
		case *ir.Seq:
			// indexed fill: acc := make([]U, len(S)); for i, e := range S { acc[i] = X }  is  acc := nil; for _, e := range S { acc = append(acc, X) }
			for k := 0; k+1 < len(y.Effs); k++ {
				d, ok := y.Effs[k].(*ir.AssignT)
				if !ok || d.Op != ":=" {
					continue
				}
				acc, ok := isLocal(d.LHS)
				if !ok {
					continue
				}
				mk, ok := d.RHS.(*ir.App)
				if !ok || len(mk.Args) != 2 {
					continue
				}
				if b, ok := mk.Fun.(*ir.Builtin); !ok || b.Name != "make" {
					continue
				}
				tl, ok := mk.Args[0].(*ir.TypeLit)
				if !ok {
					continue
				}
				if _, isSlice := tl.Type.Underlying().(*types.Slice); !isSlice {
					continue
				}
				ln, ok := mk.Args[1].(*ir.App)
				if !ok || len(ln.Args) != 1 {
					continue
				}
				if b, ok := ln.Fun.(*ir.Builtin); !ok || b.Name != "len" {
					continue
				}
				lp, ok := y.Effs[k+1].(*ir.LoopT)
				if !ok || lp.Over == nil || lp.L == nil || lp.L.Key == nil || ir.String("", lp.Over) != ir.String("", ln.Args[0]) {
					continue
				}
				be, br := effsOf(lp.Body)
				if len(be) != 1 || br != nil {
					continue
				}
				st, ok := be[0].(*ir.AssignT)
				if !ok || st.Op != "=" {
					continue
				}
				ix, ok := st.LHS.(*ir.Index)
				if !ok {
					continue
				}
				if v, ok := isLocal(ix.X); !ok || v != acc {
					continue
				}
				if v, ok := isLocal(ix.I); !ok || v != lp.L.Key {
					continue
				}
				// (the i-th iteration appends the i-th element: the index keeps its meaning in the rewritten loop; it is
				// dropped from the header when the element expression does not mention it)
				uses := 0
				ir.Walk(st.RHS, func(z ir.Term) bool {
					if w, ok := z.(*ir.Local); ok && w.Obj == lp.L.Key {
						uses++
					}
					return true
				})
				key := lp.L.Key
				if uses == 0 {
					key = nil
				}
				ne := append([]ir.Term{}, y.Effs...)
				ne[k] = &ir.AssignT{LHS: d.LHS, RHS: &ir.Zero{Type: tl.Type}, Op: ":="}
				app := &ir.App{Fun: &ir.Builtin{Name: "append"}, Args: []ir.Term{d.LHS, st.RHS}}
				ne[k+1] = &ir.LoopT{L: &ir.Loop{Key: key, Val: lp.L.Val, Stmt: lp.L.Stmt}, Over: lp.Over, Body: &ir.Seq{Effs: []ir.Term{&ir.AssignT{LHS: d.LHS, RHS: app, Op: "="}}}}
				return canonLoops(&ir.Seq{Effs: ne, Ret: y.Ret}), true
			}
		case *ir.AssignT:
			if y.Op == ":=" {
				if app, ok := y.RHS.(*ir.App); ok && (len(app.Args) == 2 || len(app.Args) == 3) {
					if b, ok := app.Fun.(*ir.Builtin); ok && b.Name == "make" {
						if tl, ok := app.Args[0].(*ir.TypeLit); ok {
							if _, isSlice := tl.Type.Underlying().(*types.Slice); isSlice {
								if lit, ok := app.Args[1].(*ir.Lit); ok && lit.Val == "0" {
									return &ir.AssignT{LHS: y.LHS, RHS: &ir.Zero{Type: tl.Type}, Op: ":="}, true
								}
							}
						}
					}
				}
			}
		case *ir.LoopT:
			if y.Over != nil || y.L == nil {
				return nil, false
			}
			ini, ok1 := y.Init.(*ir.AssignT)
			post, ok2 := y.Post.(*ir.AssignT)
			cond, ok3 := y.Cond.(*ir.BinOp)
			if !ok1 || !ok2 || !ok3 || ini.Op != ":=" || post.Op != "++" || cond.Op != "<" {
				return nil, false
			}
			iv, ok := isLocal(ini.LHS)
			if !ok {
				return nil, false
			}
			if lit, ok := ini.RHS.(*ir.Lit); !ok || lit.Val != "0" {
				return nil, false
			}
			if v, ok := isLocal(post.LHS); !ok || v != iv {
				return nil, false
			}
			if v, ok := isLocal(cond.L); !ok || v != iv {
				return nil, false
			}
			ln, ok := cond.R.(*ir.App)
			if !ok || len(ln.Args) != 1 {
				return nil, false
			}
			if b, ok := ln.Fun.(*ir.Builtin); !ok || b.Name != "len" {
				return nil, false
			}
			src := ln.Args[0]
			var srcVar *types.Var
			switch sv := src.(type) {
			case *ir.Param:
				srcVar = sv.Obj
			case *ir.Local:
				srcVar = sv.Obj
			default:
				return nil, false
			}
			sl, ok := srcVar.Type().Underlying().(*types.Slice)
			if !ok {
				return nil, false
			}
			// every mention of i is X[i]; X is not assigned in the body
			okUse := true
			ir.Walk(y.Body, func(z ir.Term) bool {
				switch w := z.(type) {
				case *ir.Index:
					if v, ok := isLocal(w.I); ok && v == iv && sameVarTerm(w.X, srcVar) {
						return false
					}
				case *ir.Local:
					if w.Obj == iv {
						okUse = false
					}
				case *ir.AssignT:
					if sameVarTerm(w.LHS, srcVar) {
						okUse = false
					}
				}
				return okUse
			})
			if !okUse {
				return nil, false
			}
			ev := types.NewVar(y.Pos(), srcVar.Pkg(), "e", sl.Elem())
			body := ir.Rewrite(y.Body, func(z ir.Term) (ir.Term, bool) {
				if w, ok := z.(*ir.Index); ok {
					if v, ok := isLocal(w.I); ok && v == iv && sameVarTerm(w.X, srcVar) {
						return &ir.Local{Obj: ev}, true
					}
				}
				return nil, false
			})
			return &ir.LoopT{L: &ir.Loop{Val: ev, Stmt: y.L.Stmt}, Over: src, Body: canonLoops(body)}, true
		}
		return nil, false
	})
}

func sameVarTerm(t ir.Term, v *types.Var) bool {
	switch x := t.(type) {
	case *ir.Param:
		return x.Obj == v
	case *ir.Local:
		return x.Obj == v
	}
	return false
}

// loopsOver: t is a sequence whose only loop ranges over src and whose other effects are declarations — with an
// empty src the loop does not run and the result is the initial accumulator.
func loopsOver(t ir.Term, src ir.Term) bool {
	sq, ok := t.(*ir.Seq)
	if !ok {
		return false
	}
	loops := 0
	for _, e := range sq.Effs {
		switch x := e.(type) {
		case *ir.LoopT:
			loops++
			if x.Over == nil || ir.String("", x.Over) != ir.String("", src) {
				return false
			}
		case *ir.AssignT:
			if x.Op != ":=" {
				return false
			}
		default:
			return false
		}
	}
	return loops == 1
}
