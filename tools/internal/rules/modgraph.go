package rules

import (
	"os"
	"path/filepath"
	"sort"
	"strings"
)

// MODGRAPH — the module graph is the one the trust assumptions name (shared by C10, C05, C14).
//
// Several checks trust an external module at a stated version (go-cmp v0.6.0 for `=`; the Go standard library
// for everything else).  A go.mod edit can change behaviour without touching a line of Go: a different go-cmp
// version, or a `replace` that points an external module at a modified copy inside the repository.  Decided on
// every go.mod of the repository (line syntax; no Go tooling is run):
//
//	(1) every `replace` maps a module of the repository itself (github.com/karino2/folang…) to a relative
//	    directory whose go.mod declares exactly that module path — no external module is replaced;
//	(2) wherever github.com/google/go-cmp is required it is v0.6.0.
type modFile struct {
	dir      string // relative to the repo root
	module   string
	requires map[string]string
	replaces map[string]string
}

func parseGoMod(path string) (*modFile, error) {
	b, err := os.ReadFile(path)
	if err != nil {
		return nil, err
	}
	mf := &modFile{requires: map[string]string{}, replaces: map[string]string{}}
	block := ""
	for _, ln := range strings.Split(string(b), "\n") {
		if i := strings.Index(ln, "//"); i >= 0 {
			ln = ln[:i]
		}
		f := strings.Fields(ln)
		if len(f) == 0 {
			continue
		}
		if block != "" {
			if f[0] == ")" {
				block = ""
				continue
			}
			f = append([]string{block}, f...)
		} else if len(f) == 2 && f[1] == "(" {
			block = f[0]
			continue
		}
		switch f[0] {
		case "module":
			if len(f) >= 2 {
				mf.module = f[1]
			}
		case "require":
			if len(f) >= 3 {
				mf.requires[f[1]] = f[2]
			}
		case "replace":
			// replace A [v] => B [v]
			for i, x := range f {
				if x == "=>" && i >= 2 && i+1 < len(f) {
					mf.replaces[f[1]] = f[i+1]
				}
			}
		}
	}
	return mf, nil
}

func checkModuleGraph(c *Ctx, rule string) {
	r := c.R
	root := c.Repo.Root
	const own = "github.com/karino2/folang"
	var mods []*modFile
	filepath.Walk(root, func(p string, info os.FileInfo, err error) error {
		if err != nil {
			return nil
		}
		if info.IsDir() && (info.Name() == ".git" || info.Name() == "node_modules") {
			return filepath.SkipDir
		}
		if !info.IsDir() && info.Name() == "go.mod" {
			if mf, err := parseGoMod(p); err == nil {
				mf.dir, _ = filepath.Rel(root, filepath.Dir(p))
				mods = append(mods, mf)
			}
		}
		return nil
	})
	// no workspace file and no vendored copies: both change which code is built without a replace directive
	var alt []string
	filepath.Walk(root, func(p string, info os.FileInfo, err error) error {
		if err != nil {
			return nil
		}
		if info.IsDir() && info.Name() == ".git" {
			return filepath.SkipDir
		}
		if !info.IsDir() && (info.Name() == "go.work" || (info.Name() == "modules.txt" && filepath.Base(filepath.Dir(p)) == "vendor")) {
			rel, _ := filepath.Rel(root, p)
			alt = append(alt, rel)
		}
		return nil
	})
	r.Check(len(alt) == 0, rule, ".", "no-workspace-no-vendor", ".", "no go.work and no vendor directory: dependencies are resolved through the go.mod files alone",
		"found "+strings.Join(alt, ", ")+": dependencies can be resolved to code other than the modules named in the go.mod files")
	sort.Slice(mods, func(i, j int) bool { return mods[i].dir < mods[j].dir })
	byDir := map[string]*modFile{}
	for _, m := range mods {
		byDir[filepath.Clean(m.dir)] = m
	}
	r.Unit("go_mod_files", len(mods))
	if len(mods) < 8 {
		r.Undecided(rule, "-", "go.mod-files", ".", sprintf("%d go.mod files found; the repository has ten modules", len(mods)))
	}
	for _, m := range mods {
		pos := filepath.Join(m.dir, "go.mod")
		var bad []string
		for _, from := range sortedKeysS(m.replaces) {
			to := m.replaces[from]
			if from != own && !strings.HasPrefix(from, own+"/") {
				bad = append(bad, from+" => "+to+" (an external module is replaced)")
				continue
			}
			if !strings.HasPrefix(to, ".") {
				bad = append(bad, from+" => "+to+" (not a relative directory of this repository)")
				continue
			}
			target := filepath.Clean(filepath.Join(m.dir, to))
			if strings.HasPrefix(target, "..") {
				bad = append(bad, from+" => "+to+" (outside the repository)")
				continue
			}
			if from == own {
				continue // the historical root module: no go.mod at the root, never imported
			}
			tm, ok := byDir[target]
			if !ok || tm.module != from {
				bad = append(bad, from+" => "+to+" (that directory does not declare module "+from+")")
			}
		}
		r.Check(len(bad) == 0, rule, m.dir, "replace-directives", pos, sprintf("%d replace directives, each mapping a module of this repository to its own directory", len(m.replaces)),
			"replace directive(s) "+strings.Join(bad, "; ")+": the code that is built is not the module the trust assumptions name")
		if v, ok := m.requires["github.com/google/go-cmp"]; ok {
			r.Check(v == "v0.6.0", rule, m.dir, "go-cmp-version", pos, "go-cmp is required at v0.6.0, the version whose Equal/Exporter/EquateEmpty semantics are assumed",
				"go-cmp is required at "+v+": the assumed semantics of cmp.Equal, Exporter and EquateEmpty were reviewed for v0.6.0 only")
		}
	}
}

func sortedKeysS(m map[string]string) []string {
	var ks []string
	for k := range m {
		ks = append(ks, k)
	}
	sort.Strings(ks)
	return ks
}
