package rules

import (
	"sort"
	"strings"

	"verif/tools/internal/ir"
)

// C09 — a union match without default is accepted exactly when it covers every case.

func init() { Register("C09", checkC09) }

func checkC09(c *Ctx) {
	r := c.R
	r.Explanation = "(a) must-pass-through: every construction of a default-less union match (UCaseOnly) in fc is either dominated, in the same block, by exaustiveCheck(ExprToType target, arms, _) on the same arms and the same target that were parsed, or is a rebuild inside the UCaseOnly arm of a match on an existing rules value whose arm list is slice.Map of the old one with a function preserving UnionPattern; " +
		"(b) the decision inside exaustiveCheck: the no-return call depends only on IsNotEmpty of {case names of the matched union} minus {case ids of the arms} (closed form of the set computation, dictionary identity kept), no early return; " +
		"(c) default detection: closed forms of isDefaultMR (BAR then UNDER_SCORE), the arm-list end predicate, parseURules' branch (inside offside ∧ default ⇒ with-default form, else check + UCaseOnly), parseMatchRules rejects a default-only match first; " +
		"(d) the emitted \"never reached\" default is exhaustive in all checked-in generated Go (fc, build_sample_md, samples), and that panic text is emitted only in the UCaseOnly arm of umrToGoReturn. " +
		"Covers every union, arm subset and order at once."
	r.NotDecided = []string{"arms naming a case that does not exist, duplicate arms (not required by the statement)", "type inference giving the match target the right union type (C02)"}
	r.Assumptions = []string{"dict/slice library functions behave as specified (C13/C14)"}
	r.Rule("C09.a", "every construction of UCaseOnly passes through the exhaustiveness check on the same arms and target, or is a pattern-preserving rebuild", 2)
	r.Rule("C09.b", "exaustiveCheck panics iff some case name of the union is not among the arms' case ids", 1)
	r.Rule("C09.c", "default-arm detection and its use", 4)
	r.Rule("C09.g", "the diagnostic naming the uncovered case reaches the console as it was built: PanicNow/psPanic prefix the position, OnParseError prints the recovered value unmodified", 1)
	r.Rule("C09.d", "never-reached defaults are exhaustive in every checked-in generated file; the panic is emitted only for default-less matches", 30)

	f := c.LoadFC("fc")
	if f == nil {
		return
	}
	// (g) the path of the diagnostic to the console
	checkOnParseErrorForm(c, f, "C09.g")
	// (i) the target of a match is the variable lexical scoping gives it
	if _, frtProg9, _ := libProg(c, "pkg/frt"); frtProg9 != nil {
		nr9 := noReturn(f.Prog, frtProg9)
		r.Import("PAIR", "C09.i", "the target of a match, and so the union whose cases must be covered, is the variable lexical scoping gives it (the scope discipline of C01/C07): a pattern binder that outlives its arm shadows the target of a later match, which is then rejected or judged against another type", 100, func() { runPair(c, f, nr9) })
	}
	// (h) exhaustiveness is judged against the case list stored with the union: no pass between the definition and
	// the check may drop, add or move a case (ORDER restricted to case lists)
	// (j) the case table exaustiveCheck reads is the entry of THIS union: the key of the global info table keeps the
	// separator after the name even without type arguments (Opt_int_ for a plain union named Opt_int, Opt_int for the
	// instance Opt<int>), so the two never share an entry
	r.Rule("C09.j", "the key under which a union's (record's) info is stored and looked up is Name, a separator, then the printed type arguments joined by the separator — also when there are no arguments; uniToKey/rtToKey use nothing else", 3)
	c.checkPins(f, "C09.j", []pin{
		{"encodedKey", "nf", `frt.SInterP("%s_%s", p0, strings.Concat("_", slice.Map(FTypeToGo, p1)))`, "Name_ followed by the printed arguments joined with _ (the separator stays when there are none)"},
		{"uniToKey", "nf", `encodedKey(p0.Name, p0.Targs)`, "a union is keyed by its name and type arguments"},
		{"rtToKey", "nf", `encodedKey(p0.Name, p0.Targs)`, "a record is keyed by its name and type arguments"},
	})
	r.Rule("C09.h", "the case list of a union is handed on complete and in order by every pass that rebuilds it (element-wise image of the old list): the set exaustiveCheck requires is the set the definition declares", 1)
	checkListOrderOf(c, "C09.h", f, func(key string) bool { return strings.HasSuffix(key, ".Cases") }, 1)
	checkRelevantReviewedForms(c, f, "C09.z", "a union-match primitive (the exhaustiveness check, the rule constructors and parsers, case lookup, the match emitter)",
		primSet("exaustiveCheck", "New_UnionMatchRules_UCaseOnly", "New_UnionMatchRules_UCaseWD", "lookupCase", "utCases", "parseUnionMatchRule", "parseUnionMatchRules", "parseURules", "parseDefaultMatchRule", "isUnionMatchRules", "parseMatchRules", "umrToGoReturn", "umrToCase", "umpToCaseHeader"), 8)
	c.expectNF(f, "C09.g", "psPanic", []string{"seq[tkzPanic(p0.tkz, p1)]"}, "psPanic hands the message on unchanged")
	c.expectNF(f, "C09.g", "PanicNow", []string{"seq[tkzPanic(var:lastTkz, p0)]"}, "PanicNow hands the message on unchanged")
	c.expectNF(f, "C09.g", "tkzPanic", []string{`seq[frt.Panicf2(<msg>, frt.Sprintf2(<str>, tkzToFPosInfo(p0).LineNum, tkzToFPosInfo(p0).ColNum), p1)]`}, "the position is prefixed, the message follows unchanged")
	ctorKey := f.Path + ".New_UnionMatchRules_UCaseOnly"
	// (a)
	sites := 0
	for _, fn := range f.Prog.Funcs {
		if fn.Key == ctorKey {
			continue // the constructor's own definition
		}
		nf := f.N.Func(fn)
		pos := c.Pos(f.M.Fset, fn.Decl.Pos())
		ord := 0
		// walk keeping the enclosing Seq effects and the enclosing UCaseOnly arm
		var walk func(t ir.Term, effs []ir.Term, inArm bool)
		walkB := func(b *ir.Block, effs []ir.Term, inArm bool) {
			if b != nil {
				walk(b.Ret, effs, inArm)
			}
		}
		walk = func(t ir.Term, effs []ir.Term, inArm bool) {
			switch x := t.(type) {
			case nil:
				return
			case *ir.Seq:
				acc := append([]ir.Term{}, effs...)
				for _, e := range x.Effs {
					walk(e, acc, inArm)
					acc = append(acc, e)
				}
				walk(x.Ret, acc, inArm)
				return
			case *ir.If:
				walk(x.Cond, effs, inArm)
				walkB(x.Then, effs, inArm)
				walkB(x.Else, effs, inArm)
				return
			case *ir.Match:
				walk(x.Scrut, effs, inArm)
				for _, a := range x.Arms {
					arm := inArm
					for _, cs := range a.Cases {
						if ir.CaseName(cs) == "UnionMatchRules_UCaseOnly" {
							arm = true
						}
					}
					walkB(a.Body, effs, arm)
				}
				walkB(x.Default, effs, inArm)
				return
			case *ir.Lam:
				walkB(x.Body, nil, inArm)
				return
			case *ir.Record:
				if ir.CaseName(x.Type) == "UnionMatchRules_UCaseOnly" {
					ord++
					sites++
					r.Undecided("C09.a", fn.Name, sprintf("UCaseOnly-literal#%d", ord), pos, "UCaseOnly is built by a composite literal: not one of the two frozen construction kinds")
				}
			case *ir.App:
				if fr, ok := x.Fun.(*ir.FuncRef); ok && fr.Key == ctorKey && len(x.Args) == 1 {
					ord++
					sites++
					arg := ir.String(f.Path, x.Args[0])
					construct := sprintf("UCaseOnly#%d", ord)
					if inArm && strings.HasPrefix(arg, "slice.Map(umrMapBlock(") && strings.HasSuffix(arg, ", _), payload(UnionMatchRules_UCaseOnly))") {
						r.OK("C09.a", fn.Name, construct, pos, "rebuild of an already checked match: arms = slice.Map(umrMapBlock f) old arms, patterns preserved")
					} else {
						// checked construction: exaustiveCheck(ExprToType(T), arg, _) among the preceding effects; arg = #1(parseUnionMatchRules(_, T, _))
						okc := false
						why := "no preceding exaustiveCheck on the same arms in the same block"
						for _, e := range effs {
							app, ok := isCallTo(e, f.Path+".exaustiveCheck")
							if !ok || len(app.Args) != 3 {
								continue
							}
							if ir.String(f.Path, app.Args[1]) != arg {
								why = "exaustiveCheck is applied to different arms (" + ir.String(f.Path, app.Args[1]) + ") than the ones put into UCaseOnly"
								continue
							}
							tt := ir.String(f.Path, app.Args[0])
							if !strings.HasPrefix(tt, "ExprToType(") {
								why = "the union type given to exaustiveCheck is not ExprToType of the match target: " + tt
								continue
							}
							target := strings.TrimSuffix(strings.TrimPrefix(tt, "ExprToType("), ")")
							if pa, ok := x.Args[0].(*ir.Proj); ok {
								if src, ok := isCallTo(pa.X, f.Path+".parseUnionMatchRules"); ok && len(src.Args) == 3 && ir.String(f.Path, src.Args[1]) == target {
									okc = true
								} else {
									why = "the arms were parsed against a different target than the one whose type is checked"
								}
							} else {
								why = "the arms do not come from parseUnionMatchRules"
							}
						}
						r.Check(okc, "C09.a", fn.Name, construct, pos, "construction is preceded by exaustiveCheck(ExprToType target, arms, _) on the same arms and target",
							"a default-less union match is built without passing the exhaustiveness check: "+why)
					}
				}
			}
			first := true
			ir.Walk(t, func(y ir.Term) bool {
				if first {
					first = false
					return true
				}
				walk(y, effs, inArm)
				return false
			})
		}
		walk(nf, nil, false)
	}
	if sites < 2 {
		r.Undecided("C09.a", "-", "construction-sites", "fc", sprintf("%d constructions of UCaseOnly found; two (parser + block mapper) were confirmed by hand", sites))
	}
	c.expectNF(f, "C09.a", "umrMapBlock", []string{"UnionMatchRule{UnionPattern: p1.UnionPattern, Body: p0(p1.Body)}"}, "the block mapper preserves every arm's pattern")

	// (b) set computation, dictionary identity kept
	if fn, ok := f.Prog.ByName["exaustiveCheck"]; ok {
		n := ir.NewNormalizer()
		n.KeepShared = true
		nf := ir.String(f.Path, n.Func(fn))
		const cmap = `dict.ToDict(slice.Map(\x0. (x0.Name, false), lookupUniInfo(payload(FType_FUnion)).Cases))`
		want := `seq[match(p0; FType_FUnion -> seq[assign($0 := ` + cmap + `); slice.Fold(\x1 x2. seq[dict.Add(x1, x2, true)] x1, $0, slice.Map(\x3. x3.CaseId, slice.Map(\x4. x4.UnionPattern, p1))); ` +
			`assign($1 := slice.Filter(\x5. not(#1(x5)), dict.KVs($0))); if(slice.IsNotEmpty($1), seq[psPanic(p2, frt.SInterP("match does not cover all cases. Can't find case: %s.", #0(slice.Head($1))))])]; _ -> seq[])]`
		r.Check(f.canon(nf) == f.canonSpec(want), "C09.b", "exaustiveCheck", "set-computation", c.Pos(f.M.Fset, fn.Decl.Pos()),
			"cmap = {case name -> false}; every arm's case id is set true; the match is rejected iff an entry is still false, i.e. iff names(Cases) is not a subset of caseIds(arms); no early return",
			"the set computation is not the specified one (names(Cases) minus caseIds(arms) non-empty ⇒ reject); "+diffHint(nf, want))
	} else {
		r.Undecided("C09.b", "exaustiveCheck", "definition", "fc", "anchor function not found")
	}

	// (c)
	c.expectNF(f, "C09.c", "isDefaultMR", []string{"if(psCurIsNot(var:New_TokenType_BAR, p0), false, (psCurrentTT(psConsume(var:New_TokenType_BAR, p0)) eq var:New_TokenType_UNDER_SCORE))"}, "a default arm is BAR followed by UNDER_SCORE")
	c.expectNF(f, "C09.c", "parseUnionMatchRules", []string{`ParseList2(parseUnionMatchRule(p0, p1, _), \x0. not(((insideOffside(x0) && psCurIs(var:New_TokenType_BAR, x0)) && not(isDefaultMR(x0)))), psSkipEOL, p2)`},
		"case arms are collected while inside the offside line, at a BAR, and not at the default arm")
	const UM = "parseUnionMatchRules(p0, p1, p2)"
	c.expectNF(f, "C09.c", "parseURules", []string{
		"if((insideOffside(#0(" + UM + ")) && isDefaultMR(#0(" + UM + "))), (#0(parseDefaultMatchRule(p0, #0(" + UM + "))), New_UnionMatchRules_UCaseWD(UnionMatchRulesWD{Unions: #1(" + UM + "), Default: #1(parseDefaultMatchRule(p0, #0(" + UM + ")))})), " +
			"seq[exaustiveCheck(ExprToType(p1), #1(" + UM + "), p2)] (#0(" + UM + "), New_UnionMatchRules_UCaseOnly(#1(" + UM + "))))",
	}, "with a default arm the with-default form is built; otherwise the arms are checked and UCaseOnly is built")
	if nf, fn := f.NF("parseMatchRules"); fn != nil {
		r.Check(strings.HasPrefix(nf, `if(isDefaultMR(p2), seq[psPanic(p2, "Only default case, illegal.")]`), "C09.c", "parseMatchRules", "default-only", c.Pos(f.M.Fset, fn.Decl.Pos()),
			"a match consisting of a default arm only is rejected first", "parseMatchRules does not reject a default-only match first: "+short(nf, 160))
	} else {
		r.Undecided("C09.c", "parseMatchRules", "definition", "fc", "anchor function not found")
	}

	// (e) gate: with a target whose type is not (yet) a union, exaustiveCheck's `_` arm skips the check.  That arm must be
	// unreachable for accepted programs: isUnionMatchRules may answer true for a non-union-typed target only when the first
	// arm binds a payload (IDENTIFIER IDENTIFIER), and binding a payload casts the target type to a union (no-return on failure).
	r.Rule("C09.e", "a match on a target that is not union-typed is never accepted as a default-less union match", 2)
	if t, fn := f.Term("isUnionMatchRules"); fn != nil {
		var paths []string
		var tp func(t ir.Term, pre string)
		tp = func(t ir.Term, pre string) {
			switch x := t.(type) {
			case *ir.Lit:
				if x.Val == "true" {
					paths = append(paths, strings.TrimPrefix(pre, "/"))
				}
			case *ir.Seq:
				tp(x.Ret, pre)
			case *ir.If:
				tp(x.Then.Ret, pre+"/then")
				if x.Else != nil {
					tp(x.Else.Ret, pre+"/else")
				}
			case *ir.Match:
				sc := ir.String(f.Path, x.Scrut)
				for _, a := range x.Arms {
					tp(a.Body.Ret, pre+"/"+sc+"="+strings.TrimPrefix(strings.TrimPrefix(ir.CaseName(a.Cases[0]), "FType_"), "TokenType_"))
				}
				if x.Default != nil && !x.NeverReached {
					tp(x.Default.Ret, pre+"/"+sc+"=_")
				}
			case nil:
			default:
				if ir.String(f.Path, t) != "false" {
					paths = append(paths, strings.TrimPrefix(pre, "/")+"/?"+short(ir.String(f.Path, t), 40))
				}
			}
		}
		tp(t, "")
		want := []string{
			"ExprToType(p0)=FUnion",
			"ExprToType(p0)=_/psCurrentTT(psConsume(var:New_TokenType_BAR, p1))=IDENTIFIER/psNextTT(psConsume(var:New_TokenType_BAR, p1))=IDENTIFIER",
		}
		r.Check(strings.Join(paths, " ; ") == strings.Join(want, " ; "), "C09.e", "isUnionMatchRules", "answers-union", c.Pos(f.M.Fset, fn.Decl.Pos()),
			"arms are parsed as union arms only for a union-typed target, or — type unknown — when the first arm binds a payload (IDENTIFIER IDENTIFIER)",
			"isUnionMatchRules answers true on paths ["+strings.Join(paths, " ; ")+"]; for a target whose type is not a union the exhaustiveness check is skipped (exaustiveCheck's `_` arm), so only the payload-binding path (which casts the type to a union) may answer true")
	} else {
		r.Undecided("C09.e", "isUnionMatchRules", "definition", "fc", "anchor function not found")
	}
	if t, fn := f.Term("parseUnionMatchRule"); fn != nil {
		okCast := false
		ir.Walk(t, func(x ir.Term) bool {
			iff, ok := x.(*ir.If)
			if !ok {
				return true
			}
			cs := ir.String(f.Path, iff.Cond)
			if strings.HasSuffix(cs, ` ne "_"))`) && strings.Contains(cs, ` ne "") && `) {
				body := ir.String(f.Path, iff.Then.Ret)
				if strings.Contains(body, "lookupCase(Cast(ExprToType(p1), ") {
					okCast = true
				}
			}
			return true
		})
		r.Check(okCast, "C09.e", "parseUnionMatchRule", "payload-binding-casts", c.Pos(f.M.Fset, fn.Decl.Pos()),
			"an arm that binds a payload variable casts the target's type to a union (Cast panics otherwise): an untyped target cannot get past a payload-binding arm",
			"a payload-binding arm no longer casts ExprToType(target) to a union: a match on an untyped target could be accepted unchecked")
	} else {
		r.Undecided("C09.e", "parseUnionMatchRule", "definition", "fc", "anchor function not found")
	}

	// (f) rejection inventory: the ways in which the union-match parsing family can reject a program are frozen, so that
	// a match listing all cases (or ending with a default arm) cannot be rejected by a new path
	checkC09Rejections(c, f, nr09(c, f))

	// (d)
	n := checkEXH(c, "C09.d", exhUnit{label: "fc", fset: f.M.Fset, pkg: f.M.Main().Types, prog: f.Prog.Funcs}, true)
	if b := c.LoadFC("cmd/build_sample_md"); b != nil {
		n += checkEXH(c, "C09.d", exhUnit{label: "build_sample_md", fset: b.M.Fset, pkg: b.M.Main().Types, prog: b.Prog.Funcs}, true)
	}
	for _, s := range c.loadSamples() {
		if s.pkg == nil {
			continue
		}
		n += checkEXH(c, "C09.d", exhUnit{label: "samples/" + s.name, fset: s.fset, pkg: s.pkg, prog: s.fns}, true)
	}
	r.Unit("never_reached_switches", n)
	// the panic text is emitted only in the UCaseOnly arm of umrToGoReturn
	var holders []string
	for _, fn := range f.Prog.Funcs {
		if !fn.Generated {
			continue
		}
		has := false
		ir.WalkFunc(fn, func(t ir.Term) bool {
			if l, ok := t.(*ir.Lit); ok && strings.Contains(l.Val, "Never reached here") && strings.Contains(l.Val, "default:") {
				has = true
			}
			return true
		})
		if has {
			holders = append(holders, fn.Name)
		}
	}
	if t, fn := f.Term("umrToGoReturn"); fn != nil {
		pos := c.Pos(f.M.Fset, fn.Decl.Pos())
		only, wd := "", strings.Join(armBodies(f.Path, t, "UnionMatchRules_UCaseWD"), " ; ")
		for _, b := range armBodies(f.Path, t, "UnionMatchRules_UCaseOnly") {
			if strings.Contains(b, "Never reached here") {
				only = b
			}
		}
		okArm := strings.Contains(only, `default:\npanic(\"Union pattern fail. Never reached here.\")`) && !strings.Contains(wd, "Never reached here")
		r.Check(okArm && len(holders) == 1 && holders[0] == "umrToGoReturn", "C09.d", "umrToGoReturn", "panic-default-emission", pos,
			"the never-reached default is emitted exactly for default-less matches (UCaseOnly arm), nowhere else",
			"the never-reached panic is emitted in "+strings.Join(holders, ",")+"; UCaseOnly arm has it: "+sprintf("%v", strings.Contains(only, "Never reached here"))+", with-default arm has it: "+sprintf("%v", strings.Contains(wd, "Never reached here")))
	} else {
		r.Undecided("C09.d", "umrToGoReturn", "definition", "fc", "anchor function not found")
	}
}

func nr09(c *Ctx, f *FC) map[string]bool {
	_, frtProg, _ := libProg(c, "pkg/frt")
	if frtProg == nil {
		return map[string]bool{}
	}
	return noReturn(f.Prog, frtProg)
}

// the rejection messages of the union-match parsing family on the reviewed tree
var c09Rejections = map[string]bool{
	"parseMatchRules: Only default case, illegal.":                                                                  true,
	"parseMatchRules: Unknown match case, illegal.":                                                                 true,
	"isUnionMatchRules: Can't distinguish String var pattern or union case only pattern. Syntax error for a while.": true,
	"isUnionMatchRules: Unknown case rule of match expr(2)":                                                         true,
	"isUnionMatchRules: Unknown case rule of match expr":                                                            true,
	"exaustiveCheck: match does not cover all cases. Can't find case: %s.":                                          true,
	// the sibling of isUnionMatchRules (same three diagnostics): a target whose type is not known while parsing
	"isStringMatchRules: Can't distinguish String var pattern or union case only pattern. Syntax error for a while.": true,
	"isStringMatchRules: Unknown case rule of match expr(2)":                                                         true,
	"isStringMatchRules: Unknown case rule of match expr":                                                            true,
}

func checkC09Rejections(c *Ctx, f *FC, nr map[string]bool) {
	r := c.R
	r.Rule("C09.f", "the rejection paths of union-match parsing are the reviewed ones (no new way to reject an exhaustive match)", 1)
	family := map[string]bool{}
	for _, n := range []string{"parseMatchExpr", "parseMatchRules", "parseURules", "parseUnionMatchRules", "parseUnionMatchRule", "exaustiveCheck", "isUnionMatchRules", "isDefaultMR", "parseDefaultMatchRule"} {
		if fn, ok := f.Prog.ByName[n]; ok {
			family[fn.Key] = true
		}
	}
	if len(family) < 8 {
		r.Undecided("C09.f", "-", "family", "fc", "anchor functions of union-match parsing not found")
		return
	}
	// referrers
	refs := map[string]map[string]bool{}
	for _, fn := range f.Prog.Funcs {
		ir.WalkFunc(fn, func(t ir.Term) bool {
			if fr, ok := t.(*ir.FuncRef); ok {
				if _, mine := f.Prog.ByKey[fr.Key]; mine && fr.Key != fn.Key {
					if refs[fr.Key] == nil {
						refs[fr.Key] = map[string]bool{}
					}
					refs[fr.Key][fn.Key] = true
				}
			}
			return true
		})
	}
	// private helpers: generated functions referenced only from the family
	for changed := true; changed; {
		changed = false
		for _, fn := range f.Prog.Funcs {
			if !fn.Generated || family[fn.Key] || len(refs[fn.Key]) == 0 {
				continue
			}
			all := true
			for rf := range refs[fn.Key] {
				if !family[rf] {
					all = false
				}
			}
			if all {
				family[fn.Key] = true
				changed = true
			}
		}
	}
	found := map[string]bool{}
	for _, fn := range f.Prog.Funcs {
		if !family[fn.Key] {
			continue
		}
		ir.WalkFunc(fn, func(t ir.Term) bool {
			app, ok := t.(*ir.App)
			if !ok {
				return true
			}
			isNR := false
			switch fun := app.Fun.(type) {
			case *ir.FuncRef:
				isNR = nr[fun.Key]
			case *ir.Builtin:
				isNR = fun.Name == "panic"
			}
			if !isNR {
				return true
			}
			msg := ""
			ir.Walk(app, func(x ir.Term) bool {
				if l, ok := x.(*ir.Lit); ok && l.Kind.String() == "STRING" && msg == "" {
					msg = l.Val
				}
				return true
			})
			if msg == "Union pattern fail. Never reached here." {
				return true // fc's own never-reached default
			}
			found[fn.Name+": "+msg] = true
			return true
		})
	}
	var extra []string
	for k := range found {
		if !c09Rejections[k] {
			extra = append(extra, k)
		}
	}
	sort.Strings(extra)
	var fam []string
	for k := range family {
		fam = append(fam, strings.TrimPrefix(k, f.Path+"."))
	}
	sort.Strings(fam)
	r.Check(len(extra) == 0, "C09.f", "union-match parsing", "rejection-inventory", "fc",
		sprintf("the %d functions of union-match parsing (incl. private helpers: %s) reject only through the %d reviewed diagnostics", len(fam), strings.Join(fam, ", "), len(found)),
		"new rejection path(s) in union-match parsing: "+strings.Join(extra, " | ")+" — a match that lists all cases or ends with a default arm may now be rejected")
}
