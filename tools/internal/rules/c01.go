package rules

import (
	"path/filepath"
	"sort"
	"strings"

	"verif/tools/internal/ir"
)

// C01 — transpiled programs behave exactly as their Folang source specifies.
// Equality of run-time behaviour over an unbounded program space is not
// decidable statically; decided are structural necessary conditions
// (DESIGN.md §C01), each of which breaks behaviour for some program when broken.

func init() { Register("C01", checkC01) }

var c01Pins = []pin{
	// (c) only the taken branch runs
	{"newIfElseCall", "nf", `genBuiltinFunCall(p0, match(blockReturnType(ExprToType, p2); FType_FUnit -> "frt.IfElseUnit"; _ -> "frt.IfElse"), emptySS(), [var:New_FType_FBool, newFnTp(var:New_FType_FUnit, blockReturnType(ExprToType, p2)), newFnTp(var:New_FType_FUnit, blockReturnType(ExprToType, p2)), blockReturnType(ExprToType, p2)], [p1, New_Expr_ELazyBlock(LazyBlock{Block: p2}), New_Expr_ELazyBlock(LazyBlock{Block: p3})])`,
		"if/else is a call of frt.IfElse (IfElseUnit exactly when the branch type is unit) on [cond; lazy then-block; lazy else-block] in this order"},
	{"newIfOnlyCall", "nf", `genBuiltinFunCall(p0, "frt.IfOnly", emptySS(), [var:New_FType_FBool, newFnTp(var:New_FType_FUnit, var:New_FType_FUnit), var:New_FType_FUnit], [p1, New_Expr_ELazyBlock(LazyBlock{Block: p2})])`,
		"if without else is frt.IfOnly on [cond; lazy then-block]"},
	{"lbToGo", "tpl", `⟨wrapFunc(FTypeToGo, ExprToType(p1.Block.FinalExpr), p0(p1.Block))⟩`, "a lazy block is emitted as a function literal that is NOT invoked"},
	{"wrapFunc", "tpl", `"(func () " ⟨p0(p1)⟩ " { " ⟨p2⟩ "})"`, "function literal around the block body"},
	{"wrapFunCall", "tpl", `⟨wrapFunc(p0, p1, p2)⟩ "()"`, "a block used as a value is an immediately invoked function literal"},
	{"blockToGo", "tpl", `⟨wrapFunCall(FTypeToGo, ExprToType(p3.FinalExpr), blockToGoReturn(p0, p1, p2, p3))⟩`, "block value = invoked literal of its statements and result"},
	// (d) operands once, in source order
	{"fcFullApplyGo", "tpl", `⟨varRefToGo(p0, p2.TargetFunc)⟩ "(" ?(not(fcUnitArgOnly(p2))){join(", "; slice.Map(p1, p2.Args))} ")"`, "arguments once, in source order"},
	{"binOpToGo", "tpl", `"(" join(⟨p1.Op⟩; slice.Map(p0, [p1.Lhs, p1.Rhs])) ")"`, "left operand, operator, right operand"},
	{"tupleToGo", "tpl", `"frt.NewTuple" ⟨slice.Length(p1)⟩ "(" join(", "; slice.Map(p0, p1)) ")"`, "tuple elements once, in source order"},
	{"sliceToGo", "tpl", `"(" ⟨p0(ExprToType(New_Expr_ESlice(p2)))⟩ "{" join(","; slice.Map(p1, p2)) "}" ")"`, "slice elements once, in source order"},
	{"rgToGo", "tpl", `⟨frStructName(FTypeToGo, p1.RecordType)⟩ "{" join(", "; slice.Map(rgFVToGo(p0, _), p1.FieldsNV)) "}"`, "record field initialisers once, in the order written"},
	{"rgFVToGo", "tpl", `⟨p1.Name⟩ ": " ⟨p0(p1.Expr)⟩`, "keyed initialiser"},
	{"lvdToGo", "tpl", `⟨p1.Lvar.Name⟩ " := " ⟨p0(p1.Rhs)⟩`, "let is a new Go variable (:=), never an assignment to an existing one"},
	{"ldvdToGo", "tpl", `join(", "; slice.Map(\x0. x0.Name, p1.Lvars)) " := frt.Destr" ⟨slice.Length(p1.Lvars)⟩ "(" ⟨p0(p1.Rhs)⟩ ")"`, "destructuring let declares its variables in order"},
	{"buildReturn", "tpl", `!⟨$0 := strings.Concat("\n", slice.Map(p0, p3))⟩ !⟨$1 := match(p4; Expr_EReturnableExpr -> p2(payload(Expr_EReturnableExpr)); _ -> (if((ExprToType(p4) eq var:New_FType_FUnit), "", "return ") + p1(p4)))⟩ ⇒?(($0 eq "")){⟨$1⟩}{⟨$0⟩ " " ⟨$1⟩}`, "statements in order, then the final expression (returned unless unit)"},
	{"faToGo", "tpl", `⟨p0(p1.TargetExpr)⟩ "." ⟨p1.FieldName⟩`, "field access"},
	// (e) match dispatches to the constructing case
	{"umpToCaseHeader", "tpl", `"case " ⟨unionCSName(p0, p1.CaseId)⟩ ": " ?(((p1.VarName ne "_") && (p1.VarName ne ""))){⟨p1.VarName⟩ " := " ⟨p2⟩ ".Value" " "}`, "the case label is the struct U_C of the named case; the bound variable is its Value"},
	{"umrToCase", "tpl", `⟨umpToCaseHeader(p1, p3.UnionPattern, p2)⟩ ⟨p0(p3.Body)⟩ " "`, "case header then the arm body"},
	{"drToCase", "tpl", `"default: " ⟨p0(p1)⟩ " "`, "default arm"},
	// dispatchers and wrappers of the emitter modules
	{"ExprToGo", "tpl", `match(p1){Expr_EBoolLiteral: %t⟨payload(Expr_EBoolLiteral)⟩; Expr_EGoEvalExpr: ⟨reinterpretEscape(payload(Expr_EGoEvalExpr).GoStmt)⟩; Expr_EStringLiteral: "\"" ⟨payload(Expr_EStringLiteral)⟩ "\""; Expr_ESInterP: ⟨sinterpToGo(payload(Expr_ESInterP))⟩; Expr_EIntImm: %d⟨payload(Expr_EIntImm)⟩; Expr_EUnit: ""; Expr_EFieldAccess: ⟨faToGo(ExprToGo(p0, _), payload(Expr_EFieldAccess))⟩; Expr_EVarRef: ⟨varRefName(payload(Expr_EVarRef))⟩; Expr_ESlice: ⟨sliceToGo(FTypeToGo, ExprToGo(p0, _), payload(Expr_ESlice))⟩; Expr_ETupleExpr: ⟨tupleToGo(ExprToGo(p0, _), payload(Expr_ETupleExpr))⟩; Expr_ELambda: ⟨lambdaToGo(blockToGoReturn(p0, ExprToGo(p0, _), reToGoReturn(p0, ExprToGo(p0, _), _), _), payload(Expr_ELambda))⟩; Expr_EBinOpCall: ⟨binOpToGo(ExprToGo(p0, _), payload(Expr_EBinOpCall))⟩; Expr_ERecordGen: ⟨rgToGo(ExprToGo(p0, _), payload(Expr_ERecordGen))⟩; Expr_EReturnableExpr: ⟨reToGo(p0, ExprToGo(p0, _), payload(Expr_EReturnableExpr))⟩; Expr_EFunCall: ⟨fcToGo(FTypeToGo, ExprToGo(p0, _), payload(Expr_EFunCall))⟩; Expr_ELazyBlock: ⟨lbToGo(blockToGoReturn(p0, ExprToGo(p0, _), reToGoReturn(p0, ExprToGo(p0, _), _), _), payload(Expr_ELazyBlock))⟩}`,
		"every expression kind goes to its own emitter; literals are pasted verbatim (bool by %t, string between quotes, GoEval text after reinterpretEscape)"},
	{"StmtToGo", "tpl", `match(p0){Stmt_SLetVarDef: match(payload(Stmt_SLetVarDef)){LLetVarDef_LLOneVarDef: ⟨lvdToGo(ExprToGo(StmtToGo, _), payload(LLetVarDef_LLOneVarDef))⟩; LLetVarDef_LLDestVarDef: ⟨ldvdToGo(ExprToGo(StmtToGo, _), payload(LLetVarDef_LLDestVarDef))⟩}; Stmt_SExprStmt: ⟨ExprToGo(StmtToGo, payload(Stmt_SExprStmt))⟩}`,
		"a statement is a let (one variable or destructuring) or an expression statement, each through its emitter"},
	{"RootStmtToGo", "tpl", `match(p0){RootStmt_RSImport: ⟨imToGo(payload(RootStmt_RSImport))⟩; RootStmt_RSPackage: ⟨pmToGo(payload(RootStmt_RSPackage))⟩; RootStmt_RSPackageInfo: ""; RootStmt_RSRootFuncDef: ⟨rfdToGo(blockToGoReturn(StmtToGo, ExprToGo(StmtToGo, _), reToGoReturn(StmtToGo, ExprToGo(StmtToGo, _), _), _), payload(RootStmt_RSRootFuncDef))⟩; RootStmt_RSRootVarDef: ⟨rootVarDefToGo(ExprToGo(StmtToGo, _), payload(RootStmt_RSRootVarDef))⟩; RootStmt_RSDefStmt: ⟨dsToGo(payload(RootStmt_RSDefStmt))⟩; RootStmt_RSMultipleDefs: ⟨mdToGo(payload(RootStmt_RSMultipleDefs))⟩}`,
		"every root statement kind goes to its own emitter; package_info emits nothing"},
	{"lambdaToGo", "tpl", `"func (" join(", "; slice.Map(paramsToGo, p1.Params)) ")" ⟨FTypeToGo(blockToType(ExprToType, p1.Body))⟩ "{ " ⟨p0(p1.Body)⟩ " }"`,
		"a lambda is a Go function literal: parameters in order, the body's type as result, the body with return"},
	{"lfdToGo", "tpl", `"func " ⟨p1.Fvar.Name⟩ "(" ⟨lfdParamsToGo(p1)⟩ ") " ⟨FTypeToGo(blockToType(ExprToType, p1.Body))⟩ "{ " ⟨p0(p1.Body)⟩ " }"`,
		"a function definition: name, parameters in order, the body's type as result, the body with return"},
	{"meToGo", "tpl", `⟨wrapFunCall(FTypeToGo, ExprToType(meToExpr(p2)), meToGoReturn(p0, p1, p2))⟩`,
		"a match used as a value is an invoked function literal around the returning form"},
	{"reToGo", "tpl", `match(p2){ReturnableExpr_RBlock: ⟨blockToGo(p0, p1, reToGoReturn(p0, p1, _), payload(ReturnableExpr_RBlock))⟩; ReturnableExpr_RMatchExpr: ⟨meToGo(p1, blockToGoReturn(p0, p1, reToGoReturn(p0, p1, _), _), payload(ReturnableExpr_RMatchExpr))⟩}`,
		"block or match as a value"},
	{"reToGoReturn", "tpl", `match(p2){ReturnableExpr_RBlock: ⟨blockToGoReturn(p0, p1, reToGoReturn(p0, p1, _), payload(ReturnableExpr_RBlock))⟩; ReturnableExpr_RMatchExpr: ⟨meToGoReturn(p1, blockToGoReturn(p0, p1, reToGoReturn(p0, p1, _), _), payload(ReturnableExpr_RMatchExpr))⟩}`,
		"block or match in returning position"},
	{"blockToGoReturn", "tpl", `⟨buildReturn(p0, p1, p2, p3.Stmts, p3.FinalExpr)⟩`,
		"a block is its statements followed by the returned final expression"},
	{"imToGo", "tpl", `"import \"" ⟨p0⟩ "\""`,
		"import line"},
	{"pmToGo", "tpl", `"package " ⟨p0⟩`,
		"package clause"},
	{"dsToGo", "tpl", `match(p0){DefStmt_DRecordDef: ⟨rdfToGo(payload(DefStmt_DRecordDef))⟩; DefStmt_DUnionDef: ⟨udfToGo(payload(DefStmt_DUnionDef))⟩}`,
		"record or union definition"},
	{"mdToGo", "tpl", `join(" "; slice.Map(dsToGo, p0.Defs))`,
		"a group of type definitions in source order"},
	{"umrHasNoCaseVar", "tpl", `⟨((p0.UnionPattern.VarName eq "") || (p0.UnionPattern.VarName eq "_"))⟩`,
		"an arm binds no variable when its name is empty or _"},
	{"umrHasCaseVar", "tpl", `match(p0){UnionMatchRules_UCaseOnly: ⟨not(slice.Forall(umrHasNoCaseVar, payload(UnionMatchRules_UCaseOnly)))⟩; UnionMatchRules_UCaseWD: ⟨not(slice.Forall(umrHasNoCaseVar, payload(UnionMatchRules_UCaseWD).Unions))⟩}`,
		"the switch needs its temporary exactly when some arm binds a variable"},
	{"meToExpr", "tpl", `⟨New_Expr_EReturnableExpr(New_ReturnableExpr_RMatchExpr(p0))⟩`,
		"a match as an expression node"},
	// string match: the pattern is the literal's token text (already in Go's escaped form, C11), pasted between quotes
	{"smrToCase", "tpl", `"case \"" ⟨p1.LiteralPattern⟩ "\":" " " ⟨p0(p1.Body)⟩ " "`, "a string pattern is the case label \"<token text>\" — the text is not escaped a second time"},
	{"svrToCase", "tpl", `"default: " ⟨p0(p1.Body)⟩ " "`, "the variable rule is the default arm"},
	{"smrToGoReturn", "tpl", `!⟨$1 := \x0. seq[seq[buf.Write($0, strings.Concat("", slice.Map(smrToCase(p1, _), x0)))]]⟩ match(p3){StringMatchRules_SCaseWV: "switch " ⟨payload(StringMatchRules_SCaseWV).VarRule.VarName⟩ " :=" "(" ⟨p0(p2)⟩ "); " ⟨payload(StringMatchRules_SCaseWV).VarRule.VarName⟩ "{ " !⟨$1(payload(StringMatchRules_SCaseWV).Literals)⟩ ⟨svrToCase(p1, payload(StringMatchRules_SCaseWV).VarRule)⟩ "}"; StringMatchRules_SCaseWD: "switch (" ⟨p0(p2)⟩ "){ " !⟨$1(payload(StringMatchRules_SCaseWD).Literals)⟩ ⟨drToCase(p1, payload(StringMatchRules_SCaseWD).Default)⟩ "}"}`,
		"a string match is a Go switch on the target (evaluated once; bound to the rule's variable when there is one), literal cases in source order, then the variable or default arm"},
	{"meToGoReturn", "tpl", `match(p2.Rules){MatchRules_RUnions: ⟨umrToGoReturn(p0, p1, p2.Target, payload(MatchRules_RUnions))⟩; MatchRules_RStrings: ⟨smrToGoReturn(p0, p1, p2.Target, payload(MatchRules_RStrings))⟩}`, "union rules and string rules go to their own emitters"},
	{"unionCSName", "nf", `((p0 + "_") + p1)`, "one naming function for constructors and case labels"},
	{"csConstructorName", "nf", `("New_" + unionCSName(p0, p1.Name))`, "constructors build the same struct the labels name"},
	{"umrToGoReturn", "tpl", `!⟨$0 := umrHasCaseVar(p3)⟩ !⟨$1 := if($0, uniqueTmpVarName(), "")⟩ !⟨$3 := \x0. seq[seq[buf.Write($2, strings.Concat("", slice.Map(umrToCase(p1, utName(CastNow(ExprToType(p2)).Value), $1, _), x0)))]]⟩ "switch " ?($0){⟨$1⟩ " := "} "(" ⟨p0(p2)⟩ ").(type){ " match(p3){UnionMatchRules_UCaseOnly: !⟨$3(payload(UnionMatchRules_UCaseOnly))⟩ "default: panic(\"Union pattern fail. Never reached here.\") "; UnionMatchRules_UCaseWD: !⟨$3(payload(UnionMatchRules_UCaseWD).Unions)⟩ ⟨drToCase(p1, payload(UnionMatchRules_UCaseWD).Default)⟩} "}"`,
		"a union match is a Go type switch on the target (evaluated once), arms in source order, then the default"},
}

// functions allowed to reorder a list (frozen): none of them feeds an AST list
var reorderUsers = map[string]string{
	"scLookupRecFacCur": "sorts dictionary keys to make a lookup deterministic (C05)",
	"recFacMatch":       "compares the sorted field-name sets of a record literal and a record type",
	"frFieldsMatch":     "compares sorted field-name sets",
	"frMatch":           "compares sorted field-name sets",
}

func checkC01(c *Ctx) {
	r := c.R
	r.Explanation = "Equality of run-time behaviour of emitted Go with a source semantics over all programs is NOT decidable statically. Decided are structural necessary conditions, each for all programs at once: " +
		"(a) lexical scoping — PAIR: every binder construct pushes exactly one scope and pops it on every returning path; (b) every compiler pass handles every AST/type node it claims to (panic-default exhaustiveness over all 50 type switches of fc); " +
		"(c) only the taken branch runs — conditionals are lowered to frt.IfElse/IfElseUnit/IfOnly over lazy blocks in order, a lazy block is a function literal that is not invoked, the run-time helpers call exactly one thunk (closed forms), && and || are Go's own short-circuit operators; " +
		"(d) operands are emitted once and in source order (templates of application, operators, tuples, slices, records, lets, blocks), no reordering primitive (slice.Sort/SortBy) is referenced outside a frozen set of set-comparison helpers, and no operand is placed inside an emitter-introduced closure (one known finding: partial application); " +
		"(e) a match dispatches to the constructing case — constructor and case-label names are built by the same function; (f) every checked-in generated file type-checks with go/types (4 known findings among the samples)."
	r.NotDecided = []string{"closures, inference interaction, evaluation results", "that emitted Go compiles for programs other than the shipped ones"}
	r.Assumptions = []string{"Go evaluates call arguments, composite-literal elements and binary operands left to right; frt helpers as specified (C14)"}
	r.Rule("C01.b", "never-reached type switches of fc are exhaustive", 30)
	r.Rule("C01.cde", "closed forms / emission templates of conditionals, operand order and match dispatch", 20)
	r.Rule("C01.c", "run-time conditionals and short-circuit operators", 5)
	r.Rule("C01.d", "no reordering primitive outside the frozen set; no operand inside an emitter-introduced closure", 3)
	r.Rule("C01.n", "every generated compiler function still has the normal form that was reviewed (change detection for the functions no specification covers; a different form is undecided)", 330)
	r.Rule("C01.m", "a binder's name in the AST is the name written in the source: it never depends on the parsed body", 6)
	r.Rule("C01.f", "every checked-in generated file type-checks (go/types)", 20)
	r.Rule("C01.j", "declaration, call and type emission have the documented closed forms / templates (the pins of C03.ab and C15.bcd: records, unions, constructors, funcs, vars, partial application, type printer — necessary for the emitted program to compile and to mean what the source says)", 40)
	r.Import("C10.", "C01.g", "`=` / `<>` are lowered to frt.OpEqual / frt.OpNotEqual, which are total structural equality (the C10 conditions, which are also necessary for C01: a comparison that panics or answers by identity changes the program's output)", 6, func() { checkC10(c) })
	r.Import("C12.", "C01.k", "standard-library calls behave as documented: pkg/slice is pure (C12), its functions compute their list specification (C13), dict/strings/buf/frt helpers are what their signatures promise (C14) — a program's output depends on them", 100, func() { checkC12(c) })
	r.Import("C13.", "C01.k", "", 100, func() { checkC13(c) })
	r.Import("C14.", "C01.k", "", 100, func() { checkC14(c) })
	r.Import("C08.", "C01.i", "binary operators group by the published table and associate to the left (the C08 conditions: a different grouping changes the value a program computes)", 40, func() { checkC08(c) })
	r.Import("C11.anchor", "C01.h", "string and interpolated literals reach the Go text through the one emission path whose closed forms C11 decides (an interpolated literal is always frt.SInterP(format, names…), whatever its number of holes)", 6, func() { checkC11Anchors(c) })
	f := c.LoadFC("fc")
	if f == nil {
		return
	}
	_, frtProg, _ := libProg(c, "pkg/frt")
	if frtProg == nil {
		return
	}
	nr := noReturn(f.Prog, frtProg)
	// (a)
	runPair(c, f, nr)
	// (b)
	n := checkEXH(c, "C01.b", exhUnit{label: "fc", fset: f.M.Fset, pkg: f.M.Main().Types, prog: f.Prog.Funcs}, true)
	r.Unit("never_reached_switches", n)
	// (c)(d)(e) pins
	c.checkPins(f, "C01.cde", c01Pins)
	// declarations and types: the emitted program has to compile and to have the documented representation
	c.checkPins(f, "C01.j", c03Pins)
	r.Import("C15.", "C01.j", "", 40, func() { checkC15(c) })
	r.Import("C02.b", "C01.o", "every whole-AST pass (constraint collection, type-variable collection, the transformer that applies the solved types) visits every sub-expression on every path (the TRAV rule of C02.b): a sub-expression the type resolution never reaches is emitted with unresolved types, and the program does not compile or means something else", 20, func() { checkTraversals(c, f, "C02.b") })
	r.Import("C06.i", "C01.l", "a continuation token (else, elif, bar, operator) found after skipping line ends is accepted only inside the offside line — otherwise an inner construct takes the else of an outer one and the wrong branch runs (the C06.i rule; 2 known findings)", 2, func() { checkContinuationColumns(c, f) })
	checkReviewedForms(c, f)
	checkReviewedHandWritten(c, f)
	checkBinderNames(c, f)
	checkListOrder(c, "C01.j", f)
	c.checkPins(f, "C01.j", exprTypePins)
	c.checkPins(f, "C01.j", irFactoryPins)
	// (c) run-time side
	var sp []termSpec
	for _, t := range c14Specs["pkg/frt"] {
		switch t.fn {
		case "IfElse", "IfElseUnit", "IfOnly", "Pipe", "PipeUnit":
			sp = append(sp, t)
		}
	}
	checkTermSpecsOpt(c, "C01.c", "pkg/frt", sp, false)
	if tab, pos, ok := c.binOpTable(f.M, "binOpMap", "New_TokenType_"); ok {
		for _, e := range tab {
			switch e.Token {
			case "AMPAMP":
				r.Check(e.GoOp == "&&", "C01.c", "fc.binOpMap", "AMPAMP", e.Pos, "&& is Go's own short-circuit &&", "&& is emitted as "+e.GoOp+": the right operand would always be evaluated")
			case "BARBAR":
				r.Check(e.GoOp == "||", "C01.c", "fc.binOpMap", "BARBAR", e.Pos, "|| is Go's own short-circuit ||", "|| is emitted as "+e.GoOp)
			}
		}
	} else {
		r.Undecided("C01.c", "fc.binOpMap", "table", pos, "operator table is not a constant literal")
	}
	// (d) reordering primitives
	users := map[string]bool{}
	for _, at := range f.Attributed() {
		fn := at.Owner
		ir.WalkFunc(at.Body, func(t ir.Term) bool {
			if fr, ok := t.(*ir.FuncRef); ok && (fr.Key == slicePath+".Sort" || fr.Key == slicePath+".SortBy") {
				users[fn.Name] = true
			}
			return true
		})
	}
	var extra []string
	for u := range users {
		if _, ok := reorderUsers[u]; !ok {
			extra = append(extra, u)
		}
	}
	sort.Strings(extra)
	r.Check(len(extra) == 0, "C01.d", "fc", "reordering-primitives", "fc", "slice.Sort/SortBy are referenced only by "+strings.Join(sortedKeysB(users), ", ")+" (set comparisons and deterministic lookup, never an AST list)",
		"slice.Sort/SortBy are referenced by "+strings.Join(extra, ", ")+": a list of source constructs (arguments, fields, statements, arms) may be reordered, changing the order of side effects")
	// (d) strictness
	sh := newShaper(f)
	lazyOK := map[string]bool{"lambdaToGo": true, "lfdToGo": true, "rfdToGo": true}
	for _, fn := range f.Prog.Funcs {
		if !fn.Generated || lazyOK[fn.Name] {
			continue
		}
		ops := sh.OperandsInClosure(fn.Name)
		if len(ops) == 0 {
			continue
		}
		r.Bad("C01.d", fn.Name, "Args", c.Pos(f.M.Fset, fn.Decl.Pos()), "operand(s) "+strings.Join(ops, "; ")+" are emitted inside a function literal introduced by the emitter: they are evaluated when the closure is called (each time), not where the source expression stands")
	}
	r.OK("C01.d", "fc", "strictness-scan", "fc", "every emitter template was scanned for operands inside emitter-introduced function literals")
	// (f)
	checkShippedTypecheck(c)
}

// checkShippedTypecheck: C01.f.
func checkShippedTypecheck(c *Ctx) {
	r := c.R
	for _, dir := range []string{"fc", "cmd/build_sample_md"} {
		m, err := c.Repo.Load(dir, false)
		if err != nil {
			r.Bad("C01.f", dir, "typecheck", dir, "the generated package does not type-check: "+err.Error())
			continue
		}
		gen := 0
		for _, file := range m.Main().Syntax {
			if strings.HasPrefix(filepath.Base(m.Fset.Position(file.Pos()).Filename), "gen_") {
				gen++
			}
		}
		r.OK("C01.f", dir, "typecheck", dir, sprintf("package type-checks (%d generated files)", gen))
	}
	for _, s := range c.loadSamples() {
		if len(s.errs) == 0 {
			r.OK("C01.f", "samples/"+s.name, "typecheck", "samples/"+s.name, "type-checks as its own package")
			continue
		}
		// one obligation per distinct diagnostic
		seen := map[string]bool{}
		for _, e := range s.errs {
			msg := e.Error()
			if i := strings.Index(msg, ": "); i >= 0 {
				msg = msg[i+2:]
			}
			if seen[msg] {
				continue
			}
			seen[msg] = true
			r.Bad("C01.f", "samples/"+s.name, msg, "samples/"+s.name, "the shipped generated file does not type-check: "+msg)
		}
	}
}
