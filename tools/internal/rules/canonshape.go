package rules

import (
	"sort"
	"strings"
)

// canonShape brings a printed normal form into a canonical shape under three laws that no property depends on,
// so that a refactoring which only uses them does not change a compared form (it is applied to both sides of every
// closed-form comparison and before every digest):
//   - the arms of a union match are listed in alphabetical order of their case, the default last (the cases of a
//     generated type switch are distinct concrete types: their order is immaterial);
//   - if(not(C), A, B) is if(C, B, A);
//   - not((A eq B)) is (A ne B), not((A ne B)) is (A eq B), not(not(X)) is X.
// It works on the text: brackets are balanced in every printed form and literals are quoted Go-style.
func canonShape(s string) string {
	var b strings.Builder
	i := 0
	for i < len(s) {
		c := s[i]
		// quoted literal
		if c == '"' || c == '\'' || c == '`' {
			j := skipQuoted(s, i)
			b.WriteString(s[i:j])
			i = j
			continue
		}
		if isWordStart(s, i) {
			for _, kw := range []string{"match(", "if(", "not("} {
				if strings.HasPrefix(s[i:], kw) {
					open := i + len(kw) - 1
					cl := matchingClose(s, open)
					if cl < 0 {
						break
					}
					inner := canonShape(s[open+1 : cl])
					b.WriteString(rebuild(kw, inner))
					i = cl + 1
					goto next
				}
			}
		}
		b.WriteByte(c)
		i++
	next:
	}
	return b.String()
}

func isWordStart(s string, i int) bool {
	if i == 0 {
		return true
	}
	p := s[i-1]
	return !(p == '_' || p == '.' || p >= '0' && p <= '9' || p >= 'a' && p <= 'z' || p >= 'A' && p <= 'Z')
}

func skipQuoted(s string, i int) int {
	q := s[i]
	j := i + 1
	for j < len(s) {
		if s[j] == '\\' && q != '`' {
			j += 2
			continue
		}
		if s[j] == q {
			return j + 1
		}
		j++
	}
	return len(s)
}

// matchingClose: index of the bracket closing the one at open (-1 if unbalanced).
func matchingClose(s string, open int) int {
	depth := 0
	for j := open; j < len(s); {
		c := s[j]
		switch c {
		case '"', '\'', '`':
			j = skipQuoted(s, j)
			continue
		case '(', '[', '{':
			depth++
		case ')', ']', '}':
			depth--
			if depth == 0 {
				return j
			}
		}
		j++
	}
	return -1
}

// splitTop splits at the separator on bracket depth 0.
func splitTop(s string, sep byte) []string {
	var parts []string
	depth, start := 0, 0
	for j := 0; j < len(s); {
		c := s[j]
		switch c {
		case '"', '\'', '`':
			j = skipQuoted(s, j)
			continue
		case '(', '[', '{':
			depth++
		case ')', ']', '}':
			depth--
		default:
			if c == sep && depth == 0 {
				parts = append(parts, s[start:j])
				start = j + 1
			}
		}
		j++
	}
	return append(parts, s[start:])
}

func rebuild(kw, inner string) string {
	switch kw {
	case "match(":
		parts := splitTop(inner, ';')
		if len(parts) < 3 {
			return kw + inner + ")"
		}
		arms := make([]string, 0, len(parts)-1)
		for _, a := range parts[1:] {
			arms = append(arms, strings.TrimSpace(a))
		}
		// only union matches: every label is a case struct name (Union_Case) or the default
		for _, a := range arms {
			lab := a
			if k := strings.Index(a, " -> "); k >= 0 {
				lab = a[:k]
			} else {
				return kw + inner + ")"
			}
			if lab != "_" && !strings.Contains(lab, "_") {
				return kw + inner + ")"
			}
		}
		sort.SliceStable(arms, func(x, y int) bool {
			lx, ly := arms[x][:strings.Index(arms[x], " -> ")], arms[y][:strings.Index(arms[y], " -> ")]
			if (lx == "_") != (ly == "_") {
				return ly == "_"
			}
			return lx < ly
		})
		return kw + parts[0] + "; " + strings.Join(arms, "; ") + ")"
	case "if(":
		parts := splitTop(inner, ',')
		if len(parts) == 3 {
			cnd := strings.TrimSpace(parts[0])
			if strings.HasPrefix(cnd, "not(") && matchingClose(cnd, 3) == len(cnd)-1 {
				return "if(" + cnd[4:len(cnd)-1] + "," + parts[2] + "," + parts[1] + ")"
			}
		}
		return kw + inner + ")"
	case "not(":
		x := strings.TrimSpace(inner)
		if strings.HasPrefix(x, "not(") && matchingClose(x, 3) == len(x)-1 {
			return x[4 : len(x)-1]
		}
		if strings.HasPrefix(x, "(") && matchingClose(x, 0) == len(x)-1 {
			in := x[1 : len(x)-1]
			for _, pr := range [][2]string{{" eq ", " ne "}, {" ne ", " eq "}} {
				if ps := splitTopStr(in, pr[0]); len(ps) == 2 {
					return "(" + ps[0] + pr[1] + ps[1] + ")"
				}
			}
		}
		return kw + inner + ")"
	}
	return kw + inner + ")"
}

// splitTopStr splits at a multi-character separator on depth 0 (at most reports all pieces).
func splitTopStr(s, sep string) []string {
	var parts []string
	depth, start := 0, 0
	for j := 0; j < len(s); {
		c := s[j]
		switch c {
		case '"', '\'', '`':
			j = skipQuoted(s, j)
			continue
		case '(', '[', '{':
			depth++
		case ')', ']', '}':
			depth--
		}
		if depth == 0 && strings.HasPrefix(s[j:], sep) {
			parts = append(parts, s[start:j])
			j += len(sep)
			start = j
			continue
		}
		j++
	}
	return append(parts, s[start:])
}
