package rules

import (
	"regexp"
	"sort"
	"strconv"
	"strings"
	"unicode/utf8"
)

// canonShape brings a printed normal form into a canonical shape under three laws that no property depends on,
// so that a refactoring which only uses them does not change a compared form (it is applied to both sides of every
// closed-form comparison and before every digest):
//   - the arms of a union match are listed in alphabetical order of their case, the default last (the cases of a
//     generated type switch are distinct concrete types: their order is immaterial);
//   - if(not(C), A, B) is if(C, B, A); if(C, true, false) is C, if(C, A, false) is (C && A), if(C, true, B) is (C || B) …;
//   - not((A eq B)) is (A ne B), not((A ne B)) is (A eq B), not(not(X)) is X;
//   - (A eq B) is (B eq A) (operands in lexicographic order), likewise ne;
//   - the fields of a record literal T{A: x, B: y} are listed in alphabetical order;
//   - slice.Collect(f, xs) is slice.Concat(slice.Map(f, xs));
//   - adjacent literal pieces of an emission template are one literal, and a literal suffix common to all arms of a
//     template match is emitted after the match;
//   - a string match with single distinct literal patterns and a default is the if/elif chain of equality tests;
//   - slice.Length is slice.Len; slice.IsNotEmpty(X) is not(slice.IsEmpty(X)); (slice.Len(X) eq 0) is
//     slice.IsEmpty(X), (slice.Len(X) ne 0) and (slice.Len(X) > 0) are its negation (closed forms decided by C13).
//
// It works on the text: brackets are balanced in every printed form and literals are quoted Go-style.
func canonShape(s string) string {
	// to a fixed point: a rewrite can expose another (not(slice.IsEmpty(..)) under an if)
	for k := 0; k < 4; k++ {
		t := canonShapeOnce(s)
		if t == s {
			return t
		}
		s = t
	}
	return s
}

// `x := E; for ; C; P {…}` is `for x := E; C; P {…}` when C mentions x
var forInitRe = regexp.MustCompile(`assign\((\$[0-9]+) := ([^;\[\]{}]*)\); for\(\(\); ([^;]*);`)

func canonShapeOnce(s string) string {
	s = strings.ReplaceAll(s, "slice.Length(", "slice.Len(")
	s = forInitRe.ReplaceAllStringFunc(s, func(m string) string {
		g := forInitRe.FindStringSubmatch(m)
		if !strings.Contains(g[3], g[1]) {
			return m
		}
		return "for(assign(" + g[1] + " := " + g[2] + "); " + g[3] + ";"
	})
	var b strings.Builder
	i := 0
	for i < len(s) {
		c := s[i]
		// quoted literal
		if c == '"' || c == '\'' || c == '`' {
			j := skipQuoted(s, i)
			// adjacent literal pieces of an emission template are one literal: "}" ")" is "})"
			for c == '"' && j+2 < len(s) && s[j] == ' ' && s[j+1] == '"' && j-1 > i {
				k := skipQuoted(s, j+1)
				if k <= j+1 || k > len(s) {
					break
				}
				s = s[:j-1] + s[j+2:]
				j = k - 3
			}
			b.WriteString(s[i:j])
			i = j
			continue
		}
		// a match of an emission template: match(S){A: …; B: …} — arms in alphabetical order, default last
		if isWordStart(s, i) && strings.HasPrefix(s[i:], "match(") {
			if cl := matchingClose(s, i+5); cl > 0 && cl+1 < len(s) && s[cl+1] == '{' {
				if c1 := matchingClose(s, cl+1); c1 > 0 {
					scr := canonShapeOnce(s[i+6 : cl])
					arms := splitTop(canonShapeOnce(s[cl+2:c1]), ';')
					okArms := true
					for k := range arms {
						arms[k] = strings.TrimSpace(arms[k])
						j := strings.Index(arms[k], ":")
						if j <= 0 {
							okArms = false
						}
					}
					if okArms {
						lab := func(a string) string { return a[:strings.Index(a, ":")] }
						sort.SliceStable(arms, func(x, y int) bool {
							lx, ly := lab(arms[x]), lab(arms[y])
							if (lx == "_") != (ly == "_") {
								return ly == "_"
							}
							return lx < ly
						})
					}
					suffix := ""
					if okArms {
						arms, suffix = hoistCommonSuffix(arms)
					}
					b.WriteString("match(" + scr + "){" + strings.Join(arms, "; ") + "}" + suffix)
					i = c1 + 1
					continue
				}
			}
		}
		// a dynamic piece that is a string concatenation is the sequence of its operands: ⟨(A + "x")⟩ is ⟨A⟩ "x",
		// and strings.Concat(sep, xs) among them is the join piece
		if strings.HasPrefix(s[i:], "⟨(") && (i == 0 || s[i-1] == ' ' || s[i-1] == '{') {
			if end := matchingPiece(s, i); end > 0 {
				inner := s[i+len("⟨") : end]
				if matchingClose(inner, 0) == len(inner)-1 {
					if ps := splitTopStr(inner[1:len(inner)-1], " + "); len(ps) >= 2 {
						var out []string
						for _, p := range ps {
							p = strings.TrimSpace(p)
							switch {
							case strings.HasPrefix(p, `"`) && skipQuoted(p, 0) == len(p):
								out = append(out, p)
							case strings.HasPrefix(p, "strings.Concat(") && matchingClose(p, len("strings.Concat")) == len(p)-1:
								as := splitTop(p[len("strings.Concat("):len(p)-1], ',')
								if len(as) == 2 {
									sep := strings.TrimSpace(as[0])
									if !strings.HasPrefix(sep, `"`) {
										sep = "⟨" + sep + "⟩"
									}
									out = append(out, "join("+sep+"; "+strings.TrimSpace(as[1])+")")
								} else {
									out = append(out, "⟨"+p+"⟩")
								}
							default:
								out = append(out, "⟨"+p+"⟩")
							}
						}
						b.WriteString(canonShapeOnce(strings.Join(out, " ")))
						i = end + len("⟩")
						continue
					}
				}
			}
		}
		// a conditional piece of an emission template: ?(not(C)){A}{B} is ?(C){B}{A}
		if c == '?' && i+1 < len(s) && s[i+1] == '(' {
			if cl := matchingClose(s, i+1); cl > 0 && cl+1 < len(s) && s[cl+1] == '{' {
				if c1 := matchingClose(s, cl+1); c1 > 0 && c1+1 < len(s) && s[c1+1] == '{' {
					if c2 := matchingClose(s, c1+1); c2 > 0 {
						cnd := strings.TrimSpace(canonShapeOnce(s[i+2 : cl]))
						a, bb := canonShapeOnce(s[cl+2:c1]), canonShapeOnce(s[c1+2:c2])
						if strings.HasPrefix(cnd, "not(") && matchingClose(cnd, 3) == len(cnd)-1 {
							cnd, a, bb = cnd[4:len(cnd)-1], bb, a
						} else if pos, ok := positiveOf(cnd); ok {
							cnd, a, bb = pos, bb, a
						}
						b.WriteString("?(" + cnd + "){" + a + "}{" + bb + "}")
						i = c2 + 1
						continue
					}
				}
			}
		}
		// a record literal T{A: x, B: y}: the fields in alphabetical order (a keyed composite literal; the field
		// values of a normal form are terms over the threaded state, their order of evaluation is immaterial)
		if c == '{' && i > 0 && isWordChar(s[i-1]) {
			if cl := matchingClose(s, i); cl > 0 {
				inner := canonShapeOnce(s[i+1 : cl])
				b.WriteString("{" + sortFields(inner) + "}")
				i = cl + 1
				continue
			}
		}
		// a grouping parenthesis (infix expression): emptiness tests and the symmetric comparisons
		if c == '(' && isWordStart(s, i) {
			if cl := matchingClose(s, i); cl > 0 {
				inner := canonShapeOnce(s[i+1 : cl])
				b.WriteString(rebuildInfix(inner))
				i = cl + 1
				continue
			}
		}
		if isWordStart(s, i) {
			for _, kw := range []string{"smatch(", "match(", "if(", "not(", "slice.IsNotEmpty(", "slice.Collect("} {
				if strings.HasPrefix(s[i:], kw) {
					open := i + len(kw) - 1
					cl := matchingClose(s, open)
					if cl < 0 {
						break
					}
					inner := canonShapeOnce(s[open+1 : cl])
					b.WriteString(rebuild(kw, inner))
					i = cl + 1
					goto next
				}
			}
		}
		b.WriteByte(c)
		i++
	next:
	}
	return b.String()
}

// hoistCommonSuffix: when every arm "L: pieces" of a template match ends with a literal piece, the longest common
// suffix of those literals is emitted after the match instead (the same characters in the same order: a literal has
// no effect and nothing is evaluated after it inside the arm).
func hoistCommonSuffix(arms []string) ([]string, string) {
	type cut struct {
		head string // the arm up to its last piece
		lit  string // unquoted last literal
	}
	cuts := make([]cut, len(arms))
	common := ""
	for k, a := range arms {
		a = strings.TrimSpace(a)
		if !strings.HasSuffix(a, `"`) {
			return arms, ""
		}
		// find the start of the last literal: scan the pieces from the left
		last := -1
		start := strings.Index(a, ":") + 1
		if a[0] == '"' {
			start = skipQuoted(a, 0)
		}
		for i := start; i < len(a); {
			switch a[i] {
			case '"', '\'', '`':
				j := skipQuoted(a, i)
				if j >= len(a) {
					last = i
				}
				i = j
			case '(', '{', '[':
				j := matchingClose(a, i)
				if j < 0 {
					return arms, ""
				}
				i = j + 1
			default:
				i++
			}
		}
		if last < 0 || a[last] != '"' || (last > 0 && a[last-1] != ' ') {
			return arms, ""
		}
		u, err := strconv.Unquote(a[last:])
		if err != nil || strconv.Quote(u) != a[last:] {
			return arms, ""
		}
		cuts[k] = cut{a[:last], u}
		if k == 0 {
			common = u
		} else {
			n := 0
			for n < len(common) && n < len(u) && common[len(common)-1-n] == u[len(u)-1-n] {
				n++
			}
			common = common[len(common)-n:]
		}
	}
	// never cut inside a multi-byte character
	for len(common) > 0 && !utf8.RuneStart(common[0]) {
		common = common[1:]
	}
	if common == "" {
		return arms, ""
	}
	res := make([]string, len(arms))
	for k, c := range cuts {
		rest := c.lit[:len(c.lit)-len(common)]
		head := strings.TrimSpace(c.head)
		switch {
		case rest != "":
			res[k] = head + " " + strconv.Quote(rest)
		case strings.HasSuffix(head, ":"):
			res[k] = head + ` ""`
		default:
			res[k] = head
		}
	}
	return res, " " + strconv.Quote(common)
}

// matchingPiece: the index of the ⟩ that closes the ⟨ at s[i:], or -1.
func matchingPiece(s string, i int) int {
	depth := 0
	for j := i; j < len(s); {
		switch {
		case s[j] == '"' || s[j] == '`':
			j = skipQuoted(s, j)
			continue
		case strings.HasPrefix(s[j:], "⟨"):
			depth++
			j += len("⟨")
			continue
		case strings.HasPrefix(s[j:], "⟩"):
			depth--
			if depth == 0 {
				return j
			}
			j += len("⟩")
			continue
		}
		j++
	}
	return -1
}

func isWordChar(p byte) bool {
	return p == '_' || p >= '0' && p <= '9' || p >= 'a' && p <= 'z' || p >= 'A' && p <= 'Z'
}

// sortFields: "A: x, B: y" with the fields ordered by name; anything that is not a list of `Name: value` is kept.
func sortFields(inner string) string {
	parts := splitTop(inner, ',')
	if len(parts) < 2 {
		return inner
	}
	type fld struct{ name, text string }
	var fs []fld
	for _, p := range parts {
		t := strings.TrimSpace(p)
		k := strings.Index(t, ": ")
		if k <= 0 {
			return inner
		}
		for j := 0; j < k; j++ {
			if !isWordChar(t[j]) {
				return inner
			}
		}
		fs = append(fs, fld{t[:k], t})
	}
	sort.SliceStable(fs, func(x, y int) bool { return fs[x].name < fs[y].name })
	out := make([]string, len(fs))
	for i, f := range fs {
		out[i] = f.text
	}
	return strings.Join(out, ", ")
}

func isWordStart(s string, i int) bool {
	if i == 0 {
		return true
	}
	p := s[i-1]
	return !(p == '_' || p == '.' || p >= '0' && p <= '9' || p >= 'a' && p <= 'z' || p >= 'A' && p <= 'Z')
}

func skipQuoted(s string, i int) int {
	q := s[i]
	j := i + 1
	for j < len(s) {
		if s[j] == '\\' && q != '`' {
			j += 2
			continue
		}
		if s[j] == q {
			return j + 1
		}
		j++
	}
	return len(s)
}

// matchingClose: index of the bracket closing the one at open (-1 if unbalanced).
func matchingClose(s string, open int) int {
	depth := 0
	for j := open; j < len(s); {
		c := s[j]
		switch c {
		case '"', '\'', '`':
			j = skipQuoted(s, j)
			continue
		case '(', '[', '{':
			depth++
		case ')', ']', '}':
			depth--
			if depth == 0 {
				return j
			}
		}
		j++
	}
	return -1
}

// splitTop splits at the separator on bracket depth 0.
func splitTop(s string, sep byte) []string {
	var parts []string
	depth, start := 0, 0
	for j := 0; j < len(s); {
		c := s[j]
		switch c {
		case '"', '\'', '`':
			j = skipQuoted(s, j)
			continue
		case '(', '[', '{':
			depth++
		case ')', ']', '}':
			depth--
		default:
			if c == sep && depth == 0 {
				parts = append(parts, s[start:j])
				start = j + 1
			}
		}
		j++
	}
	return append(parts, s[start:])
}

// rebuildInfix: the content of a grouping parenthesis.
//
//	(slice.Len(X) eq 0) = slice.IsEmpty(X); (slice.Len(X) ne 0) = (slice.Len(X) > 0) = not(slice.IsEmpty(X));
//	(A eq B) = (B eq A), (A ne B) = (B ne A): the operands are put in lexicographic order.
func rebuildInfix(inner string) string {
	// a conjunction / disjunction of call-free comparisons: the operands in lexicographic order (no operand can
	// fail or have an effect, so their order is immaterial)
	for _, op := range []string{" && ", " || "} {
		if ps := splitTopStr(inner, op); len(ps) >= 2 {
			atoms := true
			for k := range ps {
				ps[k] = strings.TrimSpace(ps[k])
				body := ps[k]
				if strings.HasPrefix(body, "(") && matchingClose(body, 0) == len(body)-1 {
					body = body[1 : len(body)-1]
				}
				if strings.ContainsAny(body, "()[]{}") || !(strings.Contains(body, " eq ") || strings.Contains(body, " ne ")) {
					atoms = false
				}
			}
			if atoms {
				sort.Strings(ps)
				return "(" + strings.Join(ps, op) + ")"
			}
			break
		}
	}
	for _, op := range []string{" eq ", " ne ", " > "} {
		ps := splitTopStr(inner, op)
		if len(ps) != 2 {
			continue
		}
		a, bb := strings.TrimSpace(ps[0]), strings.TrimSpace(ps[1])
		isLen := func(x string) (string, bool) {
			if strings.HasPrefix(x, "slice.Len(") && matchingClose(x, len("slice.Len(")-1) == len(x)-1 {
				return x[len("slice.Len(") : len(x)-1], true
			}
			return "", false
		}
		if x, ok := isLen(a); ok && bb == "0" {
			if op == " eq " {
				return "slice.IsEmpty(" + x + ")"
			}
			return "not(slice.IsEmpty(" + x + "))"
		}
		if x, ok := isLen(bb); ok && a == "0" && op != " > " {
			if op == " eq " {
				return "slice.IsEmpty(" + x + ")"
			}
			return "not(slice.IsEmpty(" + x + "))"
		}
		if op != " > " && bb < a {
			return "(" + bb + op + a + ")"
		}
		break
	}
	return "(" + inner + ")"
}

func rebuild(kw, inner string) string {
	switch kw {
	case "slice.IsNotEmpty(":
		return "not(slice.IsEmpty(" + inner + "))"
	case "slice.Collect(":
		if ps := splitTop(inner, ','); len(ps) == 2 {
			return "slice.Concat(slice.Map(" + ps[0] + "," + ps[1] + "))"
		}
		return kw + inner + ")"
	case "smatch(":
		// a string match with single, distinct literal patterns and a default is the if/elif chain of equality
		// tests in arm order (at most one pattern applies; the default is taken when every comparison is false)
		parts := splitTop(inner, ';')
		if len(parts) < 3 {
			return kw + inner + ")"
		}
		scr := strings.TrimSpace(parts[0])
		type sarm struct{ lit, body string }
		var arms []sarm
		seen := map[string]bool{}
		for _, a := range parts[1:] {
			a = strings.TrimSpace(a)
			k := strings.Index(a, " -> ")
			if k < 0 {
				return kw + inner + ")"
			}
			lab := a[:k]
			if lab != "_" && !(strings.HasPrefix(lab, `"`) && skipQuoted(lab, 0) == len(lab)) {
				return kw + inner + ")"
			}
			if seen[lab] {
				return kw + inner + ")"
			}
			seen[lab] = true
			arms = append(arms, sarm{lab, a[k+4:]})
		}
		if arms[len(arms)-1].lit != "_" || len(arms) < 2 {
			return kw + inner + ")"
		}
		res := arms[len(arms)-1].body
		for k := len(arms) - 2; k >= 0; k-- {
			if arms[k].lit == "_" {
				return kw + inner + ")"
			}
			res = rebuild("if(", rebuildInfix(scr+" eq "+arms[k].lit)+", "+arms[k].body+", "+res)
		}
		return res
	case "match(":
		parts := splitTop(inner, ';')
		if len(parts) < 3 {
			return kw + inner + ")"
		}
		arms := make([]string, 0, len(parts)-1)
		for _, a := range parts[1:] {
			arms = append(arms, strings.TrimSpace(a))
		}
		// only union matches: every label is a case struct name (Union_Case) or the default
		for _, a := range arms {
			lab := a
			if k := strings.Index(a, " -> "); k >= 0 {
				lab = a[:k]
			} else {
				return kw + inner + ")"
			}
			if lab != "_" && !strings.Contains(lab, "_") {
				return kw + inner + ")"
			}
		}
		sort.SliceStable(arms, func(x, y int) bool {
			lx, ly := arms[x][:strings.Index(arms[x], " -> ")], arms[y][:strings.Index(arms[y], " -> ")]
			if (lx == "_") != (ly == "_") {
				return ly == "_"
			}
			return lx < ly
		})
		return kw + parts[0] + "; " + strings.Join(arms, "; ") + ")"
	case "if(":
		parts := splitTop(inner, ',')
		if len(parts) == 3 {
			cnd := strings.TrimSpace(parts[0])
			a, bb := strings.TrimSpace(parts[1]), strings.TrimSpace(parts[2])
			if strings.HasPrefix(cnd, "not(") && matchingClose(cnd, 3) == len(cnd)-1 {
				cnd, a, bb = cnd[4:len(cnd)-1], bb, a
			} else if pos, ok := positiveOf(cnd); ok {
				cnd, a, bb = pos, bb, a
			}
			// if(A, if(B, X, Y), Y) is if((A && B), X, Y): the nested test under the same alternative
			if strings.HasPrefix(a, "if(") && matchingClose(a, 2) == len(a)-1 {
				if in := splitTop(a[3:len(a)-1], ','); len(in) == 3 {
					c2, x, y := strings.TrimSpace(in[0]), strings.TrimSpace(in[1]), strings.TrimSpace(in[2])
					switch {
					case y == bb:
						return rebuild("if(", rebuildInfix(cnd+" && "+c2)+", "+x+", "+bb)
					case x == bb:
						return rebuild("if(", rebuildInfix(cnd+" && "+negateAtom(c2))+", "+y+", "+bb)
					}
				}
			}
			// a conditional between boolean constants is a boolean expression (same short-circuit evaluation)
			switch {
			case a == "true" && bb == "false":
				return cnd
			case a == "false" && bb == "true":
				return "not(" + cnd + ")"
			case bb == "false":
				return "(" + cnd + " && " + a + ")"
			case a == "true":
				return "(" + cnd + " || " + bb + ")"
			case a == "false":
				return "(not(" + cnd + ") && " + bb + ")"
			case bb == "true":
				return "(not(" + cnd + ") || " + a + ")"
			}
			// a statement conditional with nothing to do on one side is the one-armed conditional on the other
			if a == "seq[]" {
				return "if(" + negateAtom(cnd) + ", " + bb + ")"
			}
			if bb == "seq[]" {
				return "if(" + cnd + ", " + a + ")"
			}
			return "if(" + cnd + ", " + a + ", " + bb + ")"
		}
		if len(parts) == 2 {
			// one-armed: the condition with its negations pushed inward
			cnd := strings.TrimSpace(parts[0])
			if strings.HasPrefix(cnd, "not(") && matchingClose(cnd, 3) == len(cnd)-1 {
				cnd = rebuild("not(", cnd[4:len(cnd)-1])
			}
			return "if(" + cnd + ", " + strings.TrimSpace(parts[1]) + ")"
		}
		return kw + inner + ")"
	case "not(":
		x := strings.TrimSpace(inner)
		// De Morgan: the negation goes inward (not((A || B)) is (not(A) && not(B)), and dually)
		if strings.HasPrefix(x, "(") && matchingClose(x, 0) == len(x)-1 {
			in := x[1 : len(x)-1]
			for _, pr := range [][2]string{{" || ", " && "}, {" && ", " || "}} {
				if ps := splitTopStr(in, pr[0]); len(ps) >= 2 {
					for k := range ps {
						ps[k] = rebuild("not(", strings.TrimSpace(ps[k]))
					}
					return rebuildInfix(strings.Join(ps, pr[1]))
				}
			}
		}
		if strings.HasPrefix(x, "not(") && matchingClose(x, 3) == len(x)-1 {
			return x[4 : len(x)-1]
		}
		if strings.HasPrefix(x, "(") && matchingClose(x, 0) == len(x)-1 {
			in := x[1 : len(x)-1]
			for _, pr := range [][2]string{{" eq ", " ne "}, {" ne ", " eq "}, {" == ", " != "}, {" != ", " == "}} {
				if ps := splitTopStr(in, pr[0]); len(ps) == 2 && !strings.Contains(in, " && ") && !strings.Contains(in, " || ") {
					return "(" + ps[0] + pr[1] + ps[1] + ")"
				}
			}
			// ordered comparisons of integers (an operand is a length or an integer literal): not((a >= b)) is (a < b)
			for _, pr := range [][2]string{{" >= ", " < "}, {" < ", " >= "}, {" <= ", " > "}, {" > ", " <= "}} {
				if ps := splitTopStr(in, pr[0]); len(ps) == 2 && !strings.Contains(in, " && ") && !strings.Contains(in, " || ") && (orderedAreIntegers || integerOperand(ps[0]) || integerOperand(ps[1])) {
					return "(" + ps[0] + pr[1] + ps[1] + ")"
				}
			}
		}
		return kw + inner + ")"
	}
	return kw + inner + ")"
}

// splitTopStr splits at a multi-character separator on depth 0 (at most reports all pieces).
func splitTopStr(s, sep string) []string {
	var parts []string
	depth, start := 0, 0
	for j := 0; j < len(s); {
		c := s[j]
		switch c {
		case '"', '\'', '`':
			j = skipQuoted(s, j)
			continue
		case '(', '[', '{':
			depth++
		case ')', ']', '}':
			depth--
		}
		if depth == 0 && strings.HasPrefix(s[j:], sep) {
			parts = append(parts, s[start:j])
			j += len(sep)
			start = j
			continue
		}
		j++
	}
	return append(parts, s[start:])
}

var intLitRe = regexp.MustCompile(`^-?[0-9]+$`)

// integerOperand: the operand is integer-typed by its spelling (a length, an integer literal, or a sum/difference
// with one).
func integerOperand(x string) bool {
	x = strings.TrimSpace(x)
	for strings.HasPrefix(x, "(") && matchingClose(x, 0) == len(x)-1 {
		x = strings.TrimSpace(x[1 : len(x)-1])
	}
	if intLitRe.MatchString(x) || (strings.HasPrefix(x, "len(") && matchingClose(x, 3) == len(x)-1) {
		return true
	}
	for _, op := range []string{" + ", " - "} {
		if ps := splitTopStr(x, op); len(ps) >= 2 {
			for _, p := range ps {
				if integerOperand(p) {
					return true
				}
			}
		}
	}
	return false
}

// positiveOf: for a condition (A ne B) the equality (A eq B) it negates.
func positiveOf(cnd string) (string, bool) {
	if strings.HasPrefix(cnd, "(") && matchingClose(cnd, 0) == len(cnd)-1 {
		in := cnd[1 : len(cnd)-1]
		if ps := splitTopStr(in, " ne "); len(ps) == 2 && !strings.Contains(in, " && ") && !strings.Contains(in, " || ") {
			return "(" + ps[0] + " eq " + ps[1] + ")", true
		}
		if ps := splitTopStr(in, " != "); len(ps) == 2 && !strings.Contains(in, " && ") && !strings.Contains(in, " || ") {
			return "(" + ps[0] + " == " + ps[1] + ")", true
		}
		// the condition of a two-armed conditional is never >= or <= (integers): the strict comparison it negates
		for _, pr := range [][2]string{{" >= ", " < "}, {" <= ", " > "}} {
			if ps := splitTopStr(in, pr[0]); len(ps) == 2 && !strings.Contains(in, " && ") && !strings.Contains(in, " || ") && (orderedAreIntegers || integerOperand(ps[0]) || integerOperand(ps[1])) {
				return "(" + ps[0] + pr[1] + ps[1] + ")", true
			}
		}
		// the condition of a conditional is never a disjunction: (A || B) is the negation of (not(A) && not(B))
		if ps := splitTopStr(in, " || "); len(ps) >= 2 {
			for k := range ps {
				ps[k] = negateAtom(strings.TrimSpace(ps[k]))
			}
			return rebuildInfix(strings.Join(ps, " && ")), true
		}
	}
	return "", false
}

// negateAtom: the negation of an operand, with the negation pushed into it.
func negateAtom(x string) string {
	if strings.HasPrefix(x, "not(") && matchingClose(x, 3) == len(x)-1 {
		return x[4 : len(x)-1]
	}
	return rebuild("not(", x)
}
