package rules

import (
	"go/token"
	"go/types"
	"regexp"
	"sort"
	"strings"

	"verif/tools/internal/ir"
)

// C16.g — a recursive pass does not evaluate the recursion twice on the same child.
//
// The compiler's passes recurse over the AST through themselves or through a "knot" parameter (`toT: Expr -> FType`).
// If one invocation applies the recursion at two places to the same child (once to test something about the result,
// once to use it), the work doubles at every nesting level: 2^depth.  fc then does not terminate in any practical
// sense on a deeply nested but legal program.  Decided on the un-normalised blocks (a let evaluates once):
// for every function that has a knot (a function-typed parameter, or itself), all application sites of the knot —
// directly or through a let-bound lambda that wraps it — are collected with the *origin* of their argument:
//
//	elem(L)  a lambda parameter ranging over L (slice.Map/Filter/TryFind/Forall/Forany/Collect/Iter), or
//	         slice.Head/Last/Item/TryFind of L;
//	otherwise the printed argument.
//
// Two sites with the same origin that are not in mutually exclusive branches are reported.
var regexpBraces = regexp.MustCompile(`\{[^{}]*\}`)

// termKey prints a term together with the identities of the local variables in it (ir.String numbers locals per term,
// so two different locals would otherwise both print as $0).
func termKey(path string, t ir.Term) string {
	var ids []string
	ir.Walk(t, func(x ir.Term) bool {
		if lc, ok := x.(*ir.Local); ok && lc.Obj != nil {
			ids = append(ids, sprintf("%s@%d", lc.Obj.Name(), lc.Obj.Pos()))
		}
		return true
	})
	return ir.String(path, t) + "{" + strings.Join(ids, ",") + "}"
}

func checkNoDuplicateRecursion(c *Ctx, f *FC) {
	r := c.R
	type site struct {
		pos    token.Pos
		origin string
		path   []string // branch decisions enclosing the site
	}
	listFns := map[string]bool{"Map": true, "Mapi": true, "Filter": true, "TryFind": true, "Forall": true, "Forany": true, "Collect": true, "Iter": true}
	elemFns := map[string]bool{"Head": true, "Last": true, "Item": true, "TryFind": true}
	total, fnsWithKnot := 0, 0
	for _, fn := range f.Prog.Funcs {
		if !fn.Generated || fn.Body == nil {
			continue
		}
		fn := fn
		// knots: function-typed parameters, and the function itself
		knotParam := map[int]bool{}
		for i, p := range fn.Params {
			if _, ok := p.Type().Underlying().(*types.Signature); ok {
				knotParam[i] = true
			}
		}
		isKnot := func(t ir.Term) bool {
			switch x := t.(type) {
			case *ir.Param:
				return knotParam[x.Idx]
			case *ir.FuncRef:
				return x.Key == fn.Key
			}
			return false
		}
		// let-bound lambdas / partial applications that wrap a knot, and let-bound element selections
		wrappers := map[*types.Var]bool{}
		originOfVar := map[*types.Var]string{}
		var mentionsKnot func(t ir.Term) bool
		mentionsKnot = func(t ir.Term) bool {
			found := false
			ir.Walk(t, func(x ir.Term) bool {
				if isKnot(x) {
					found = true
				}
				if lc, ok := x.(*ir.Local); ok && wrappers[lc.Obj] {
					found = true
				}
				return !found
			})
			return found
		}
		elemOrigin := func(t ir.Term) string {
			// slice.Head(L) / #0(slice.TryFind(_, L)) …
			if pj, ok := t.(*ir.Proj); ok {
				t = pj.X
			}
			if app, ok := t.(*ir.App); ok {
				if fr, ok := app.Fun.(*ir.FuncRef); ok && strings.HasPrefix(fr.Key, slicePath+".") && elemFns[strings.TrimPrefix(fr.Key, slicePath+".")] && len(app.Args) >= 1 {
					return "elem(" + termKey(f.Path, app.Args[len(app.Args)-1]) + ")"
				}
			}
			return ""
		}
		ir.EachBlock(fn, func(b *ir.Block) {
			for _, st := range b.Stmts {
				let, ok := st.(*ir.Let)
				if !ok {
					continue
				}
				if len(let.Vars) == 1 && let.Vars[0] != nil {
					switch let.Val.(type) {
					case *ir.Lam, *ir.PApp:
						if mentionsKnot(let.Val) {
							wrappers[let.Vars[0]] = true
						}
					}
				}
				if o := elemOrigin(let.Val); o != "" {
					for _, v := range let.Vars {
						if v != nil {
							originOfVar[v] = o
						}
					}
				}
			}
		})
		if len(knotParam) == 0 {
			// only self recursion
			self := false
			ir.WalkFunc(fn, func(t ir.Term) bool {
				if fr, ok := t.(*ir.FuncRef); ok && fr.Key == fn.Key {
					self = true
				}
				return !self
			})
			if !self {
				continue
			}
		}
		fnsWithKnot++
		var sites []site
		lamElem := map[*types.Var]string{} // lambda parameter -> elem(L)
		var walkT func(t ir.Term, path []string)
		var walkB func(b *ir.Block, path []string)
		walkB = func(b *ir.Block, path []string) {
			if b == nil {
				return
			}
			for _, st := range b.Stmts {
				switch x := st.(type) {
				case *ir.Let:
					walkT(x.Val, path)
				case *ir.Do:
					walkT(x.X, path)
				}
			}
			walkT(b.Ret, path)
		}
		originOf := func(a ir.Term) string {
			if lc, ok := a.(*ir.Local); ok {
				if o, ok := lamElem[lc.Obj]; ok {
					return o
				}
				if o, ok := originOfVar[lc.Obj]; ok {
					return o
				}
			}
			if o := elemOrigin(a); o != "" {
				return o
			}
			return termKey(f.Path, a)
		}
		walkT = func(t ir.Term, path []string) {
			switch x := t.(type) {
			case nil:
				return
			case *ir.App:
				// list combinator with a lambda: its parameter ranges over the list
				if fr, ok := x.Fun.(*ir.FuncRef); ok && strings.HasPrefix(fr.Key, slicePath+".") && listFns[strings.TrimPrefix(fr.Key, slicePath+".")] && len(x.Args) >= 2 {
					L := "elem(" + termKey(f.Path, x.Args[len(x.Args)-1]) + ")"
					if lam, ok := x.Args[0].(*ir.Lam); ok && len(lam.Params) >= 1 {
						p := lam.Params[len(lam.Params)-1]
						if p != nil {
							lamElem[p] = L
						}
					}
					// a wrapper (or the knot) passed directly: it is applied to every element
					a0 := x.Args[0]
					direct := isKnot(a0)
					if lc, ok := a0.(*ir.Local); ok && wrappers[lc.Obj] {
						direct = true
					}
					if pa, ok := a0.(*ir.PApp); ok && (isKnot(pa.Fun) || mentionsKnot(pa)) {
						direct = true
					}
					if direct {
						sites = append(sites, site{x.Pos(), L, append([]string{}, path...)})
					}
				}
				applied := isKnot(x.Fun)
				if lc, ok := x.Fun.(*ir.Local); ok && wrappers[lc.Obj] {
					applied = true
				}
				if applied && len(x.Args) > 0 {
					sites = append(sites, site{x.Pos(), originOf(x.Args[len(x.Args)-1]), append([]string{}, path...)})
				}
				walkT(x.Fun, path)
				for _, a := range x.Args {
					walkT(a, path)
				}
			case *ir.Lam:
				walkB(x.Body, path)
			case *ir.If:
				walkT(x.Cond, path)
				id := sprintf("if@%d", x.Pos())
				walkB(x.Then, append(path, id+":T"))
				walkB(x.Else, append(path, id+":F"))
			case *ir.Match:
				walkT(x.Scrut, path)
				id := sprintf("m@%d", x.Pos())
				for i, a := range x.Arms {
					walkB(a.Body, append(path, sprintf("%s:%d", id, i)))
				}
				walkB(x.Default, append(path, id+":d"))
			case *ir.StrMatch:
				walkT(x.Scrut, path)
				id := sprintf("s@%d", x.Pos())
				for i, a := range x.Arms {
					walkB(a.Body, append(path, sprintf("%s:%d", id, i)))
				}
				walkB(x.Default, append(path, id+":d"))
			default:
				first := true
				ir.Walk(t, func(y ir.Term) bool {
					if first {
						first = false
						return true
					}
					walkT(y, path)
					return false
				})
			}
		}
		walkB(fn.Body, nil)
		exclusive := func(a, b []string) bool {
			dec := map[string]string{}
			for _, p := range a {
				i := strings.LastIndex(p, ":")
				dec[p[:i]] = p[i+1:]
			}
			for _, p := range b {
				i := strings.LastIndex(p, ":")
				if d, ok := dec[p[:i]]; ok && d != p[i+1:] {
					return true
				}
			}
			return false
		}
		sort.Slice(sites, func(i, j int) bool { return sites[i].pos < sites[j].pos })
		total += len(sites)
		reported := map[string]bool{}
		for i := 0; i < len(sites); i++ {
			for j := i + 1; j < len(sites); j++ {
				if sites[i].pos == sites[j].pos || sites[i].origin != sites[j].origin || exclusive(sites[i].path, sites[j].path) {
					continue
				}
				if reported[sites[i].origin] {
					continue
				}
				reported[sites[i].origin] = true
				disp := regexpBraces.ReplaceAllString(sites[i].origin, "")
				r.Bad("C16.g", fn.Name, "recursion twice on "+short(disp, 60), c.Pos(f.M.Fset, fn.Decl.Pos()),
					"the recursion is applied at two places ("+c.Pos(f.M.Fset, sites[i].pos)+" and "+c.Pos(f.M.Fset, sites[j].pos)+") of one invocation to "+disp+": the same child is processed twice at every nesting level, so the time is exponential in the nesting depth of the program")
			}
		}
		if len(reported) == 0 && len(sites) > 0 {
			r.OK("C16.g", fn.Name, "recursion-sites", c.Pos(f.M.Fset, fn.Decl.Pos()), sprintf("%d application site(s) of the recursion, no two on one path for the same child", len(sites)))
		}
	}
	r.Unit("functions_with_a_recursion_knot", fnsWithKnot)
	r.Unit("recursion_application_sites", total)
	if total < 100 {
		r.Undecided("C16.g", "-", "sites", "fc", sprintf("only %d application sites of a recursion knot found", total))
	}
}
