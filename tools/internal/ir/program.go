package ir

import (
	"go/ast"
	"path/filepath"
	"sort"
	"strings"

	"golang.org/x/tools/go/packages"
)

// Program is the lowered form of one package.
type Program struct {
	Pkg     *packages.Package
	Funcs   []*Func          // in source order (files sorted by name)
	ByName  map[string]*Func // package-level function name (methods: "Recv.Name")
	ByKey   map[string]*Func
	Opaques []*Opaque
	L       *Lowerer
}

func isGen(filename string) bool {
	b := filepath.Base(filename)
	return strings.HasPrefix(b, "gen_") && strings.HasSuffix(b, ".go")
}

func LowerPackage(p *packages.Package) *Program {
	prog := &Program{Pkg: p, ByName: map[string]*Func{}, ByKey: map[string]*Func{}}
	l := NewLowerer(p)
	prog.L = l
	files := append([]*ast.File{}, p.Syntax...)
	sort.Slice(files, func(i, j int) bool {
		return p.Fset.Position(files[i].Pos()).Filename < p.Fset.Position(files[j].Pos()).Filename
	})
	for _, f := range files {
		gen := isGen(p.Fset.Position(f.Pos()).Filename)
		for _, d := range f.Decls {
			fd, ok := d.(*ast.FuncDecl)
			if !ok || fd.Body == nil {
				continue
			}
			fn := l.Func(fd, gen)
			prog.Funcs = append(prog.Funcs, fn)
			name := fn.Name
			if fd.Recv != nil && fn.Obj != nil {
				k := fn.Key
				if i := strings.LastIndex(k, ".("); i >= 0 {
					name = strings.NewReplacer("(", "", ")", "").Replace(k[i+1:])
				}
			}
			prog.ByName[name] = fn
			if fn.Key != "" {
				prog.ByKey[fn.Key] = fn
			}
		}
	}
	prog.Opaques = l.OpaqueLog
	return prog
}
