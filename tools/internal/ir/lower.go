package ir

import (
	"go/ast"
	"go/constant"
	"go/token"
	"go/types"
	"strconv"

	"golang.org/x/tools/go/packages"
	"golang.org/x/tools/go/types/typeutil"
)

const FrtPath = "github.com/karino2/folang/pkg/frt"

// FuncKey names a function symbolically: "pkgpath.Name" or "pkgpath.(Recv).Name".
func FuncKey(fn *types.Func) string {
	if fn == nil {
		return ""
	}
	fn = fn.Origin()
	pkg := ""
	if fn.Pkg() != nil {
		pkg = fn.Pkg().Path()
	}
	sig, _ := fn.Type().(*types.Signature)
	if sig != nil && sig.Recv() != nil {
		t := sig.Recv().Type()
		if p, ok := t.(*types.Pointer); ok {
			t = p.Elem()
		}
		name := "?"
		if n, ok := t.(*types.Named); ok {
			name = n.Obj().Name()
			if n.Obj().Pkg() != nil {
				pkg = n.Obj().Pkg().Path()
			}
		} else if _, ok := t.(*types.Interface); ok {
			name = "interface"
		}
		return pkg + ".(" + name + ")." + fn.Name()
	}
	return pkg + "." + fn.Name()
}

// Lowerer lowers the functions of one package.
type Lowerer struct {
	Pkg       *packages.Package
	Info      *types.Info
	params    map[*types.Var]int
	binders   map[*types.Var]bool
	opaques   int
	OpaqueLog []*Opaque
}

func NewLowerer(p *packages.Package) *Lowerer {
	return &Lowerer{Pkg: p, Info: p.TypesInfo, binders: map[*types.Var]bool{}}
}

// NewLowererInfo is for single-file packages checked outside go/packages.
func NewLowererInfo(info *types.Info) *Lowerer {
	return &Lowerer{Info: info, binders: map[*types.Var]bool{}}
}

func (l *Lowerer) Func(fd *ast.FuncDecl, generated bool) *Func {
	obj, _ := l.Info.Defs[fd.Name].(*types.Func)
	f := &Func{Name: fd.Name.Name, Obj: obj, Decl: fd, Generated: generated}
	if obj != nil {
		f.Key = FuncKey(obj)
		sig := obj.Type().(*types.Signature)
		f.Results = sig.Results()
		if sig.Recv() != nil {
			f.Params = append(f.Params, sig.Recv())
		}
		for i := 0; i < sig.Params().Len(); i++ {
			f.Params = append(f.Params, sig.Params().At(i))
		}
	}
	l.params = map[*types.Var]int{}
	for i, p := range f.Params {
		l.params[p] = i
	}
	// receivers and parameters are Defs of their identifiers; the signature's vars are the same objects.
	l.opaques = 0
	if fd.Body != nil {
		f.Body = l.block(fd.Body.List, fd.Body)
	}
	f.Opaques = l.opaques
	return f
}

func (l *Lowerer) opaque(n ast.Node, why string, mentions ...Term) *Opaque {
	l.opaques++
	o := &Opaque{node: node{n.Pos()}, Node: n, Why: why, Mentions: mentions}
	l.OpaqueLog = append(l.OpaqueLog, o)
	return o
}

func (l *Lowerer) block(stmts []ast.Stmt, n ast.Node) *Block {
	b := &Block{Node: n}
	for i, s := range stmts {
		last := i == len(stmts)-1
		switch x := s.(type) {
		case *ast.ReturnStmt:
			if !last {
				b.Stmts = append(b.Stmts, &OpaqueStmt{node{x.Pos()}, x, "return before end of block"})
				l.opaques++
				continue
			}
			b.HasRet = true
			switch len(x.Results) {
			case 0:
			case 1:
				b.Ret = l.expr(x.Results[0])
			default:
				mr := &MultiRet{node: node{x.Pos()}}
				for _, r := range x.Results {
					mr.Elems = append(mr.Elems, l.expr(r))
				}
				b.Ret = mr
			}
		case *ast.TypeSwitchStmt:
			m := l.typeSwitch(x)
			if mm, ok := m.(*Match); ok && mm.Returns && last {
				b.Ret = mm
				b.HasRet = true
			} else if ok && mm.Returns && !last {
				b.Stmts = append(b.Stmts, &OpaqueStmt{node{x.Pos()}, x, "returning switch before end of block"})
				l.opaques++
			} else {
				b.Stmts = append(b.Stmts, &Do{node{x.Pos()}, m})
			}
		case *ast.SwitchStmt:
			m := l.valueSwitch(x)
			if mm, ok := m.(*StrMatch); ok && mm.Returns && last {
				b.Ret = mm
				b.HasRet = true
			} else if ok && mm.Returns && !last {
				b.Stmts = append(b.Stmts, &OpaqueStmt{node{x.Pos()}, x, "returning switch before end of block"})
				l.opaques++
			} else {
				b.Stmts = append(b.Stmts, &Do{node{x.Pos()}, m})
			}
		default:
			b.Stmts = append(b.Stmts, l.stmt(s))
		}
	}
	return b
}

// desugarContinue rewrites the statement list of a loop body so that an unlabelled `continue` disappears:
//
//	if C { A; continue }; REST   is   if C { A } else { REST }     (if !C { REST } when A is empty)
//	a trailing `continue` is dropped; statements after a bare `continue` are dead.
//
// Only the top level of the body (and the else blocks it builds) is treated; anything else stays opaque.
func desugarContinue(list []ast.Stmt) []ast.Stmt {
	isCont := func(s ast.Stmt) bool {
		b, ok := s.(*ast.BranchStmt)
		return ok && b.Tok == token.CONTINUE && b.Label == nil
	}
	for i, s := range list {
		if isCont(s) {
			return list[:i:i]
		}
		is, ok := s.(*ast.IfStmt)
		if !ok || is.Else != nil || is.Init != nil || len(is.Body.List) == 0 || !isCont(is.Body.List[len(is.Body.List)-1]) {
			continue
		}
		then := is.Body.List[:len(is.Body.List)-1]
		rest := desugarContinue(list[i+1:])
		var repl ast.Stmt
		switch {
		case len(then) == 0 && len(rest) == 0:
			return list[:i:i]
		case len(then) == 0:
			var cond ast.Expr
			if u, ok := is.Cond.(*ast.UnaryExpr); ok && u.Op == token.NOT {
				cond = u.X
			} else if p, ok := is.Cond.(*ast.ParenExpr); ok {
				cond = &ast.UnaryExpr{OpPos: is.Cond.Pos(), Op: token.NOT, X: p}
			} else {
				cond = &ast.UnaryExpr{OpPos: is.Cond.Pos(), Op: token.NOT, X: &ast.ParenExpr{Lparen: is.Cond.Pos(), X: is.Cond, Rparen: is.Cond.End()}}
			}
			repl = &ast.IfStmt{If: is.If, Cond: cond, Body: &ast.BlockStmt{Lbrace: is.Body.Lbrace, List: rest, Rbrace: is.Body.Rbrace}}
		default:
			repl = &ast.IfStmt{If: is.If, Cond: is.Cond, Body: &ast.BlockStmt{Lbrace: is.Body.Lbrace, List: then, Rbrace: is.Body.Rbrace},
				Else: &ast.BlockStmt{Lbrace: is.Body.Rbrace, List: rest, Rbrace: is.Body.Rbrace}}
		}
		out := append(append([]ast.Stmt{}, list[:i]...), repl)
		return out
	}
	return list
}

func (l *Lowerer) defVar(id *ast.Ident) *types.Var {
	if id == nil || id.Name == "_" {
		return nil
	}
	if v, ok := l.Info.Defs[id].(*types.Var); ok {
		return v
	}
	if v, ok := l.Info.Uses[id].(*types.Var); ok {
		return v // redeclaration in :=
	}
	return nil
}

func (l *Lowerer) stmt(s ast.Stmt) Stmt {
	switch x := s.(type) {
	case *ast.ExprStmt:
		return &Do{node{x.Pos()}, l.expr(x.X)}
	case *ast.DeferStmt:
		return &Defer{node{x.Pos()}, l.expr(x.Call)}
	case *ast.AssignStmt:
		if x.Tok == token.DEFINE {
			allIdent := true
			for _, lh := range x.Lhs {
				if _, ok := lh.(*ast.Ident); !ok {
					allIdent = false
				}
			}
			if allIdent && len(x.Rhs) == 1 {
				let := &Let{node: node{x.Pos()}}
				for _, lh := range x.Lhs {
					let.Vars = append(let.Vars, l.defVar(lh.(*ast.Ident)))
				}
				if len(x.Lhs) == 1 {
					let.Val = l.expr(x.Rhs[0])
					return let
				}
				// a, b := frt.DestrN(e) ?
				if call, ok := ast.Unparen(x.Rhs[0]).(*ast.CallExpr); ok && len(call.Args) == 1 {
					if fn, ok := typeutil.Callee(l.Info, call).(*types.Func); ok {
						switch FuncKey(fn) {
						case FrtPath + ".Destr2", FrtPath + ".Destr3", FrtPath + ".Destr":
							let.Mode = LetDestr
							let.Val = l.expr(call.Args[0])
							return let
						}
					}
				}
				let.Mode = LetMulti
				if ix, ok := ast.Unparen(x.Rhs[0]).(*ast.IndexExpr); ok {
					t := l.expr(ix)
					if it, ok := t.(*Index); ok {
						it.CommaOk = true
					}
					let.Val = t
				} else {
					let.Val = l.expr(x.Rhs[0])
				}
				return let
			}
			if allIdent && len(x.Rhs) == len(x.Lhs) {
				// a, b := e1, e2 — rare; keep order by nesting into an opaque
			}
			l.opaques++
			return &OpaqueStmt{node{x.Pos()}, x, "unsupported := form"}
		}
		if len(x.Lhs) == 1 && len(x.Rhs) == 1 {
			op := x.Tok.String()
			return &Assign{node{x.Pos()}, l.expr(x.Lhs[0]), l.expr(x.Rhs[0]), op}
		}
		l.opaques++
		return &OpaqueStmt{node{x.Pos()}, x, "tuple assignment"}
	case *ast.IncDecStmt:
		return &Assign{node{x.Pos()}, l.expr(x.X), &Lit{node{x.Pos()}, token.INT, "1"}, x.Tok.String()}
	case *ast.DeclStmt:
		gd, ok := x.Decl.(*ast.GenDecl)
		if ok && gd.Tok == token.VAR && len(gd.Specs) == 1 {
			vs := gd.Specs[0].(*ast.ValueSpec)
			if len(vs.Names) == 1 {
				let := &Let{node: node{x.Pos()}, Vars: []*types.Var{l.defVar(vs.Names[0])}}
				if len(vs.Values) == 1 {
					let.Val = l.expr(vs.Values[0])
				} else if v := let.Vars[0]; v != nil {
					let.Val = &Zero{node{x.Pos()}, v.Type()}
				} else {
					let.Val = &Nil{node{x.Pos()}}
				}
				return let
			}
		}
		l.opaques++
		return &OpaqueStmt{node{x.Pos()}, x, "declaration"}
	case *ast.IfStmt:
		is := &IfStmt{node: node{x.Pos()}}
		if x.Init != nil {
			is.Init = l.stmt(x.Init)
		}
		is.Cond = l.expr(x.Cond)
		is.Then = l.block(x.Body.List, x.Body)
		switch e := x.Else.(type) {
		case nil:
		case *ast.BlockStmt:
			is.Else = l.block(e.List, e)
		case *ast.IfStmt:
			is.Else = &Block{Stmts: []Stmt{l.stmt(e)}, Node: e}
		}
		return is
	case *ast.BlockStmt:
		// flatten is not possible (scoping) — keep as opaque
		l.opaques++
		return &OpaqueStmt{node{x.Pos()}, x, "nested block"}
	case *ast.ForStmt:
		lp := &Loop{node: node{x.Pos()}, Stmt: x}
		if x.Init != nil {
			lp.Init = l.stmt(x.Init)
		}
		if x.Cond != nil {
			lp.Cond = l.expr(x.Cond)
		}
		if x.Post != nil {
			lp.Post = l.stmt(x.Post)
		}
		lp.Body = l.block(desugarContinue(x.Body.List), x.Body)
		return lp
	case *ast.RangeStmt:
		lp := &Loop{node: node{x.Pos()}, Stmt: x}
		// for i := range n over an integer is the counted loop for i := 0; i < n; i++
		if id, ok := x.Key.(*ast.Ident); ok && x.Value == nil && x.Tok == token.DEFINE && id.Name != "_" {
			if tv, ok := l.Info.Types[x.X]; ok && tv.Type != nil {
				if b, ok := tv.Type.Underlying().(*types.Basic); ok && b.Info()&types.IsInteger != 0 {
					if k := l.defVar(id); k != nil {
						pos := x.Pos()
						lp.Init = &Let{node: node{pos}, Vars: []*types.Var{k}, Val: &Lit{node{pos}, token.INT, "0"}}
						lp.Cond = &BinOp{node{pos}, "<", &Local{node{pos}, k}, l.expr(x.X)}
						lp.Post = &Assign{node{pos}, &Local{node{pos}, k}, &Lit{node{pos}, token.INT, "1"}, "++"}
						lp.Body = l.block(desugarContinue(x.Body.List), x.Body)
						return lp
					}
				}
			}
		}
		if id, ok := x.Key.(*ast.Ident); ok {
			lp.Key = l.defVar(id)
		}
		if id, ok := x.Value.(*ast.Ident); ok {
			lp.Val = l.defVar(id)
		}
		lp.Over = l.expr(x.X)
		lp.Body = l.block(desugarContinue(x.Body.List), x.Body)
		return lp
	case *ast.BranchStmt, *ast.EmptyStmt, *ast.LabeledStmt, *ast.GoStmt, *ast.SendStmt, *ast.SelectStmt:
		l.opaques++
		return &OpaqueStmt{node{s.Pos()}, s, "unsupported statement"}
	case *ast.TypeSwitchStmt:
		return &Do{node{x.Pos()}, l.typeSwitch(x)}
	case *ast.SwitchStmt:
		return &Do{node{x.Pos()}, l.valueSwitch(x)}
	case *ast.ReturnStmt:
		l.opaques++
		return &OpaqueStmt{node{x.Pos()}, x, "return in statement position"}
	}
	l.opaques++
	return &OpaqueStmt{node{s.Pos()}, s, "unsupported statement"}
}

func isPanicCall(info *types.Info, s ast.Stmt) bool {
	es, ok := s.(*ast.ExprStmt)
	if !ok {
		return false
	}
	call, ok := es.X.(*ast.CallExpr)
	if !ok {
		return false
	}
	id, ok := ast.Unparen(call.Fun).(*ast.Ident)
	if !ok {
		return false
	}
	b, ok := info.Uses[id].(*types.Builtin)
	return ok && b.Name() == "panic"
}

func endsInReturn(list []ast.Stmt) bool {
	if len(list) == 0 {
		return false
	}
	switch x := list[len(list)-1].(type) {
	case *ast.ReturnStmt:
		return true
	case *ast.TypeSwitchStmt:
		return switchReturns(x.Body)
	case *ast.SwitchStmt:
		return switchReturns(x.Body)
	}
	return false
}

func switchReturns(body *ast.BlockStmt) bool {
	hasDefault := false
	for _, c := range body.List {
		cc := c.(*ast.CaseClause)
		if cc.List == nil {
			hasDefault = true
		}
		if !endsInReturn(cc.Body) {
			if cc.List == nil && len(cc.Body) == 1 {
				if es, ok := cc.Body[0].(*ast.ExprStmt); ok {
					if call, ok := es.X.(*ast.CallExpr); ok {
						if id, ok := call.Fun.(*ast.Ident); ok && id.Name == "panic" {
							continue
						}
					}
				}
			}
			return false
		}
	}
	return hasDefault
}

func (l *Lowerer) typeSwitch(x *ast.TypeSwitchStmt) Term {
	if x.Init != nil {
		return l.opaque(x, "type switch with init")
	}
	var ta *ast.TypeAssertExpr
	switch a := x.Assign.(type) {
	case *ast.AssignStmt:
		if len(a.Rhs) == 1 {
			ta, _ = ast.Unparen(a.Rhs[0]).(*ast.TypeAssertExpr)
		}
	case *ast.ExprStmt:
		ta, _ = ast.Unparen(a.X).(*ast.TypeAssertExpr)
	}
	if ta == nil {
		return l.opaque(x, "type switch form")
	}
	m := &Match{node: node{x.Pos()}, Stmt: x}
	m.Scrut = l.expr(ta.X)
	if tv, ok := l.Info.Types[ta.X]; ok {
		m.ScrutType = tv.Type
	}
	m.Returns = switchReturns(x.Body)
	for _, c := range x.Body.List {
		cc := c.(*ast.CaseClause)
		var binder *types.Var
		if v, ok := l.Info.Implicits[cc].(*types.Var); ok {
			binder = v
			l.binders[v] = true
		}
		if cc.List == nil {
			if len(cc.Body) == 1 && isPanicCall(l.Info, cc.Body[0]) {
				m.NeverReached = true
			}
			m.Default = l.block(cc.Body, cc)
			continue
		}
		arm := &MatchArm{Binder: binder, Clause: cc}
		for _, e := range cc.List {
			if tv, ok := l.Info.Types[e]; ok {
				arm.Cases = append(arm.Cases, tv.Type)
			}
		}
		arm.Body = l.block(cc.Body, cc)
		m.Arms = append(m.Arms, arm)
	}
	return m
}

func (l *Lowerer) valueSwitch(x *ast.SwitchStmt) Term {
	if x.Tag == nil {
		return l.opaque(x, "tagless switch")
	}
	m := &StrMatch{node: node{x.Pos()}}
	var init Stmt
	if x.Init != nil {
		init = l.stmt(x.Init)
	}
	m.Scrut = l.expr(x.Tag)
	if init != nil {
		// switch v := (e); v {…}: the scrutinee is e
		if let, ok := init.(*Let); ok && len(let.Vars) == 1 {
			if lc, ok := m.Scrut.(*Local); ok && lc.Obj == let.Vars[0] {
				m.Scrut = let.Val
			} else {
				return l.opaque(x, "switch init form")
			}
		} else {
			return l.opaque(x, "switch init form")
		}
	}
	m.Returns = switchReturns(x.Body)
	for _, c := range x.Body.List {
		cc := c.(*ast.CaseClause)
		if cc.List == nil {
			m.Default = l.block(cc.Body, cc)
			continue
		}
		arm := &StrArm{}
		for _, e := range cc.List {
			arm.Vals = append(arm.Vals, l.expr(e))
		}
		arm.Body = l.block(cc.Body, cc)
		m.Arms = append(m.Arms, arm)
	}
	return m
}

func (l *Lowerer) exprs(es []ast.Expr) []Term {
	var res []Term
	for _, e := range es {
		res = append(res, l.expr(e))
	}
	return res
}

func constLit(pos token.Pos, v constant.Value) Term {
	switch v.Kind() {
	case constant.String:
		return &Lit{node{pos}, token.STRING, constant.StringVal(v)}
	case constant.Int:
		return &Lit{node{pos}, token.INT, v.ExactString()}
	case constant.Bool:
		return &Lit{node{pos}, token.IDENT, v.String()}
	case constant.Float:
		return &Lit{node{pos}, token.FLOAT, v.ExactString()}
	}
	return &Lit{node{pos}, token.ILLEGAL, v.ExactString()}
}

func (l *Lowerer) ident(id *ast.Ident) Term {
	obj := l.Info.Uses[id]
	if obj == nil {
		obj = l.Info.Defs[id]
	}
	pos := id.Pos()
	switch o := obj.(type) {
	case *types.Var:
		if i, ok := l.params[o]; ok {
			return &Param{node{pos}, i, o}
		}
		if o.Pkg() != nil && o.Parent() == o.Pkg().Scope() {
			return &Global{node{pos}, o, o.Pkg().Path() + "." + o.Name()}
		}
		return &Local{node{pos}, o}
	case *types.Func:
		fr := &FuncRef{node: node{pos}, Fn: o, Key: FuncKey(o)}
		if inst, ok := l.Info.Instances[id]; ok && inst.TypeArgs != nil {
			for i := 0; i < inst.TypeArgs.Len(); i++ {
				fr.TArgs = append(fr.TArgs, inst.TypeArgs.At(i))
			}
		}
		return fr
	case *types.Const:
		return constLit(pos, o.Val())
	case *types.Nil:
		return &Nil{node{pos}}
	case *types.Builtin:
		return &Builtin{node{pos}, o.Name()}
	}
	return l.opaque(id, "identifier "+id.Name)
}

func (l *Lowerer) expr(e ast.Expr) Term {
	pos := e.Pos()
	// constant expressions fold to literals (typed constants, "a"+"b", …) except plain identifiers handled below
	switch x := e.(type) {
	case *ast.ParenExpr:
		return l.expr(x.X)
	case *ast.BasicLit:
		switch x.Kind {
		case token.STRING:
			s, err := strconv.Unquote(x.Value)
			if err != nil {
				return l.opaque(x, "bad string literal")
			}
			return &Lit{node{pos}, token.STRING, s}
		case token.CHAR:
			if tv, ok := l.Info.Types[x]; ok && tv.Value != nil {
				return &Lit{node{pos}, token.CHAR, tv.Value.ExactString()}
			}
		case token.INT:
			if tv, ok := l.Info.Types[x]; ok && tv.Value != nil {
				return &Lit{node{pos}, token.INT, tv.Value.ExactString()}
			}
		}
		return &Lit{node{pos}, x.Kind, x.Value}
	case *ast.Ident:
		return l.ident(x)
	case *ast.FuncLit:
		lam := &Lam{node: node{pos}, Lit: x}
		if sig, ok := l.Info.Types[x].Type.(*types.Signature); ok {
			_ = sig
		}
		for _, f := range x.Type.Params.List {
			if len(f.Names) == 0 {
				lam.Params = append(lam.Params, nil)
			}
			for _, n := range f.Names {
				lam.Params = append(lam.Params, l.defVar(n))
			}
		}
		lam.Body = l.block(x.Body.List, x.Body)
		return lam
	case *ast.SelectorExpr:
		if sel, ok := l.Info.Selections[x]; ok {
			switch sel.Kind() {
			case types.FieldVal:
				if id, ok := ast.Unparen(x.X).(*ast.Ident); ok && x.Sel.Name == "Value" {
					if v, ok := l.Info.Uses[id].(*types.Var); ok && l.binders[v] {
						return &Payload{node{pos}, v}
					}
				}
				fv, _ := sel.Obj().(*types.Var)
				if i := tupleFieldIndex(l.Info.Types[x.X].Type, x.Sel.Name); i >= 0 {
					return &Proj{node{pos}, l.expr(x.X), i}
				}
				return &Field{node{pos}, l.expr(x.X), x.Sel.Name, fv}
			case types.MethodVal:
				fn, _ := sel.Obj().(*types.Func)
				return &App{node: node{pos}, Fun: &Builtin{node{pos}, "methodvalue"}, Args: []Term{&FuncRef{node: node{pos}, Fn: fn, Key: FuncKey(fn)}, l.expr(x.X)}}
			}
			return l.opaque(x, "method expression")
		}
		// qualified identifier
		return l.ident(x.Sel)
	case *ast.IndexExpr:
		if tv, ok := l.Info.Types[x.X]; ok {
			if _, isSig := tv.Type.(*types.Signature); isSig && !tv.IsValue() || l.isGenericFunc(x.X) {
				return l.instantiated(x.X)
			}
		}
		return &Index{node: node{pos}, X: l.expr(x.X), I: l.expr(x.Index)}
	case *ast.IndexListExpr:
		return l.instantiated(x.X)
	case *ast.CallExpr:
		return l.call(x)
	case *ast.CompositeLit:
		tv, ok := l.Info.Types[x]
		if !ok {
			return l.opaque(x, "untyped composite literal")
		}
		switch u := tv.Type.Underlying().(type) {
		case *types.Struct:
			if n := tupleArity(tv.Type); n > 0 {
				tup := &Tuple{node{pos}, make([]Term, n)}
				full := true
				for i, el := range x.Elts {
					if kv, ok := el.(*ast.KeyValueExpr); ok {
						k, _ := kv.Key.(*ast.Ident)
						if k != nil {
							if j := tupleFieldIndex(tv.Type, k.Name); j >= 0 {
								tup.Elems[j] = l.expr(kv.Value)
							}
						}
					} else if i < n {
						tup.Elems[i] = l.expr(el)
					}
				}
				for _, e := range tup.Elems {
					if e == nil {
						full = false
					}
				}
				if full {
					return tup
				}
				return l.opaque(x, "partial tuple literal")
			}
			rec := &Record{node: node{pos}, Type: tv.Type}
			for i, el := range x.Elts {
				if kv, ok := el.(*ast.KeyValueExpr); ok {
					k, _ := kv.Key.(*ast.Ident)
					name := "?"
					if k != nil {
						name = k.Name
					}
					rec.Fields = append(rec.Fields, FieldVal{name, l.expr(kv.Value)})
				} else if i < u.NumFields() {
					rec.Fields = append(rec.Fields, FieldVal{u.Field(i).Name(), l.expr(el)})
				}
			}
			return rec
		case *types.Slice:
			sl := &SliceLit{node: node{pos}, Type: tv.Type}
			for _, el := range x.Elts {
				if _, ok := el.(*ast.KeyValueExpr); ok {
					return l.opaque(x, "keyed slice literal")
				}
				sl.Elems = append(sl.Elems, l.expr(el))
			}
			return sl
		}
		var ms []Term
		for _, el := range x.Elts {
			if kv, ok := el.(*ast.KeyValueExpr); ok {
				ms = append(ms, l.expr(kv.Key), l.expr(kv.Value))
			} else {
				ms = append(ms, l.expr(el))
			}
		}
		return l.opaque(x, "composite literal of "+tv.Type.String(), ms...)
	case *ast.BinaryExpr:
		if tv, ok := l.Info.Types[x]; ok && tv.Value != nil {
			return constLit(pos, tv.Value)
		}
		return &BinOp{node{pos}, x.Op.String(), l.expr(x.X), l.expr(x.Y)}
	case *ast.UnaryExpr:
		if tv, ok := l.Info.Types[x]; ok && tv.Value != nil {
			return constLit(pos, tv.Value)
		}
		switch x.Op {
		case token.NOT:
			return &Not{node{pos}, l.expr(x.X)}
		case token.SUB:
			return &Neg{node{pos}, l.expr(x.X)}
		case token.AND:
			return &AddrOf{node{pos}, l.expr(x.X)}
		}
		return l.opaque(x, "unary "+x.Op.String(), l.expr(x.X))
	case *ast.SliceExpr:
		s := &SliceOf{node: node{pos}, X: l.expr(x.X)}
		if x.Low != nil {
			s.Lo = l.expr(x.Low)
		}
		if x.High != nil {
			s.Hi = l.expr(x.High)
		}
		if x.Max != nil {
			s.Max = l.expr(x.Max)
		}
		return s
	case *ast.TypeAssertExpr:
		return l.opaque(x, "type assertion", l.expr(x.X))
	case *ast.StarExpr:
		return l.opaque(x, "dereference", l.expr(x.X))
	}
	return l.opaque(e, "expression")
}

func (l *Lowerer) isGenericFunc(e ast.Expr) bool {
	var id *ast.Ident
	switch x := ast.Unparen(e).(type) {
	case *ast.Ident:
		id = x
	case *ast.SelectorExpr:
		id = x.Sel
	}
	if id == nil {
		return false
	}
	fn, ok := l.Info.Uses[id].(*types.Func)
	if !ok {
		return false
	}
	sig := fn.Type().(*types.Signature)
	return sig.TypeParams().Len() > 0
}

func (l *Lowerer) instantiated(fun ast.Expr) Term {
	var id *ast.Ident
	switch x := ast.Unparen(fun).(type) {
	case *ast.Ident:
		id = x
	case *ast.SelectorExpr:
		id = x.Sel
	}
	if id == nil {
		return l.opaque(fun, "instantiation")
	}
	return l.ident(id)
}

func (l *Lowerer) call(x *ast.CallExpr) Term {
	pos := x.Pos()
	if tv, ok := l.Info.Types[x]; ok && tv.Value != nil {
		return constLit(pos, tv.Value) // e.g. len("abc")
	}
	if tv, ok := l.Info.Types[x.Fun]; ok && tv.IsType() {
		if len(x.Args) == 1 {
			return &Conv{node{pos}, tv.Type, l.expr(x.Args[0])}
		}
		return l.opaque(x, "conversion arity")
	}
	spread := x.Ellipsis.IsValid()
	if fn, ok := typeutil.Callee(l.Info, x).(*types.Func); ok && fn.Pkg() != nil && fn.Pkg().Path() == FrtPath {
		args := x.Args
		switch fn.Name() {
		case "Pipe", "PipeUnit":
			if len(args) == 2 {
				return &App{node: node{pos}, Fun: l.expr(args[1]), Args: []Term{l.expr(args[0])}, Pipe: true, Call: x}
			}
		case "IfElse", "IfElseUnit", "IfOnly":
			want := 3
			if fn.Name() == "IfOnly" {
				want = 2
			}
			if len(args) == want {
				t1, ok1 := ast.Unparen(args[1]).(*ast.FuncLit)
				var t2 *ast.FuncLit
				ok2 := true
				if want == 3 {
					t2, ok2 = ast.Unparen(args[2]).(*ast.FuncLit)
				}
				if ok1 && ok2 && len(t1.Type.Params.List) == 0 {
					res := &If{node: node{pos}, Kind: fn.Name(), Cond: l.expr(args[0])}
					res.Then = l.block(t1.Body.List, t1.Body)
					if t2 != nil {
						res.Else = l.block(t2.Body.List, t2.Body)
					}
					return res
				}
			}
		case "NewTuple2", "NewTuple3":
			return &Tuple{node{pos}, l.exprs(args)}
		case "Fst":
			if len(args) == 1 {
				return &Proj{node{pos}, l.expr(args[0]), 0}
			}
		case "Snd":
			if len(args) == 1 {
				return &Proj{node{pos}, l.expr(args[0]), 1}
			}
		case "OpEqual":
			if len(args) == 2 {
				return &BinOp{node{pos}, "eq", l.expr(args[0]), l.expr(args[1])}
			}
		case "OpNotEqual":
			if len(args) == 2 {
				return &BinOp{node{pos}, "ne", l.expr(args[0]), l.expr(args[1])}
			}
		case "OpNot":
			if len(args) == 1 {
				return &Not{node{pos}, l.expr(args[0])}
			}
		}
	}
	// method call: recv.M(args) => M(recv, args)
	if se, ok := ast.Unparen(x.Fun).(*ast.SelectorExpr); ok {
		if sel, ok := l.Info.Selections[se]; ok && sel.Kind() == types.MethodVal {
			if fn, ok := sel.Obj().(*types.Func); ok {
				fr := &FuncRef{node: node{pos}, Fn: fn, Key: FuncKey(fn)}
				args := append([]Term{l.expr(se.X)}, l.exprs(x.Args)...)
				return &App{node: node{pos}, Fun: fr, Args: args, Spread: spread, Call: x, Method: true}
			}
		}
	}
	// make/new: the first argument is a type
	if id, ok := ast.Unparen(x.Fun).(*ast.Ident); ok {
		if b, ok := l.Info.Uses[id].(*types.Builtin); ok && (b.Name() == "make" || b.Name() == "new") && len(x.Args) >= 1 {
			args := []Term{&TypeLit{node{x.Args[0].Pos()}, l.Info.Types[x.Args[0]].Type}}
			args = append(args, l.exprs(x.Args[1:])...)
			return &App{node: node{pos}, Fun: &Builtin{node{pos}, b.Name()}, Args: args, Call: x}
		}
	}
	return &App{node: node{pos}, Fun: l.expr(x.Fun), Args: l.exprs(x.Args), Spread: spread, Call: x}
}

// tupleArity returns n for frt.TupleN, else 0.
func tupleArity(t types.Type) int {
	if t == nil {
		return 0
	}
	if p, ok := t.(*types.Pointer); ok {
		t = p.Elem()
	}
	n, ok := t.(*types.Named)
	if !ok || n.Obj().Pkg() == nil || n.Obj().Pkg().Path() != FrtPath {
		return 0
	}
	switch n.Obj().Name() {
	case "Tuple2":
		return 2
	case "Tuple3":
		return 3
	}
	return 0
}

func tupleFieldIndex(t types.Type, field string) int {
	n := tupleArity(t)
	if n == 0 || len(field) != 2 || field[0] != 'E' {
		return -1
	}
	i := int(field[1] - '0')
	if i < 0 || i >= n {
		return -1
	}
	return i
}
