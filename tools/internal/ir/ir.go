// Package ir lowers typed Go syntax to a small functional intermediate
// representation (FoIR, DESIGN.md Appendix A).  fc's output uses a rigid
// single-assignment subset of Go; hand-written wrappers use little more.
// Anything the lowering does not recognise becomes Opaque, which every
// analysis treats as undecided when it lies on a path the rule cares about.
package ir

import (
	"go/ast"
	"go/token"
	"go/types"
)

type Term interface{ Pos() token.Pos }

type node struct{ P token.Pos }

func (n node) Pos() token.Pos { return n.P }

type (
	// Param is a parameter of the enclosing top-level function.
	Param struct {
		node
		Idx int
		Obj *types.Var
	}
	// Local is a let-bound variable, a lambda parameter or a match binder.
	Local struct {
		node
		Obj *types.Var
	}
	// Global is a package-level variable (including payload-less union constructors New_U_C).
	Global struct {
		node
		Obj *types.Var
		Key string // "pkgpath.Name"
	}
	// FuncRef is a resolved package-level function or method.
	FuncRef struct {
		node
		Fn    *types.Func
		Key   string // "pkgpath.Name" or "pkgpath.(Recv).Name"
		TArgs []types.Type
	}
	Builtin struct {
		node
		Name string
	}
	// Lit is a constant: Kind INT, STRING (Val is the unquoted value), CHAR, FLOAT, or IDENT for true/false.
	Lit struct {
		node
		Kind token.Token
		Val  string
	}
	Nil struct{ node }
	Lam struct {
		node
		Params []*types.Var
		Body   *Block
		Lit    *ast.FuncLit
	}
	// App is a call.  Pipe is set when the application was written frt.Pipe(x, f).
	App struct {
		node
		Fun    Term
		Args   []Term
		Pipe   bool
		Spread bool
		Method bool // receiver is Args[0]
		Call   *ast.CallExpr
	}
	// If is frt.IfElse / IfElseUnit / IfOnly over function literals (Kind names which) —
	// an expression whose value is the Ret of the taken block.
	If struct {
		node
		Kind string
		Cond Term
		Then *Block
		Else *Block // nil for IfOnly
	}
	// Match is a type switch over a union value.
	Match struct {
		node
		Scrut        Term
		ScrutType    types.Type
		Arms         []*MatchArm
		Default      *Block // nil if absent
		NeverReached bool   // default is exactly one unconditional panic(...)
		Returns      bool   // arms return (expression form) vs. statement form
		Stmt         *ast.TypeSwitchStmt
	}
	MatchArm struct {
		Cases  []types.Type // case types (usually one named struct U_C)
		Binder *types.Var   // the per-clause implicit object (_vN), may be nil
		Body   *Block
		Clause *ast.CaseClause
	}
	// Payload is _vN.Value inside a match arm.
	Payload struct {
		node
		Of *types.Var // the clause's implicit object
	}
	// StrMatch is `switch x { case "a": … default: … }`.
	StrMatch struct {
		node
		Scrut   Term
		Arms    []*StrArm
		Default *Block
		Returns bool
	}
	StrArm struct {
		Vals []Term
		Body *Block
	}
	Tuple struct {
		node
		Elems []Term
	}
	Proj struct {
		node
		X Term
		I int
	}
	Record struct {
		node
		Type   types.Type
		Fields []FieldVal
	}
	FieldVal struct {
		Name string
		Val  Term
	}
	Field struct {
		node
		X    Term
		Name string
		Obj  *types.Var
	}
	SliceLit struct {
		node
		Type  types.Type
		Elems []Term
	}
	BinOp struct {
		node
		Op   string // Go operator, or "eq"/"ne" for frt.OpEqual/OpNotEqual
		L, R Term
	}
	Not struct {
		node
		X Term
	}
	Neg struct {
		node
		X Term
	}
	Conv struct {
		node
		Type types.Type
		X    Term
	}
	Index struct {
		node
		X, I    Term
		CommaOk bool
	}
	SliceOf struct {
		node
		X, Lo, Hi, Max Term
	}
	// AddrOf is &x (x a composite literal or an addressable expression).
	AddrOf struct {
		node
		X Term
	}
	// TypeLit is a type used as an argument (make, new).
	TypeLit struct {
		node
		Type types.Type
	}
	// Zero is the zero value of a type (var x T).
	Zero struct {
		node
		Type types.Type
	}
	// MultiRet is `return a, b`.
	MultiRet struct {
		node
		Elems []Term
	}
	// Opaque is anything else; Mentions lists the lowered sub-terms it contains.
	Opaque struct {
		node
		Node     ast.Node
		Why      string
		Mentions []Term
	}
)

// Block is a statement list followed by an optional result.
type Block struct {
	Stmts  []Stmt
	Ret    Term // nil when the block yields no value
	HasRet bool // an explicit return statement ends the block (Ret may still be nil: bare return)
	Node   ast.Node
}

type Stmt interface{ Pos() token.Pos }

type LetMode int

const (
	LetSingle LetMode = iota
	LetDestr          // a, b := frt.Destr2(e): Vars bind the components of the tuple e
	LetMulti          // a, b := f() / m[k]: Vars bind the results of a multi-value expression
)

type (
	Let struct {
		node
		Vars []*types.Var // nil entries for _
		Val  Term
		Mode LetMode
	}
	Do struct {
		node
		X Term
	}
	Defer struct {
		node
		X Term
	}
	// IfStmt is a Go if statement (hand-written code); blocks may return early.
	IfStmt struct {
		node
		Init Stmt
		Cond Term
		Then *Block
		Else *Block
	}
	// Assign is `x = e`, `x[i] = e`, `x op= e`, `x++`.
	Assign struct {
		node
		LHS Term
		RHS Term
		Op  string
	}
	// Loop is a for / range statement; Body is lowered, header kept as syntax.
	Loop struct {
		node
		Stmt     ast.Stmt
		Key, Val *types.Var // range variables
		Over     Term       // range operand
		Init     Stmt
		Cond     Term
		Post     Stmt
		Body     *Block
	}
	// OpaqueStmt is any other statement.
	OpaqueStmt struct {
		node
		Node ast.Stmt
		Why  string
	}
)

// Func is a lowered package-level function.
type Func struct {
	Name      string
	Key       string
	Obj       *types.Func
	Params    []*types.Var
	Results   *types.Tuple
	Body      *Block
	Decl      *ast.FuncDecl
	Generated bool
	Opaques   int
}
