package ir

import (
	"fmt"
	"go/token"
	"go/types"
	"strconv"
	"strings"
)

// Printer renders terms canonically.  Lambda parameters are numbered in
// traversal order, so the text does not depend on source identifiers of
// bound variables; functions print by symbolic key with the repository
// prefix removed and HomePkg's own prefix dropped.
type Printer struct {
	HomePkg string // import path whose functions print unqualified
	names   map[*types.Var]string
	next    int
	cells   int
	binder  map[*types.Var]string
}

func NewPrinter(home string) *Printer {
	return &Printer{HomePkg: home, names: map[*types.Var]string{}, binder: map[*types.Var]string{}}
}

const repoPrefix = "github.com/karino2/folang/"

func (p *Printer) key(k string) string {
	if p.HomePkg != "" && strings.HasPrefix(k, p.HomePkg+".") {
		return strings.TrimPrefix(k, p.HomePkg+".")
	}
	k = strings.TrimPrefix(k, repoPrefix+"pkg/")
	k = strings.TrimPrefix(k, repoPrefix)
	return k
}

func ShortKey(k string) string { return (&Printer{}).key(k) }

func typeName(t types.Type) string {
	if t == nil {
		return "?"
	}
	return types.TypeString(t, func(p *types.Package) string {
		return strings.TrimPrefix(strings.TrimPrefix(p.Path(), repoPrefix+"pkg/"), repoPrefix)
	})
}

func CaseName(t types.Type) string {
	if n, ok := t.(*types.Named); ok {
		return n.Obj().Name()
	}
	return typeName(t)
}

// local names a free local (a cell of imperative code) by order of first appearance.
func (p *Printer) local(v *types.Var) string {
	if n, ok := p.names[v]; ok {
		return n
	}
	n := fmt.Sprintf("$%d", p.cells)
	p.cells++
	p.names[v] = n
	return n
}

func (p *Printer) list(ts []Term) string {
	var ss []string
	for _, t := range ts {
		ss = append(ss, p.S(t))
	}
	return strings.Join(ss, ", ")
}

func (p *Printer) blk(b *Block) string {
	if b == nil {
		return "-"
	}
	if len(b.Stmts) != 0 {
		return "{unnormalised}"
	}
	if b.Ret == nil {
		return "()"
	}
	return p.S(b.Ret)
}

// S prints a normal-form term.
func (p *Printer) S(t Term) string {
	switch x := t.(type) {
	case nil:
		return "()"
	case *Param:
		return fmt.Sprintf("p%d", x.Idx)
	case *Local:
		return p.local(x.Obj)
	case *Global:
		return "var:" + p.key(x.Key)
	case *FuncRef:
		return p.key(x.Key)
	case *Builtin:
		return x.Name
	case *Lit:
		switch x.Kind {
		case token.STRING:
			return strconv.Quote(x.Val)
		}
		return x.Val
	case *Nil:
		return "nil"
	case *TypeLit:
		return "type[" + typeName(x.Type) + "]"
	case *Zero:
		return "zero[" + typeName(x.Type) + "]"
	case *Payload:
		if n, ok := p.binder[x.Of]; ok {
			return "payload(" + n + ")"
		}
		if x.Of != nil {
			return "payload(" + CaseName(x.Of.Type()) + ")"
		}
		return "payload(?)"
	case *Lam:
		var ns []string
		for _, v := range x.Params {
			n := fmt.Sprintf("x%d", p.next)
			p.next++
			if v != nil {
				p.names[v] = n
			}
			ns = append(ns, n)
		}
		return "\\" + strings.Join(ns, " ") + ". " + p.blk(x.Body)
	case *PApp:
		return p.S(x.Fun) + "(" + p.list(x.First) + strings.Repeat(", _", x.Arity) + ")"
	case *App:
		s := p.S(x.Fun) + "(" + p.list(x.Args)
		if x.Spread {
			s += "..."
		}
		return s + ")"
	case *If:
		if x.Else == nil {
			return "if(" + p.S(x.Cond) + ", " + p.blk(x.Then) + ")"
		}
		return "if(" + p.S(x.Cond) + ", " + p.blk(x.Then) + ", " + p.blk(x.Else) + ")"
	case *IfT:
		return "if(" + p.S(x.Cond) + ", " + p.S(x.Then) + ", " + p.S(x.Else) + ")"
	case *Seq:
		s := "seq["
		for i, e := range x.Effs {
			if i > 0 {
				s += "; "
			}
			s += p.S(e)
		}
		s += "]"
		if x.Ret != nil {
			s += " " + p.S(x.Ret)
		}
		return s
	case *Match:
		s := "match(" + p.S(x.Scrut)
		for _, a := range x.Arms {
			var cs []string
			for _, c := range a.Cases {
				cs = append(cs, CaseName(c))
			}
			cn := strings.Join(cs, "|")
			if a.Binder != nil {
				p.binder[a.Binder] = cn
			}
			s += "; " + cn + " -> " + p.blk(a.Body)
		}
		if x.Default != nil {
			if x.NeverReached {
				s += "; _ -> never"
			} else {
				s += "; _ -> " + p.blk(x.Default)
			}
		}
		return s + ")"
	case *StrMatch:
		s := "smatch(" + p.S(x.Scrut)
		for _, a := range x.Arms {
			s += "; " + p.list(a.Vals) + " -> " + p.blk(a.Body)
		}
		if x.Default != nil {
			s += "; _ -> " + p.blk(x.Default)
		}
		return s + ")"
	case *Tuple:
		return "(" + p.list(x.Elems) + ")"
	case *Proj:
		return fmt.Sprintf("#%d(%s)", x.I, p.S(x.X))
	case *Record:
		var fs []string
		for _, f := range x.Fields {
			fs = append(fs, f.Name+": "+p.S(f.Val))
		}
		return CaseName(x.Type) + "{" + strings.Join(fs, ", ") + "}"
	case *Field:
		return p.S(x.X) + "." + x.Name
	case *SliceLit:
		return "[" + p.list(x.Elems) + "]"
	case *BinOp:
		return "(" + p.S(x.L) + " " + x.Op + " " + p.S(x.R) + ")"
	case *Not:
		return "not(" + p.S(x.X) + ")"
	case *Neg:
		return "neg(" + p.S(x.X) + ")"
	case *Conv:
		return "conv[" + typeName(x.Type) + "](" + p.S(x.X) + ")"
	case *Index:
		if x.CommaOk {
			return "lookup2(" + p.S(x.X) + ", " + p.S(x.I) + ")"
		}
		return p.S(x.X) + "[" + p.S(x.I) + "]"
	case *SliceOf:
		return "slice(" + p.S(x.X) + ", " + p.S(x.Lo) + ", " + p.S(x.Hi) + ", " + p.S(x.Max) + ")"
	case *MultiRet:
		return "ret(" + p.list(x.Elems) + ")"
	case *AddrOf:
		return "&" + p.S(x.X)
	case *Opaque:
		return "opaque<" + x.Why + ">(" + p.list(x.Mentions) + ")"
	case *LoopT:
		if x.L != nil && x.Over != nil {
			k, v := "_", "_"
			if x.L.Key != nil {
				k = p.local(x.L.Key)
			}
			if x.L.Val != nil {
				v = p.local(x.L.Val)
			}
			return "range(" + k + " " + v + " : " + p.S(x.Over) + "){" + p.S(x.Body) + "}"
		}
		return "for(" + p.S(x.Init) + "; " + p.S(x.Cond) + "; " + p.S(x.Post) + "){" + p.S(x.Body) + "}"
	case *RetT:
		return "return(" + p.S(x.X) + ")"
	case *AssignT:
		return "assign(" + p.S(x.LHS) + " " + x.Op + " " + p.S(x.RHS) + ")"
	}
	return fmt.Sprintf("<%T>", t)
}

// String prints t with a fresh printer.
func String(home string, t Term) string { return NewPrinter(home).S(t) }
