package ir

import (
	"go/token"
	"go/types"
)

// Normal forms (TERM, DESIGN.md §2).  A loop-free function is summarised to a
// canonical term over its parameters: lets inlined, frt.Pipe β-reduced,
// partial-application closures η-reduced, tuple/record projections simplified,
// a configurable set of tiny combinators (MapL/MapR/PairL/PairR) inlined.
// Commutativity is never assumed.  Effects (expression statements) are kept,
// in order, in a Seq node.

type (
	// Seq is a block in normal form: effects in order, then the result.
	Seq struct {
		node
		Effs []Term
		Ret  Term // nil for no value
	}
	// PApp is an η-reduced partial application: \r0..rk. g(first..., r0..rk).
	PApp struct {
		node
		Fun   Term
		First []Term
		Arity int // number of missing arguments
	}
	// IfT is a hand-written if statement in normal form (blocks already include their continuation).
	IfT struct {
		node
		Cond       Term
		Then, Else Term
	}
	// LoopT marks a loop: the function has no closed form.
	LoopT struct {
		node
		L    *Loop
		Over Term // range operand (normal form), nil for a for statement
		Init Term // for-statement init as AssignT, may be nil
		Cond Term
		Post Term
		Body Term
	}
	// RetT marks an early return inside a loop body.
	RetT struct {
		node
		X Term
	}
	// AssignT is an assignment that is not a plain rebinding of a local.
	AssignT struct {
		node
		LHS, RHS Term
		Op       string
	}
)

type env struct {
	parent *env
	v      *types.Var
	t      Term
}

func (e *env) bind(v *types.Var, t Term) *env {
	if v == nil {
		return e
	}
	return &env{e, v, t}
}

func (e *env) lookup(v *types.Var) (Term, bool) {
	for x := e; x != nil; x = x.parent {
		if x.v == v {
			return x.t, true
		}
	}
	return nil, false
}

type Normalizer struct {
	Inline map[string]*Func // callee key -> function whose normal form is inlined at calls
	cache  map[*Func]Term
	busy   map[*Func]bool
	ifs    int
	// KeepShared keeps a let as a cell (no inlining) when its value contains a call and the
	// variable is used more than once (hand-written code: allocation/mutation identity matters).
	KeepShared bool
	uses       map[*types.Var]int
	inLoop     int
	loopVars   map[*types.Var]bool // variables assigned inside a loop: never inlined
	// Imperative is set when the function being normalised contains loops or non-rebinding assignments.
	Imperative bool
	depth      int
}

func NewNormalizer() *Normalizer {
	return &Normalizer{Inline: map[string]*Func{}, cache: map[*Func]Term{}, busy: map[*Func]bool{}}
}

// Func returns the normal form of f's body; parameters stay free (Param nodes).
func (n *Normalizer) Func(f *Func) Term {
	if t, ok := n.cache[f]; ok {
		return t
	}
	if f.Body == nil {
		return &Opaque{Why: "no body"}
	}
	n.busy[f] = true
	n.ifs = 0
	savedLV := n.loopVars
	n.loopVars = map[*types.Var]bool{}
	var inl func(b *Block, in bool)
	inl = func(b *Block, in bool) {
		if b == nil {
			return
		}
		for _, s := range b.Stmts {
			switch x := s.(type) {
			case *Assign:
				if lc, ok := x.LHS.(*Local); ok && in {
					n.loopVars[lc.Obj] = true
				}
			case *Loop:
				if as, ok := x.Post.(*Assign); ok {
					if lc, ok := as.LHS.(*Local); ok {
						n.loopVars[lc.Obj] = true
					}
				}
				if let, ok := x.Init.(*Let); ok {
					for _, v := range let.Vars {
						if v != nil {
							n.loopVars[v] = true
						}
					}
				}
				// every variable referenced inside a loop is a cell, not a value
				WalkStmt(x, func(t Term) bool {
					if lc, ok := t.(*Local); ok {
						n.loopVars[lc.Obj] = true
					}
					return true
				})
				inl(x.Body, true)
			case *IfStmt:
				inl(x.Then, in)
				inl(x.Else, in)
			}
		}
	}
	inl(f.Body, false)
	savedUses := n.uses
	n.uses = map[*types.Var]int{}
	WalkFunc(f, func(t Term) bool {
		if lc, ok := t.(*Local); ok {
			n.uses[lc.Obj]++
		}
		return true
	})
	defer func() { n.uses = savedUses }()
	t := n.block(f.Body, nil)
	n.loopVars = savedLV
	delete(n.busy, f)
	n.cache[f] = t
	return t
}

// armsAssignLocals: some arm of a statement switch assigns to a local variable with `=`.
func armsAssignLocals(arms []*StrArm, def *Block) bool {
	found := false
	chk := func(b *Block) {
		if b == nil {
			return
		}
		for _, s := range b.Stmts {
			if as, ok := s.(*Assign); ok && as.Op == "=" {
				if _, ok := as.LHS.(*Local); ok {
					found = true
				}
			}
		}
	}
	for _, a := range arms {
		chk(a.Body)
	}
	chk(def)
	return found
}

func blockReturns(b *Block) bool {
	if b == nil {
		return false
	}
	if b.HasRet {
		return true
	}
	if len(b.Stmts) == 0 {
		return false
	}
	switch x := b.Stmts[len(b.Stmts)-1].(type) {
	case *IfStmt:
		return blockReturns(x.Then) && x.Else != nil && blockReturns(x.Else)
	case *Do:
		if app, ok := x.X.(*App); ok {
			if b, ok := app.Fun.(*Builtin); ok && b.Name == "panic" {
				return true
			}
		}
	}
	return false
}

func (n *Normalizer) block(b *Block, e *env) Term {
	if b == nil {
		return nil
	}
	return n.stmts(b.Stmts, b.Ret, e, b)
}

// inlinedCall: t is a full application of a function on the inline list.
func (n *Normalizer) inlinedCall(t Term) bool {
	app, ok := t.(*App)
	if !ok {
		return false
	}
	fr, ok := app.Fun.(*FuncRef)
	if !ok {
		return false
	}
	callee, ok := n.Inline[fr.Key]
	return ok && len(app.Args) == len(callee.Params) && !app.Spread
}

func mkSeq(effs []Term, ret Term) Term {
	if len(effs) == 0 && ret != nil {
		return ret
	}
	if s, ok := ret.(*Seq); ok {
		return &Seq{Effs: append(append([]Term{}, effs...), s.Effs...), Ret: s.Ret}
	}
	return &Seq{Effs: effs, Ret: ret}
}

func (n *Normalizer) stmts(ss []Stmt, ret Term, e *env, blk *Block) Term {
	var effs []Term
	for i, s := range ss {
		switch x := s.(type) {
		case *Let:
			v := n.term(x.Val, e)
			// a helper with effects AND a result that was inlined here: its effects join this sequence, the
			// variable(s) are bound to its result
			if sq, ok := v.(*Seq); ok && sq.Ret != nil && len(sq.Effs) > 0 && n.inlinedCall(x.Val) {
				effs = append(effs, sq.Effs...)
				v = sq.Ret
			}
			switch x.Mode {
			case LetSingle:
				if len(x.Vars) == 1 && x.Vars[0] != nil && (n.loopVars[x.Vars[0]] || (n.KeepShared && n.uses[x.Vars[0]] > 1 && (hasApp(v) || isMutableZero(v)))) {
					effs = append(effs, &AssignT{LHS: &Local{Obj: x.Vars[0]}, RHS: v, Op: ":="})
				} else if len(x.Vars) == 1 && x.Vars[0] != nil {
					e = e.bind(x.Vars[0], v)
				} else {
					effs = append(effs, v)
				}
			default:
				any := false
				uses := 0
				for _, vr := range x.Vars {
					if vr != nil {
						uses += n.uses[vr]
					}
				}
				_, isTup := v.(*Tuple)
				_, isMR := v.(*MultiRet)
				if n.KeepShared && uses > 1 && hasApp(v) && !isTup && !isMR {
					// keep the tuple-valued call as one cell
					cell := types.NewVar(x.Pos(), nil, "_t", nil)
					effs = append(effs, &AssignT{LHS: &Local{Obj: cell}, RHS: v, Op: ":="})
					v = &Local{Obj: cell}
				}
				for j, vr := range x.Vars {
					if vr != nil {
						any = true
						e = e.bind(vr, mkProj(v, j, x.Mode == LetMulti))
					}
				}
				if !any {
					effs = append(effs, v)
				}
			}
		case *Do:
			// a switch in statement position whose arms assign to locals: continue the rest of the block inside
			// every arm (path splitting, as for if statements), so that the assignments reach their uses
			if sm, ok := x.X.(*StrMatch); ok && !sm.Returns && armsAssignLocals(sm.Arms, sm.Default) && n.inLoop == 0 {
				rest := ss[i+1:]
				m := &StrMatch{node: sm.node, Scrut: n.term(sm.Scrut, e), Returns: true}
				cont := func(b *Block) *Block {
					var st []Stmt
					if b != nil {
						if blockReturns(b) {
							return &Block{Ret: n.block(b, e)}
						}
						st = append(st, b.Stmts...)
					}
					return &Block{Ret: n.stmts(append(st, rest...), ret, e, blk)}
				}
				for _, a := range sm.Arms {
					m.Arms = append(m.Arms, &StrArm{Vals: n.terms(a.Vals, e), Body: cont(a.Body)})
				}
				m.Default = cont(sm.Default)
				return mkSeq(effs, m)
			}
			t := n.term(x.X, e)
			// a unit-returning helper that was inlined here: its effects are spliced into this sequence
			if sq, ok := t.(*Seq); ok && sq.Ret == nil && n.inlinedCall(x.X) {
				effs = append(effs, sq.Effs...)
				continue
			}
			effs = append(effs, t)
		case *Defer:
			effs = append(effs, &App{Fun: &Builtin{Name: "defer"}, Args: []Term{n.term(x.X, e)}})
		case *IfStmt:
			n.ifs++
			if n.ifs > 12 {
				n.Imperative = true
				effs = append(effs, &Opaque{Why: "too many if statements"})
				continue
			}
			e2 := e
			if x.Init != nil {
				if let, ok := x.Init.(*Let); ok {
					v := n.term(let.Val, e)
					if let.Mode == LetSingle && len(let.Vars) == 1 {
						e2 = e2.bind(let.Vars[0], v)
					} else {
						for j, vr := range let.Vars {
							e2 = e2.bind(vr, mkProj(v, j, let.Mode == LetMulti))
						}
					}
				} else {
					n.Imperative = true
				}
			}
			cond := n.term(x.Cond, e2)
			rest := ss[i+1:]
			var thenT, elseT Term
			if blockReturns(x.Then) {
				thenT = n.block(x.Then, e2)
			} else {
				thenT = n.stmts(append(append([]Stmt{}, x.Then.Stmts...), rest...), ret, e2, blk)
			}
			if x.Else != nil && blockReturns(x.Else) {
				elseT = n.block(x.Else, e2)
			} else if x.Else != nil {
				elseT = n.stmts(append(append([]Stmt{}, x.Else.Stmts...), rest...), ret, e2, blk)
			} else {
				elseT = n.stmts(rest, ret, e2, blk)
			}
			return mkSeq(effs, &IfT{Cond: cond, Then: thenT, Else: elseT})
		case *Assign:
			if lc, ok := x.LHS.(*Local); ok && x.Op == "=" && n.inLoop == 0 && !n.loopVars[lc.Obj] {
				e = e.bind(lc.Obj, n.term(x.RHS, e))
				continue
			}
			if fl, ok := x.LHS.(*Field); ok && x.Op == "=" {
				// r.f = v on a local record value: functional update
				if lc, ok := fl.X.(*Local); ok {
					if cur, ok := e.lookup(lc.Obj); ok {
						if rec, ok := cur.(*Record); ok {
							nr := &Record{Type: rec.Type}
							done := false
							v := n.term(x.RHS, e)
							for _, f := range rec.Fields {
								if f.Name == fl.Name {
									nr.Fields = append(nr.Fields, FieldVal{f.Name, v})
									done = true
								} else {
									nr.Fields = append(nr.Fields, f)
								}
							}
							if !done {
								nr.Fields = append(nr.Fields, FieldVal{fl.Name, v})
							}
							e = e.bind(lc.Obj, nr)
							continue
						}
					}
				}
			}
			n.Imperative = true
			effs = append(effs, &AssignT{LHS: n.term(x.LHS, e), RHS: n.term(x.RHS, e), Op: x.Op})
		case *Loop:
			n.Imperative = true
			n.inLoop++
			lt := &LoopT{node: node{x.Pos()}, L: x}
			if x.Over != nil {
				lt.Over = n.term(x.Over, e)
			}
			one := func(s Stmt) Term {
				switch y := s.(type) {
				case *Let:
					if len(y.Vars) == 1 && y.Vars[0] != nil {
						return &AssignT{LHS: &Local{Obj: y.Vars[0]}, RHS: n.term(y.Val, e), Op: ":="}
					}
				case *Assign:
					return &AssignT{LHS: n.term(y.LHS, e), RHS: n.term(y.RHS, e), Op: y.Op}
				case nil:
					return nil
				}
				return &Opaque{Why: "loop header"}
			}
			if x.Init != nil {
				lt.Init = one(x.Init)
			}
			if x.Cond != nil {
				lt.Cond = n.term(x.Cond, e)
			}
			if x.Post != nil {
				lt.Post = one(x.Post)
			}
			lt.Body = n.block(x.Body, e)
			effs = append(effs, lt)
			n.inLoop--
		case *OpaqueStmt:
			n.Imperative = true
			effs = append(effs, &Opaque{node: node{x.Pos()}, Node: x.Node, Why: x.Why})
		}
	}
	var r Term
	if ret != nil {
		r = n.term(ret, e)
	}
	if n.inLoop > 0 && blk != nil && blk.HasRet {
		return mkSeq(effs, &RetT{X: r})
	}
	return mkSeq(effs, r)
}

func mkProj(t Term, i int, multi bool) Term {
	switch x := t.(type) {
	case *Tuple:
		if !multi && i < len(x.Elems) {
			return x.Elems[i]
		}
	case *MultiRet:
		if multi && i < len(x.Elems) {
			return x.Elems[i]
		}
	}
	return &Proj{X: t, I: i}
}

func (n *Normalizer) terms(ts []Term, e *env) []Term {
	res := make([]Term, len(ts))
	for i, t := range ts {
		res[i] = n.term(t, e)
	}
	return res
}

func (n *Normalizer) term(t Term, e *env) Term {
	// a runaway expansion (e.g. inlining that does not terminate) must end as an undecidable node, not as a
	// stack overflow of the checker
	n.depth++
	defer func() { n.depth-- }()
	if n.depth > 4000 {
		n.Imperative = true
		return &Opaque{Why: "normal form too deep (expansion does not terminate?)"}
	}
	switch x := t.(type) {
	case nil:
		return nil
	case *Param, *Lit, *Nil, *FuncRef, *Global, *Builtin, *Zero, *Payload, *TypeLit:
		return t
	case *Local:
		if v, ok := e.lookup(x.Obj); ok {
			return v
		}
		return t
	case *Lam:
		e2 := e
		for _, p := range x.Params {
			if p != nil {
				e2 = e2.bind(p, &Local{Obj: p})
			}
		}
		body := n.block(x.Body, e2)
		return eta(&Lam{node: x.node, Params: x.Params, Body: &Block{Ret: body, HasRet: true}, Lit: x.Lit})
	case *App:
		// make([]T, 0) / make([]T, 0, cap) is the empty list: capacity is not observable in a result
		if b, ok := x.Fun.(*Builtin); ok && b.Name == "make" && (len(x.Args) == 2 || len(x.Args) == 3) {
			if tl, ok := x.Args[0].(*TypeLit); ok {
				if _, isSlice := tl.Type.Underlying().(*types.Slice); isSlice {
					if lit, ok := x.Args[1].(*Lit); ok && lit.Val == "0" {
						return &Zero{x.node, tl.Type}
					}
				}
			}
		}
		return n.apply(x, n.term(x.Fun, e), n.terms(x.Args, e))
	case *If:
		return &If{node: x.node, Kind: x.Kind, Cond: n.term(x.Cond, e), Then: wrap(n.block(x.Then, e)), Else: wrapNil(x.Else, n, e)}
	case *Match:
		m := &Match{node: x.node, Scrut: n.term(x.Scrut, e), ScrutType: x.ScrutType, NeverReached: x.NeverReached, Returns: x.Returns, Stmt: x.Stmt}
		for _, a := range x.Arms {
			m.Arms = append(m.Arms, &MatchArm{Cases: a.Cases, Binder: a.Binder, Clause: a.Clause, Body: wrap(n.block(a.Body, e))})
		}
		if x.Default != nil {
			m.Default = wrap(n.block(x.Default, e))
		}
		return m
	case *StrMatch:
		m := &StrMatch{node: x.node, Scrut: n.term(x.Scrut, e), Returns: x.Returns}
		for _, a := range x.Arms {
			m.Arms = append(m.Arms, &StrArm{Vals: n.terms(a.Vals, e), Body: wrap(n.block(a.Body, e))})
		}
		if x.Default != nil {
			m.Default = wrap(n.block(x.Default, e))
		}
		return m
	case *Tuple:
		return &Tuple{x.node, n.terms(x.Elems, e)}
	case *Proj:
		return mkProj(n.term(x.X, e), x.I, false)
	case *Record:
		r := &Record{node: x.node, Type: x.Type}
		for _, f := range x.Fields {
			r.Fields = append(r.Fields, FieldVal{f.Name, n.term(f.Val, e)})
		}
		return r
	case *Field:
		return mkField(n.term(x.X, e), x)
	case *SliceLit:
		return &SliceLit{x.node, x.Type, n.terms(x.Elems, e)}
	case *BinOp:
		return &BinOp{x.node, x.Op, n.term(x.L, e), n.term(x.R, e)}
	case *Not:
		return &Not{x.node, n.term(x.X, e)}
	case *Neg:
		return &Neg{x.node, n.term(x.X, e)}
	case *AddrOf:
		return &AddrOf{x.node, n.term(x.X, e)}
	case *Conv:
		return &Conv{x.node, x.Type, n.term(x.X, e)}
	case *Index:
		return &Index{x.node, n.term(x.X, e), n.term(x.I, e), x.CommaOk}
	case *SliceOf:
		return &SliceOf{x.node, n.term(x.X, e), n.term(x.Lo, e), n.term(x.Hi, e), n.term(x.Max, e)}
	case *MultiRet:
		return &MultiRet{x.node, n.terms(x.Elems, e)}
	case *Opaque:
		return &Opaque{node: x.node, Node: x.Node, Why: x.Why, Mentions: n.terms(x.Mentions, e)}
	case *Seq:
		return mkSeq(n.terms(x.Effs, e), n.term(x.Ret, e))
	case *PApp:
		return &PApp{node: x.node, Fun: n.term(x.Fun, e), First: n.terms(x.First, e), Arity: x.Arity}
	case *IfT:
		return &IfT{node: x.node, Cond: n.term(x.Cond, e), Then: n.term(x.Then, e), Else: n.term(x.Else, e)}
	case *RetT:
		return &RetT{x.node, n.term(x.X, e)}
	case *LoopT:
		return &LoopT{node: x.node, L: x.L, Over: n.term(x.Over, e), Init: n.term(x.Init, e), Cond: n.term(x.Cond, e), Post: n.term(x.Post, e), Body: n.term(x.Body, e)}
	case *AssignT:
		return &AssignT{node: x.node, LHS: n.term(x.LHS, e), RHS: n.term(x.RHS, e), Op: x.Op}
	}
	return t
}

func wrap(t Term) *Block { return &Block{Ret: t, HasRet: true} }

func wrapNil(b *Block, n *Normalizer, e *env) *Block {
	if b == nil {
		return nil
	}
	return wrap(n.block(b, e))
}

func mkField(x Term, f *Field) Term {
	if rec, ok := x.(*Record); ok {
		for _, fv := range rec.Fields {
			if fv.Name == f.Name {
				return fv.Val
			}
		}
	}
	return &Field{f.node, x, f.Name, f.Obj}
}

// eta reduces \r0..rk. g(a..., r0..rk) to PApp when a... and g do not mention r.
func eta(l *Lam) Term {
	body := l.Body.Ret
	app, ok := body.(*App)
	if !ok || len(l.Params) == 0 || len(app.Args) < len(l.Params) {
		return l
	}
	k := len(l.Params)
	first := app.Args[:len(app.Args)-k]
	for i, p := range l.Params {
		lc, ok := app.Args[len(first)+i].(*Local)
		if !ok || p == nil || lc.Obj != p {
			return l
		}
	}
	ps := map[*types.Var]bool{}
	for _, p := range l.Params {
		ps[p] = true
	}
	if mentions(app.Fun, ps) {
		return l
	}
	for _, a := range first {
		if mentions(a, ps) {
			return l
		}
	}
	if len(first) == 0 {
		return app.Fun // \x. g(x) == g
	}
	return &PApp{node: l.node, Fun: app.Fun, First: first, Arity: k}
}

func mentions(t Term, vs map[*types.Var]bool) bool {
	found := false
	Walk(t, func(x Term) bool {
		if lc, ok := x.(*Local); ok && vs[lc.Obj] {
			found = true
		}
		return !found
	})
	return found
}

func (n *Normalizer) apply(orig *App, fun Term, args []Term) Term {
	switch f := fun.(type) {
	case *Lam:
		if len(f.Params) == len(args) && !orig.Spread {
			m := map[*types.Var]Term{}
			for i, p := range f.Params {
				if p != nil {
					m[p] = args[i]
				}
			}
			return n.resimp(Subst(f.Body.Ret, m, nil))
		}
	case *PApp:
		if len(args) == f.Arity && !orig.Spread {
			all := append(append([]Term{}, f.First...), args...)
			return n.apply(&App{node: orig.node}, f.Fun, all)
		}
	case *FuncRef:
		// frt.Fst / frt.Snd applied through a pipe or as a function value are the projections the direct call is
		if len(args) == 1 && !orig.Spread {
			switch f.Key {
			case "github.com/karino2/folang/pkg/frt.Fst":
				return mkProj(args[0], 0, false)
			case "github.com/karino2/folang/pkg/frt.Snd":
				return mkProj(args[0], 1, false)
			}
		}
		if callee, ok := n.Inline[f.Key]; ok && !n.busy[callee] && len(args) == len(callee.Params) && !orig.Spread {
			saved := n.ifs
			nf := n.Func(callee)
			n.ifs = saved
			return n.resimp(Subst(nf, nil, args))
		}
	}
	return &App{node: orig.node, Fun: fun, Args: args, Pipe: orig.Pipe, Spread: orig.Spread, Call: orig.Call, Method: orig.Method}
}

// resimp re-applies the simplifications after a substitution (new β-redexes, projections of tuples, …).
func (n *Normalizer) resimp(t Term) Term {
	return n.term(t, nil)
}

// Subst replaces locals (by object) and/or parameters (by index) in a normal-form term.
func Subst(t Term, locals map[*types.Var]Term, params []Term) Term {
	return rewrite(t, locals, params, nil)
}

// Rewrite rebuilds a normal-form term bottom-up-free: hook is asked first at every node (pre-order); when it
// answers true its result replaces the node (and is not descended into).
func Rewrite(t Term, hook func(Term) (Term, bool)) Term {
	return rewrite(t, nil, nil, hook)
}

func rewrite(t Term, locals map[*types.Var]Term, params []Term, hook func(Term) (Term, bool)) Term {
	var s func(Term) Term
	ss := func(ts []Term) []Term {
		res := make([]Term, len(ts))
		for i, x := range ts {
			res[i] = s(x)
		}
		return res
	}
	sb := func(b *Block) *Block {
		if b == nil {
			return nil
		}
		if len(b.Stmts) != 0 {
			panic("Subst on non-normal block")
		}
		return &Block{Ret: s(b.Ret), HasRet: b.HasRet}
	}
	s = func(t Term) Term {
		if hook != nil && t != nil {
			if r, ok := hook(t); ok {
				return r
			}
		}
		switch x := t.(type) {
		case nil:
			return nil
		case *Param:
			if params != nil && x.Idx < len(params) {
				return params[x.Idx]
			}
			return t
		case *Local:
			if v, ok := locals[x.Obj]; ok {
				return v
			}
			return t
		case *Lit, *Nil, *FuncRef, *Global, *Builtin, *Zero, *Payload, *TypeLit:
			return t
		case *Lam:
			return &Lam{node: x.node, Params: x.Params, Body: sb(x.Body), Lit: x.Lit}
		case *PApp:
			return &PApp{node: x.node, Fun: s(x.Fun), First: ss(x.First), Arity: x.Arity}
		case *App:
			return &App{node: x.node, Fun: s(x.Fun), Args: ss(x.Args), Pipe: x.Pipe, Spread: x.Spread, Call: x.Call, Method: x.Method}
		case *If:
			return &If{node: x.node, Kind: x.Kind, Cond: s(x.Cond), Then: sb(x.Then), Else: sb(x.Else)}
		case *IfT:
			return &IfT{node: x.node, Cond: s(x.Cond), Then: s(x.Then), Else: s(x.Else)}
		case *Seq:
			return &Seq{node: x.node, Effs: ss(x.Effs), Ret: s(x.Ret)}
		case *Match:
			m := &Match{node: x.node, Scrut: s(x.Scrut), ScrutType: x.ScrutType, NeverReached: x.NeverReached, Returns: x.Returns, Stmt: x.Stmt}
			for _, a := range x.Arms {
				m.Arms = append(m.Arms, &MatchArm{Cases: a.Cases, Binder: a.Binder, Clause: a.Clause, Body: sb(a.Body)})
			}
			m.Default = sb(x.Default)
			return m
		case *StrMatch:
			m := &StrMatch{node: x.node, Scrut: s(x.Scrut), Returns: x.Returns}
			for _, a := range x.Arms {
				m.Arms = append(m.Arms, &StrArm{Vals: ss(a.Vals), Body: sb(a.Body)})
			}
			m.Default = sb(x.Default)
			return m
		case *Tuple:
			return &Tuple{x.node, ss(x.Elems)}
		case *Proj:
			return &Proj{x.node, s(x.X), x.I}
		case *Record:
			r := &Record{node: x.node, Type: x.Type}
			for _, f := range x.Fields {
				r.Fields = append(r.Fields, FieldVal{f.Name, s(f.Val)})
			}
			return r
		case *Field:
			return &Field{x.node, s(x.X), x.Name, x.Obj}
		case *SliceLit:
			return &SliceLit{x.node, x.Type, ss(x.Elems)}
		case *BinOp:
			return &BinOp{x.node, x.Op, s(x.L), s(x.R)}
		case *Not:
			return &Not{x.node, s(x.X)}
		case *Neg:
			return &Neg{x.node, s(x.X)}
		case *AddrOf:
			return &AddrOf{x.node, s(x.X)}
		case *Conv:
			return &Conv{x.node, x.Type, s(x.X)}
		case *Index:
			return &Index{x.node, s(x.X), s(x.I), x.CommaOk}
		case *SliceOf:
			return &SliceOf{x.node, s(x.X), s(x.Lo), s(x.Hi), s(x.Max)}
		case *MultiRet:
			return &MultiRet{x.node, ss(x.Elems)}
		case *Opaque:
			return &Opaque{node: x.node, Node: x.Node, Why: x.Why, Mentions: ss(x.Mentions)}
		case *RetT:
			return &RetT{x.node, s(x.X)}
		case *LoopT:
			return &LoopT{node: x.node, L: x.L, Over: s(x.Over), Init: s(x.Init), Cond: s(x.Cond), Post: s(x.Post), Body: s(x.Body)}
		case *AssignT:
			return &AssignT{node: x.node, LHS: s(x.LHS), RHS: s(x.RHS), Op: x.Op}
		}
		return t
	}
	return s(t)
}

// Walk visits t and its sub-terms (pre-order) while f returns true.
func Walk(t Term, f func(Term) bool) {
	if t == nil || !f(t) {
		return
	}
	wb := func(b *Block) {
		if b == nil {
			return
		}
		for _, s := range b.Stmts {
			WalkStmt(s, f)
		}
		Walk(b.Ret, f)
	}
	switch x := t.(type) {
	case *Lam:
		wb(x.Body)
	case *PApp:
		Walk(x.Fun, f)
		for _, a := range x.First {
			Walk(a, f)
		}
	case *App:
		Walk(x.Fun, f)
		for _, a := range x.Args {
			Walk(a, f)
		}
	case *If:
		Walk(x.Cond, f)
		wb(x.Then)
		wb(x.Else)
	case *IfT:
		Walk(x.Cond, f)
		Walk(x.Then, f)
		Walk(x.Else, f)
	case *Seq:
		for _, a := range x.Effs {
			Walk(a, f)
		}
		Walk(x.Ret, f)
	case *Match:
		Walk(x.Scrut, f)
		for _, a := range x.Arms {
			wb(a.Body)
		}
		wb(x.Default)
	case *StrMatch:
		Walk(x.Scrut, f)
		for _, a := range x.Arms {
			for _, v := range a.Vals {
				Walk(v, f)
			}
			wb(a.Body)
		}
		wb(x.Default)
	case *Tuple:
		for _, a := range x.Elems {
			Walk(a, f)
		}
	case *Proj:
		Walk(x.X, f)
	case *Record:
		for _, a := range x.Fields {
			Walk(a.Val, f)
		}
	case *Field:
		Walk(x.X, f)
	case *SliceLit:
		for _, a := range x.Elems {
			Walk(a, f)
		}
	case *BinOp:
		Walk(x.L, f)
		Walk(x.R, f)
	case *Not:
		Walk(x.X, f)
	case *Neg:
		Walk(x.X, f)
	case *AddrOf:
		Walk(x.X, f)
	case *Conv:
		Walk(x.X, f)
	case *Index:
		Walk(x.X, f)
		Walk(x.I, f)
	case *SliceOf:
		Walk(x.X, f)
		Walk(x.Lo, f)
		Walk(x.Hi, f)
		Walk(x.Max, f)
	case *MultiRet:
		for _, a := range x.Elems {
			Walk(a, f)
		}
	case *Opaque:
		for _, a := range x.Mentions {
			Walk(a, f)
		}
	case *RetT:
		Walk(x.X, f)
	case *LoopT:
		Walk(x.Over, f)
		Walk(x.Init, f)
		Walk(x.Cond, f)
		Walk(x.Post, f)
		Walk(x.Body, f)
	case *AssignT:
		Walk(x.LHS, f)
		Walk(x.RHS, f)
	}
}

// WalkStmt visits the terms of a (non-normalised) statement.
func WalkStmt(s Stmt, f func(Term) bool) {
	wb := func(b *Block) {
		if b == nil {
			return
		}
		for _, s := range b.Stmts {
			WalkStmt(s, f)
		}
		Walk(b.Ret, f)
	}
	switch x := s.(type) {
	case *Let:
		Walk(x.Val, f)
	case *Do:
		Walk(x.X, f)
	case *Defer:
		Walk(x.X, f)
	case *IfStmt:
		if x.Init != nil {
			WalkStmt(x.Init, f)
		}
		Walk(x.Cond, f)
		wb(x.Then)
		wb(x.Else)
	case *Assign:
		Walk(x.LHS, f)
		Walk(x.RHS, f)
	case *Loop:
		if x.Init != nil {
			WalkStmt(x.Init, f)
		}
		Walk(x.Cond, f)
		if x.Post != nil {
			WalkStmt(x.Post, f)
		}
		Walk(x.Over, f)
		wb(x.Body)
	}
}

// WalkFunc visits every term of a lowered function.
func WalkFunc(fn *Func, f func(Term) bool) {
	if fn.Body == nil {
		return
	}
	for _, s := range fn.Body.Stmts {
		WalkStmt(s, f)
	}
	Walk(fn.Body.Ret, f)
}

var _ = token.NoPos

func hasApp(t Term) bool {
	found := false
	Walk(t, func(x Term) bool {
		if _, ok := x.(*App); ok {
			found = true
		}
		return !found
	})
	return found
}

// isMutableZero: the zero value of a struct type (a buffer, a builder): an object with identity, not a value.
func isMutableZero(t Term) bool {
	z, ok := t.(*Zero)
	if !ok || z.Type == nil {
		return false
	}
	_, isStruct := z.Type.Underlying().(*types.Struct)
	return isStruct
}

// EachBlock calls f for every (non-normalised) block of fn: the body, lambda bodies, branches, match arms and loop bodies.
func EachBlock(fn *Func, f func(*Block)) {
	var vb func(b *Block)
	var vt func(t Term)
	var vs func(s Stmt)
	vb = func(b *Block) {
		if b == nil {
			return
		}
		f(b)
		for _, s := range b.Stmts {
			vs(s)
		}
		vt(b.Ret)
	}
	vt = func(t Term) {
		if t == nil {
			return
		}
		Walk(t, func(x Term) bool {
			switch y := x.(type) {
			case *Lam:
				vb(y.Body)
				return false
			case *If:
				vt(y.Cond)
				vb(y.Then)
				vb(y.Else)
				return false
			case *Match:
				vt(y.Scrut)
				for _, a := range y.Arms {
					vb(a.Body)
				}
				vb(y.Default)
				return false
			case *StrMatch:
				vt(y.Scrut)
				for _, a := range y.Arms {
					for _, v := range a.Vals {
						vt(v)
					}
					vb(a.Body)
				}
				vb(y.Default)
				return false
			}
			return true
		})
	}
	vs = func(s Stmt) {
		switch x := s.(type) {
		case *Let:
			vt(x.Val)
		case *Do:
			vt(x.X)
		case *Defer:
			vt(x.X)
		case *IfStmt:
			if x.Init != nil {
				vs(x.Init)
			}
			vt(x.Cond)
			vb(x.Then)
			vb(x.Else)
		case *Assign:
			vt(x.LHS)
			vt(x.RHS)
		case *Loop:
			if x.Init != nil {
				vs(x.Init)
			}
			vt(x.Cond)
			if x.Post != nil {
				vs(x.Post)
			}
			vt(x.Over)
			vb(x.Body)
		}
	}
	vb(fn.Body)
}
